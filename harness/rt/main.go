package zzverif

import (
	"bufio"
	"encoding/json"
	"math/rand"
	"os"
	"strconv"
	"testing"
	"time"
)

// TestVerif is the single entry point of the rt harness.
//
//	VERIF_MODE=gen     generate VERIF_COUNT histories for VERIF_PROP from VERIF_SEED, run them
//	VERIF_MODE=replay  run the histories (JSON lines) of VERIF_IN
//	VERIF_OUT          trace file; VERIF_HIST: the generated histories as JSON lines
func TestVerif(t *testing.T) {
	mode := os.Getenv("VERIF_MODE")
	if mode == "" {
		t.Skip("VERIF_MODE not set")
	}
	// HTTP dates are GMT whatever the process's zone is: run with a local zone far from UTC so that a
	// time formatted or compared in local time shows (VERIF_TZ_OFFSET hours, default +9)
	off := 9
	if v, err := strconv.Atoi(os.Getenv("VERIF_TZ_OFFSET")); err == nil {
		off = v
	}
	defaultZone := time.FixedZone("verif", off*3600)
	time.Local = defaultZone
	setZone := func(h *History) {
		time.Local = defaultZone
		if h.TZ != "" {
			if loc, err := time.LoadLocation(h.TZ); err == nil {
				time.Local = loc
			}
		}
	}
	out, err := os.Create(os.Getenv("VERIF_OUT"))
	if err != nil {
		t.Fatal(err)
	}
	defer out.Close()
	w := bufio.NewWriterSize(out, 1<<20)
	defer w.Flush()
	runOne := func(h *History) {
		setZone(h)
		var lines []string
		t.Run("h", func(t *testing.T) { lines = runHistory(t, h) })
		for _, l := range lines {
			w.WriteString(l)
			w.WriteByte('\n')
		}
		w.Flush()
		if os.Getenv("VERIF_RACE") == "1" {
			// the race pass: once more without the harness's own locks (raw.go)
			t.Run("raw", func(t *testing.T) { runHistoryRaw(t, h) })
		}
	}
	switch mode {
	case "gen":
		seed, _ := strconv.ParseInt(os.Getenv("VERIF_SEED"), 10, 64)
		count, _ := strconv.Atoi(os.Getenv("VERIF_COUNT"))
		g := &G{r: rand.New(rand.NewSource(seed)), prop: os.Getenv("VERIF_PROP"), tier: os.Getenv("VERIF_TIER")}
		var hw *bufio.Writer
		if p := os.Getenv("VERIF_HIST"); p != "" {
			f, err := os.Create(p)
			if err != nil {
				t.Fatal(err)
			}
			defer f.Close()
			hw = bufio.NewWriterSize(f, 1<<20)
			defer hw.Flush()
		}
		for i := 0; i < count; i++ {
			h := g.next()
			if hw != nil {
				hw.WriteString(h.JSON())
				hw.WriteByte('\n')
				hw.Flush()
			}
			runOne(h)
		}
	case "replay":
		f, err := os.Open(os.Getenv("VERIF_IN"))
		if err != nil {
			t.Fatal(err)
		}
		defer f.Close()
		sc := bufio.NewScanner(f)
		sc.Buffer(make([]byte, 1<<20), 1<<28)
		for sc.Scan() {
			if len(sc.Bytes()) == 0 {
				continue
			}
			var h History
			if err := json.Unmarshal(sc.Bytes(), &h); err != nil {
				t.Fatal(err)
			}
			runOne(&h)
		}
	}
}
