package zzverif

// The raw runner: the same history against the real transport WITHOUT any of the harness's own
// bookkeeping. The recording harness serialises what it records with mutexes, and a mutex that the
// foreground releases and the background later acquires is a happens-before edge: the race detector
// then no longer sees an unsynchronised access of the library itself (found with a seeded change that
// made a value shared by the foreground and its background revalidation mutable — the recording run
// hid it). Here nothing is shared between the goroutines but what the library shares:
//   - the scripted origin reads the history (immutable) and counts its calls per exchange with an atomic
//     on a slot that only the goroutines of that exchange touch;
//   - the store is the real memory or file-system backend, not the recording one;
//   - nothing is emitted; the only verdict of this run is the race detector's.
// It is used in the race pass only (VERIF_RACE=1), after the recorded run of the same history.

import (
	"context"
	"errors"
	"io"
	"log/slog"
	"net/http"
	"net/url"
	"os"
	"strconv"
	"strings"
	"sync"
	"sync/atomic"
	"testing"
	"testing/synctest"
	"time"

	"github.com/bartventer/httpcache"
	_ "github.com/bartventer/httpcache/store/fscache"
	_ "github.com/bartventer/httpcache/store/memcache"
)

type rawOrigin struct {
	h     *History
	calls []atomic.Int32
}

func (o *rawOrigin) RoundTrip(req *http.Request) (*http.Response, error) {
	n, ok := req.Context().Value(exKey{}).(int)
	if !ok || n < 0 || n >= len(o.h.Ops) || len(o.h.Ops[n].Replies) == 0 {
		return nil, errors.New("verif: unscripted")
	}
	k := int(o.calls[n].Add(1)) - 1
	reps := o.h.Ops[n].Replies
	rp := reps[min(k, len(reps)-1)]
	ctx := req.Context()
	if rp.Hang {
		tm := time.NewTimer(20 * time.Minute)
		select {
		case <-ctx.Done():
			tm.Stop()
			return nil, ctx.Err()
		case <-tm.C:
			return nil, errors.New("verif: origin never answered")
		}
	}
	if rp.DelayNs > 0 {
		tm := time.NewTimer(time.Duration(rp.DelayNs))
		select {
		case <-tm.C:
		case <-ctx.Done():
			tm.Stop()
			return nil, ctx.Err()
		}
	} else if ctx.Err() != nil {
		return nil, ctx.Err()
	}
	if rp.Err {
		return nil, errOrigin
	}
	if rp.NilResp {
		return nil, nil
	}
	resp, _, err := buildResponse(req, &rp, n, k)
	return resp, err
}

func runHistoryRaw(t *testing.T, h *History) {
	dir := ""
	defer func() {
		if dir != "" {
			os.RemoveAll(dir)
		}
	}()
	synctest.Test(t, func(t *testing.T) {
		dsn := "memcache://"
		if h.Backend == "fs" || h.Backend == "fsenc" {
			d, err := os.MkdirTemp("", "verif-raw-")
			if err != nil {
				return
			}
			dir = d
			dsn = "fscache://" + d + "?appname=verif"
			if h.Backend == "fsenc" {
				dsn += "&encrypt=on&encrypt_key=" + url.QueryEscape(encKey)
			}
		}
		opts := []httpcache.Option{httpcache.WithUpstream(&rawOrigin{h: h, calls: make([]atomic.Int32, len(h.Ops))})}
		if h.SWRTimeoutNs != 0 {
			opts = append(opts, httpcache.WithSWRTimeout(time.Duration(h.SWRTimeoutNs)))
		}
		if h.Logger == "debug" {
			opts = append(opts, httpcache.WithLogger(slog.New(slog.NewTextHandler(io.Discard, &slog.HandlerOptions{Level: slog.LevelDebug}))))
		}
		var tr http.RoundTripper
		func() {
			defer func() { recover() }()
			tr = httpcache.NewTransport(dsn, opts...)
		}()
		if tr == nil {
			return
		}
		start := time.Now()
		cancels := make([]context.CancelFunc, len(h.Ops))
		for i := range cancels {
			cancels[i] = func() {}
		}
		doExchange := func(n int, op Op) {
			ctx, cancel := context.WithCancel(context.WithValue(context.Background(), exKey{}, n))
			if d, ok := strings.CutPrefix(op.Cancel, "dl:"); ok {
				ns, _ := strconv.ParseInt(d, 10, 64)
				inner := cancel
				var c2 context.CancelFunc
				ctx, c2 = context.WithTimeout(ctx, time.Duration(ns))
				cancel = func() { c2(); inner() }
			}
			cancels[n] = cancel
			if op.Cancel == "before" {
				cancel()
			}
			req, err := http.NewRequestWithContext(ctx, wireMethod(op.Method), op.URL, nil)
			if err != nil {
				return
			}
			if op.Method == "(empty)" {
				req.Method = ""
			}
			if op.SetPath != "" {
				req.URL.Path, req.URL.RawPath = op.SetPath, ""
			}
			if op.Host != "" {
				req.Host = op.Host
			}
			if op.NilHeader && len(op.Hdr) == 0 {
				req.Header = nil
			}
			for _, p := range op.Hdr {
				req.Header.Add(p[0], p[1])
			}
			var resp *http.Response
			func() {
				defer func() { recover() }()
				resp, _ = tr.RoundTrip(req)
			}()
			if resp != nil {
				// the caller uses what it was given: reads the header fields, the body, closes it
				for k, vs := range resp.Header {
					_ = k
					_ = len(vs)
				}
				if resp.Body != nil {
					_, _ = io.Copy(io.Discard, resp.Body)
					resp.Body.Close()
				}
			}
		}
		for n, op := range h.Ops {
			if d := time.Duration(op.AtNs) - time.Since(start); d > 0 {
				<-time.After(d)
				synctest.Wait()
			}
			if op.Op != "req" {
				continue
			}
			if h.Concurrent && n > 0 && h.Ops[n-1].Op == "req" && h.Ops[n-1].AtNs == op.AtNs {
				continue
			}
			group := []int{n}
			if h.Concurrent {
				for m := n + 1; m < len(h.Ops) && h.Ops[m].Op == "req" && h.Ops[m].AtNs == op.AtNs; m++ {
					group = append(group, m)
				}
			}
			if len(group) == 1 {
				doExchange(n, op)
			} else {
				var wg sync.WaitGroup
				for _, m := range group {
					wg.Add(1)
					go func(m int) {
						defer wg.Done()
						doExchange(m, h.Ops[m])
					}(m)
				}
				wg.Wait()
			}
			synctest.Wait()
			for _, m := range group {
				if h.Ops[m].Cancel == "after" {
					cancels[m]()
				}
			}
			synctest.Wait()
		}
		<-time.After(10 * time.Minute)
		synctest.Wait()
		for _, c := range cancels {
			c()
		}
		synctest.Wait()
	})
}
