package zzverif

// Round-6 generator classes: each is the directed form of an input dimension that a seeded change of the sixth
// round needed and the random classes produced too rarely.

import (
	"strconv"
	"strings"
)

// genQueryDots: dot segments are a matter of the PATH (RFC 3986 §5.2.4, §6.2.2.3). In a query "/../" and "/./"
// are data: "/list?dir=/pub/../private" is not "/list?dir=/private", and "/view?p=a/.." is not "/".
func (g *G) genQueryDots(id string) *History {
	h := &History{ID: id, Prop: g.prop, Class: "query-dots", Backend: pick(g, "mem", "mem", "fs"), Logger: "discard"}
	base := pick(g, "http://a.test", "https://shop.example:8443")
	pairs := [][2]string{
		{"/list?dir=/pub/../private", "/list?dir=/private"},
		{"/docs/index?ref=/../secret", "/docs/secret"},
		{"/view?p=a/..", "/"},
		{"/q?x=/./y", "/q?x=/y"},
		{"/q?a=b/../c", "/q?a=c"},
		{"/p/?..", "/"},
	}
	pr := pairs[g.r.Intn(len(pairs))]
	order := []string{pr[0], pr[1]}
	if g.chance(0.5) {
		order[0], order[1] = order[1], order[0]
	}
	at := int64(0)
	for i := 0; i < 2+g.r.Intn(2); i++ {
		u := order[i%2]
		h.Ops = append(h.Ops, Op{Op: "req", AtNs: at, Method: "GET", URL: base + u,
			Replies: []Reply{{Status: 200, BodyFail: -1, Body: "for " + u, Hdr: Hdr{{"Date", dateAt(at, 0)}, {"Cache-Control", "max-age=600"}}}}})
		at += pick(g, sec, 5*sec)
	}
	return h
}

// genVaryReplace: a reply to a forced validation nominates OTHER fields than the response it replaces. The new
// response is another variant (its identifier is made of what IT nominates); later the first variant is stored
// again, and a request that differs in the first field must not be given it through the second reference.
func (g *G) genVaryReplace(id string) *History {
	h := &History{ID: id, Prop: g.prop, Class: "vary-replace", Backend: pick(g, "mem", "mem", "fs"), Logger: "discard"}
	url := "http://a.test/vr"
	at := int64(0)
	add := func(hdr Hdr, body, vary string) {
		hd := Hdr{{"Date", dateAt(at, 0)}, {"Cache-Control", "max-age=600"}}
		if vary != "" {
			hd = append(hd, [2]string{"Vary", vary})
		}
		h.Ops = append(h.Ops, Op{Op: "req", AtNs: at, Method: "GET", URL: url, Hdr: hdr, Replies: []Reply{{Status: 200, BodyFail: -1, Body: body, Hdr: hd}}})
		at += sec
	}
	f1, f2 := "X-A", "X-B"
	if g.chance(0.5) {
		f1, f2 = f2, f1
	}
	nc := [2]string{"Cache-Control", pick(g, "no-cache", "max-age=0")}
	add(Hdr{{f1, "a"}}, "t-a", f1)
	add(Hdr{{f1, "a"}, nc}, "pv", f2)
	add(Hdr{{f1, "a"}, {f2, "1"}}, "t-a2", f1)
	add(Hdr{{f1, "b"}}, "t-b", f1)
	if g.chance(0.5) {
		add(Hdr{{f1, "a"}}, "t-a3", f1)
	}
	return h
}

// genOldLastModified: heuristic freshness from a Last-Modified decades (or centuries) before Date — sentinel
// dates like the Unix epoch, 1980-01-01 or 1601-01-01 are common: 10 % of the interval, computed without
// overflowing, is years; the response is fresh and is served from the store.
func (g *G) genOldLastModified(id string) *History {
	h := &History{ID: id, Prop: g.prop, Class: "old-last-modified", Backend: pick(g, "mem", "mem", "fs"), Logger: "discard"}
	url := "http://a.test/olm"
	years := pick(g, int64(29), 30, 45, 100, 399, 1000)
	lm := httpDate(bubbleEpoch - years*365*86400)
	at := int64(0)
	for i := 0; i < 2+g.r.Intn(2); i++ {
		h.Ops = append(h.Ops, Op{Op: "req", AtNs: at, Method: "GET", URL: url,
			Replies: []Reply{{Status: pick(g, 200, 200, 404, 410), BodyFail: -1, Body: "olm" + strconv.Itoa(i),
				Hdr: Hdr{{"Date", dateAt(at, 0)}, {"Last-Modified", lm}}}}})
		at += pick(g, 60*sec, 3600*sec, 86400*sec)
	}
	return h
}

// genSelEquiv (fifth hunt): a response stored under a Vary on one of the content-negotiation fields, then the SAME
// request in another spelling of the same value — member order, optional white space (also around the ";" of a
// parameter, RFC 9110 §5.6.6), the documented aliases, one or several field lines. While the response is fresh the
// second request is answered from the store (C09); a spelling of ANOTHER value is not (C04).
func (g *G) genSelEquiv(id string) *History {
	h := &History{ID: id, Prop: g.prop, Class: "sel-equiv", Backend: pick(g, "mem", "mem", "fs", "fsenc"), Logger: "discard"}
	type grp struct {
		field string
		same  []string
		other []string
	}
	gr := []grp{
		{"Accept", []string{"text/plain;charset=utf-8", "text/plain ;charset=utf-8", "text/plain; charset=utf-8", "text/plain ; charset=utf-8"}, []string{"text/plain", "text/plain;charset=latin1"}},
		{"Accept", []string{"text/x;a=1;b=2", "text/x ;b=2 ;a=1", "text/x; b=2; a=1", "text/x;b=2;a=1"}, []string{"text/x;a=1", "text/x;a=2;b=1"}},
		{"Accept", []string{`x/y;a="1;b=2";c=3`, `x/y;c=3;a="1;b=2"`, `x/y ; a="1;b=2" ; c=3`}, []string{`x/y;a="1;c=3;b=2"`, `x/y;a="1";b=2;c=3`, `x/y;a="1;b=2"`}},
		{"Accept", []string{"text/html, application/json", "application/json,text/html", "application/json , text/html", "text/html|application/json"}, []string{"text/html", "application/json, text/xml"}},
		{"Accept-Encoding", []string{"gzip, br", "br,gzip", "x-gzip, br", "br , x-gzip", "gzip|br"}, []string{"gzip", "br, deflate"}},
		{"Accept-Encoding", []string{"gzip", "x-gzip", " gzip ", "gzip,"}, []string{"identity", "gzipx"}},
		{"Accept-Language", []string{"de, en", "en,de", "en , de", "de|en"}, []string{"de", "en, fr"}},
		{"Accept-Language", []string{"fr, x-caf\xe9", "x-caf\xe9,fr", "fr , x-caf\xe9"}, []string{"fr, x-caf\xe8", "fr, x-caf\xc3\xa9", "fr"}},
		{"Te", []string{"trailers, gzip", "gzip,trailers", "x-gzip, trailers"}, []string{"trailers"}},
		{"Accept-Charset", []string{"utf-8, iso-8859-1", "iso-8859-1,utf-8"}, []string{"utf-8"}},
	}[g.r.Intn(10)]
	url := "http://a.test/sel"
	hdrOf := func(v string) Hdr {
		// "a|b" = two field lines
		var out Hdr
		for _, line := range splitBar(v) {
			out = append(out, [2]string{gr.field, line})
		}
		return out
	}
	at := int64(0)
	first := pick(g, gr.same...)
	h.Ops = append(h.Ops, Op{Op: "req", AtNs: at, Method: "GET", URL: url, Hdr: hdrOf(first),
		Replies: []Reply{{Status: 200, BodyFail: -1, Body: "v1", Hdr: Hdr{{"Date", dateAt(at, 0)}, {"Cache-Control", "max-age=600"}, {"Vary", pick(g, gr.field, gr.field, strings.ToLower(gr.field))}}}}})
	at += pick(g, sec, 5*sec, 60*sec)
	second := pick(g, gr.same...)
	if g.chance(0.25) {
		second = pick(g, gr.other...)
	}
	h.Ops = append(h.Ops, Op{Op: "req", AtNs: at, Method: "GET", URL: url, Hdr: hdrOf(second),
		Replies: []Reply{{Status: 200, BodyFail: -1, Body: "v2", Hdr: Hdr{{"Date", dateAt(at, 0)}, {"Cache-Control", "max-age=600"}, {"Vary", gr.field}}}}})
	return h
}

func splitBar(v string) []string { return strings.Split(v, "|") }

// genTrailerNoCache (fifth hunt): a chunked reply whose trailer section carries a field that the response's own
// qualified no-cache names. Served from the store without validation, the named field is withheld wherever the
// origin had put it — header section or trailer section; the other trailer fields are served as sent.
func (g *G) genTrailerNoCache(id string) *History {
	h := &History{ID: id, Prop: g.prop, Class: "trailer-no-cache", Backend: pick(g, "mem", "mem", "fs", "fsenc"), Logger: "discard"}
	url := "http://a.test/tnc"
	named := pick(g, `no-cache="X-Token"`, `no-cache="x-token, X-Token-Hdr"`, `no-cache="X-Token-Hdr"`, `no-cache="X-Other"`)
	cc := pick(g, "max-age=600, ", "max-age=5, stale-while-revalidate=600, ", "max-age=5, stale-if-error=600, ") + named
	rp := Reply{Status: 200, BodyFail: -1, Body: "tb", Chunked: true,
		Hdr:     Hdr{{"Date", dateAt(0, 0)}, {"Cache-Control", cc}, {"X-Token-Hdr", "h1"}, {"Etag", `"t1"`}},
		Trailer: Hdr{{"X-Token", "secret-1"}, {"X-Checksum", "abc"}}}
	h.Ops = append(h.Ops, Op{Op: "req", AtNs: 0, Method: "GET", URL: url, Replies: []Reply{rp}})
	at := pick(g, 2*sec, 10*sec, 30*sec)
	for i := 0; i < 1+g.r.Intn(2); i++ {
		// later: a hit, a stale serve under stale-while-revalidate (background 304), or stale-if-error after a 503
		rep := Reply{Status: pick(g, 304, 304, 503), BodyFail: -1, Hdr: Hdr{{"Date", dateAt(at, 0)}, {"Etag", `"t1"`}}}
		h.Ops = append(h.Ops, Op{Op: "req", AtNs: at, Method: "GET", URL: url, Replies: []Reply{rep}})
		at += pick(g, 2*sec, 10*sec)
	}
	return h
}
