package zzverif

// Data model of a history (the unit that is generated, run against the real
// transport, replayed through the Lean model, shrunk and stored as a replay).

import (
	"crypto/sha256"
	"encoding/hex"
	"encoding/json"
	"net/http"
	"net/url"
	"sort"
	"strconv"
	"strings"
)

// Hdr is an ordered header list (name, value); names are canonicalised when used.
type Hdr [][2]string

type Reply struct {
	Status   int    `json:"status"`
	Hdr      Hdr    `json:"hdr"`
	Body     string `json:"body"`               // payload (a unique token is prefixed at run time)
	DelayNs  int64  `json:"delay_ns,omitempty"` // virtual latency before the reply (or the error)
	Err      bool   `json:"err,omitempty"`      // transport error instead of a reply
	Hang     bool   `json:"hang,omitempty"`     // never answers (until the context is cancelled)
	BodyFail int    `json:"body_fail"`          // -1: body readable; k>=0: read error after k bytes
	Proto    string `json:"proto,omitempty"`    // "" = HTTP/1.1
	NoCL     bool   `json:"no_cl,omitempty"`    // omit Content-Length (close-delimited)
	Chunked  bool   `json:"chunked,omitempty"`
	Trailer  Hdr    `json:"trailer,omitempty"` // trailer section of a chunked reply
	// NilHdr: the upstream hands over a response whose Header map is nil (a RoundTripper other than net/http's
	// own transports may: nothing requires the map to be allocated, and http.Client works on such a response).
	// Only with an empty Hdr and a close-delimited body: "no header fields at all".
	NilHdr bool `json:"nil_hdr,omitempty"`
	// NilResp: the upstream returns (nil, nil) — a RoundTripper contract violation that net/http's own client
	// turns into an error; to the model it is a failed origin call
	NilResp bool `json:"nil_resp,omitempty"`
	// UnknownLen: the upstream leaves ContentLength at -1 although the status has no body (what net/http's
	// HTTP/2 client does for a 204 written with Flush, and what any other RoundTripper may do)
	UnknownLen bool `json:"unknown_len,omitempty"`
	// ZeroLen / TEIdentity (with NoCL and a body): the upstream hands over a response whose ContentLength was left
	// at its zero value although the Body holds bytes (&http.Response{StatusCode: 200, Body: …}, as hand-written
	// RoundTrippers and mocks do), or one with TransferEncoding ["identity"]. Both are written by Response.Write
	// as a close-delimited message: stored, their end is marked by nothing but the end of the entry.
	ZeroLen    bool `json:"zero_len,omitempty"`
	// ShortEOF > 0 (Content-Length framing only): the body ENDS — a clean io.EOF, no error — that many bytes before the
	// length the reply declares. net/http's own transports report io.ErrUnexpectedEOF in that case; another
	// RoundTripper (a size guard, a mock) may not.
	ShortEOF int `json:"short_eof,omitempty"`
	// BodyStallNs: the body delivers nothing for this long (virtual time) before it goes on
	BodyStallNs int64 `json:"body_stall_ns,omitempty"`
	TEIdentity bool `json:"te_identity,omitempty"`
}

type Fault struct {
	Stream string `json:"stream"` // "fg" | "bg"
	Idx    int    `json:"idx"`    // index of the store operation inside that stream of the exchange
	Kind   string `json:"kind"`   // "fail" | "bytes" | "notexist"
	Bytes  string `json:"bytes,omitempty"`
}

type Op struct {
	Op      string  `json:"op"`    // "req" | "reopen"
	AtNs    int64   `json:"at_ns"` // virtual instant (ns after the bubble's start) at which the op is issued
	Method  string  `json:"method,omitempty"`
	URL     string  `json:"url,omitempty"`
	Hdr     Hdr     `json:"hdr,omitempty"`
	Replies []Reply `json:"replies,omitempty"` // k-th origin call of this exchange gets Replies[min(k,len-1)]
	Faults  []Fault `json:"faults,omitempty"`
	Cancel  string  `json:"cancel,omitempty"` // "", "before", "after": caller context cancellation; "dl:<ns>": caller deadline; "chan-before", "chan-after": the (deprecated, still honoured) http.Request.Cancel channel closed, which is also what http.Client{Timeout} does for a RoundTripper that is not its own
	// ReqBody: the caller's request carries a body (legal on a GET); it belongs to the caller once RoundTrip has returned
	ReqBody string `json:"req_body,omitempty"`
	// SetPath: after the request was built from URL, its URL.Path is set to this (a client that assigns the
	// field, or url.URL.JoinPath on a base without a path: a path WITHOUT the leading slash)
	SetPath string `json:"set_path,omitempty"`
	// Host: http.Request.Host ("For client requests, Host optionally overrides the Host header to send"): the
	// authority of the target URI the origin sees, while URL.Host stays where the connection goes
	Host string `json:"host,omitempty"`
	// NilHeader: the caller's request has a nil Header map (a request built as a struct literal and handed to
	// RoundTrip directly; http.Client would allocate it). Only with an empty Hdr: "no header fields".
	NilHeader bool `json:"nil_header,omitempty"`
	// RawKey: the caller's Header map holds a field under a key that is not in canonical form
	// (req.Header["x-trace-raw"] = …, direct map assignment): the map is the caller's, keys included
	RawKey bool `json:"raw_key,omitempty"`
}

// opURL: the url.URL value the caller's request carries
func opURL(op Op) (*url.URL, error) {
	u, err := url.Parse(op.URL)
	if err != nil {
		return nil, err
	}
	if op.SetPath != "" {
		u.Path, u.RawPath = op.SetPath, ""
	}
	if op.Host != "" {
		// the target URI of the request (RFC 9110 §7.1) has the authority of the Host field
		u.Host = op.Host
	}
	return u, nil
}

type History struct {
	ID           string `json:"id"`
	Prop         string `json:"prop"`
	Class        string `json:"class,omitempty"` // generator class, for the distribution report
	Backend      string `json:"backend"`         // mem | fs | fsenc
	SWRTimeoutNs int64  `json:"swr_timeout_ns"`
	Logger       string `json:"logger"`               // discard | debug
	Concurrent   bool   `json:"concurrent,omitempty"` // requests with equal at_ns are issued concurrently
	// TZ: IANA name of the zone the process is in while this history runs ("" = a fixed UTC+9 zone). HTTP-dates are
	// GMT whatever the zone of the cache's process is, and a time library resolves the "GMT" of the obsolete rfc850
	// layout against the local zone's abbreviation table
	TZ  string `json:"tz,omitempty"`
	Ops []Op   `json:"ops"`
}

func (h *History) JSON() string {
	b, _ := json.Marshal(h)
	return string(b)
}

// bodyRepr keeps short bodies as they are and replaces long ones by prefix + digest + length
// (same function on every side of a comparison, so identity is preserved)
func bodyRepr(s string) string {
	if len(s) <= 2048 {
		return s
	}
	sum := sha256.Sum256([]byte(s))
	return s[:48] + "#sha256=" + hex.EncodeToString(sum[:]) + "#len=" + strconv.Itoa(len(s))
}

func hx(s string) string {
	if s == "" {
		return "-"
	}
	return hex.EncodeToString([]byte(s))
}

// canonical header list encoding: name=hexvalue items joined by ';', sorted by
// canonical name, values of one name in their original order.
func encHdrList(h Hdr) string {
	type kv struct{ k, v string }
	items := make([]kv, 0, len(h))
	for _, p := range h {
		items = append(items, kv{http.CanonicalHeaderKey(p[0]), p[1]})
	}
	sort.SliceStable(items, func(i, j int) bool { return items[i].k < items[j].k })
	var sb strings.Builder
	for i, it := range items {
		if i > 0 {
			sb.WriteByte(';')
		}
		sb.WriteString(hx(it.k))
		sb.WriteByte('=')
		sb.WriteString(hx(it.v))
	}
	if sb.Len() == 0 {
		return "-"
	}
	return sb.String()
}

func encHeader(h http.Header) string {
	keys := make([]string, 0, len(h))
	for k := range h {
		keys = append(keys, k)
	}
	sort.Strings(keys)
	l := make(Hdr, 0, len(h))
	for _, k := range keys {
		for _, v := range h[k] {
			l = append(l, [2]string{k, v})
		}
	}
	// names are NOT re-canonicalised here: a non-canonical key in the map is an observation
	var sb strings.Builder
	for i, it := range l {
		if i > 0 {
			sb.WriteByte(';')
		}
		sb.WriteString(hx(it[0]))
		sb.WriteByte('=')
		sb.WriteString(hx(it[1]))
	}
	if sb.Len() == 0 {
		return "-"
	}
	return sb.String()
}

func itoa(i int64) string { return strconv.FormatInt(i, 10) }
