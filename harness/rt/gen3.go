package zzverif

// C12: metamorphic pairs — a history and the same history with every Cache-Control value
// respelled in a meaning-preserving way (RFC 9111 §5.2, RFC 9110 §5.3 / §5.6).

import (
	"encoding/json"
	"net/http"
	"strings"
	"unicode"
)

func randCase(g *G, s string) string {
	var b strings.Builder
	for _, c := range s {
		if g.chance(0.5) {
			b.WriteRune(unicode.ToUpper(c))
		} else {
			b.WriteRune(unicode.ToLower(c))
		}
	}
	return b.String()
}

func ows(g *G) string { return pick(g, "", "", " ", "  ", "\t", " \t ") }

func isDigits(s string) bool {
	if s == "" {
		return false
	}
	for _, c := range s {
		if c < '0' || c > '9' {
			return false
		}
	}
	return true
}

// respellDirective: name in random case; a token argument may become a quoted-string and back
func respellDirective(g *G, d string) string {
	name, arg, has := strings.Cut(d, "=")
	name = randCase(g, name)
	if !has {
		return name
	}
	switch {
	case len(arg) >= 2 && arg[0] == '"' && arg[len(arg)-1] == '"':
		inner := arg[1 : len(arg)-1]
		if g.chance(0.3) && inner != "" && !strings.ContainsAny(inner, " ,\t\"\\=;") {
			arg = inner // quoted-string -> token
		} else if g.chance(0.3) && inner != "" {
			// sprinkle a quoted-pair
			i := g.r.Intn(len(inner))
			arg = `"` + inner[:i] + `\` + inner[i:] + `"`
		}
	case isDigits(arg) || (arg != "" && !strings.ContainsAny(arg, " ,\t\"\\")):
		if g.chance(0.4) {
			arg = `"` + arg + `"`
		}
	}
	return name + "=" + arg
}

var extensionDirectives = []string{"ext", "foo=bar", `x-y="q,w"`, "community=\"UCI\"", "no-transform-ish", "s-maxage=0"}

// respellCC turns the comma-joined canonical value(s) into one or more field lines
func respellCC(g *G, values []string) []string {
	var ds []string
	for _, v := range values {
		// split at commas outside quotes
		inq, esc := false, false
		cur := ""
		for _, c := range v {
			switch {
			case esc:
				cur += string(c)
				esc = false
			case c == '\\':
				cur += string(c)
				esc = true
			case c == '"':
				cur += string(c)
				inq = !inq
			case c == ',' && !inq:
				if t := strings.TrimSpace(cur); t != "" {
					ds = append(ds, t)
				}
				cur = ""
			default:
				cur += string(c)
			}
		}
		if t := strings.TrimSpace(cur); t != "" {
			ds = append(ds, t)
		}
	}
	if len(ds) == 0 {
		return values
	}
	out := make([]string, 0, len(ds)+2)
	for _, d := range ds {
		out = append(out, respellDirective(g, d))
	}
	// extension directives mixed in
	for g.chance(0.3) {
		out = append(out, pick(g, extensionDirectives...))
	}
	// any order
	g.r.Shuffle(len(out), func(i, j int) { out[i], out[j] = out[j], out[i] })
	// split across field lines, OWS and empty elements
	var lines []string
	cur := ""
	for i, d := range out {
		if i > 0 && g.chance(0.25) {
			lines = append(lines, cur)
			cur = ""
		}
		if cur != "" || g.chance(0.15) {
			cur += ows(g) + "," + ows(g)
			for g.chance(0.15) {
				cur += "," + ows(g)
			}
		}
		cur += d
	}
	if g.chance(0.15) {
		cur += ows(g) + ","
	}
	lines = append(lines, cur)
	return lines
}

func respellHdr(g *G, h Hdr) Hdr {
	var cc []string
	var out Hdr
	pos := -1
	for _, p := range h {
		if http.CanonicalHeaderKey(p[0]) == "Cache-Control" {
			if pos < 0 {
				pos = len(out)
			}
			cc = append(cc, p[1])
			continue
		}
		out = append(out, p)
	}
	if len(cc) == 0 {
		return h
	}
	var lines Hdr
	for _, l := range respellCC(g, cc) {
		lines = append(lines, [2]string{pick(g, "Cache-Control", "cache-control", "CACHE-CONTROL"), l})
	}
	res := append(Hdr{}, out[:pos]...)
	res = append(res, lines...)
	res = append(res, out[pos:]...)
	return res
}

func (g *G) respellHistory(h *History) *History {
	b, _ := json.Marshal(h)
	var c History
	_ = json.Unmarshal(b, &c)
	c.ID = h.ID + "~s"
	c.Class = "respelled"
	for i := range c.Ops {
		c.Ops[i].Hdr = respellHdr(g, c.Ops[i].Hdr)
		for k := range c.Ops[i].Replies {
			c.Ops[i].Replies[k].Hdr = respellHdr(g, c.Ops[i].Replies[k].Hdr)
		}
	}
	return &c
}
