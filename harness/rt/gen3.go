package zzverif

// C12: metamorphic pairs — a history and the same history with every Cache-Control value
// respelled in a meaning-preserving way (RFC 9111 §5.2, RFC 9110 §5.3 / §5.6).

import (
	"encoding/json"
	"fmt"
	"net/http"
	"strconv"
	"strings"
	"unicode"
)

func randCase(g *G, s string) string {
	var b strings.Builder
	for _, c := range s {
		if g.chance(0.5) {
			b.WriteRune(unicode.ToUpper(c))
		} else {
			b.WriteRune(unicode.ToLower(c))
		}
	}
	return b.String()
}

func ows(g *G) string { return pick(g, "", "", " ", "  ", "\t", " \t ") }

func isDigits(s string) bool {
	if s == "" {
		return false
	}
	for _, c := range s {
		if c < '0' || c > '9' {
			return false
		}
	}
	return true
}

// respellDirective: name in random case; a token argument may become a quoted-string and back
func respellDirective(g *G, d string) string {
	name, arg, has := strings.Cut(d, "=")
	name = randCase(g, name)
	if !has {
		return name
	}
	switch {
	case len(arg) >= 2 && arg[0] == '"' && arg[len(arg)-1] == '"':
		inner := arg[1 : len(arg)-1]
		if g.chance(0.3) && inner != "" && !strings.ContainsAny(inner, " ,\t\"\\=;") {
			arg = inner // quoted-string -> token
		} else if g.chance(0.3) && inner != "" && !strings.Contains(inner, `\`) {
			// sprinkle a quoted-pair
			i := g.r.Intn(len(inner))
			arg = `"` + inner[:i] + `\` + inner[i:] + `"`
		}
	case isDigits(arg) || (arg != "" && !strings.ContainsAny(arg, " ,\t\"\\")):
		if isDigits(arg) && g.chance(0.12) {
			// leading zeros do not change a number, however many there are (1*DIGIT)
			arg = strings.Repeat("0", pick(g, 1, 3, 18, 20, 25)) + arg
		}
		if g.chance(0.4) {
			arg = `"` + arg + `"`
			if g.chance(0.3) {
				// … with a quoted-pair inside: "6\0" is the quoted-string whose value is 60
				i := 1 + g.r.Intn(len(arg)-2)
				arg = arg[:i] + `\` + arg[i:]
			}
		}
	}
	return name + "=" + arg
}

var extensionDirectives = []string{"ext", "foo=bar", `x-y="q,w"`, "community=\"UCI\"", "no-transform-ish", "s-maxage=0",
	// quoted-strings with quoted-pairs: an escaped backslash before the closing quote, an escaped
	// quote followed by a comma and directive-like text inside the quotes
	`ext="C:\\"`, `e2="a\"b, no-store"`, `e3="\\\\"`, `e4="\""`, `e5="x\\\"y, max-age=0"`, `e6="no-cache, no-store"`}

// respellCC turns the comma-joined canonical value(s) into one or more field lines
func respellCC(g *G, values []string) []string {
	// a field line that is not well-formed (a quoted-string that never ends) has no other spelling
	// (neither has one with a backslash outside a quoted-string: not a token, not a quoted-pair)
	for _, v := range values {
		inq, esc := false, false
		for _, c := range v {
			switch {
			case esc:
				esc = false
			case c == '\\' && !inq:
				return values
			case c == '\\':
				esc = true
			case c == '"':
				inq = !inq
			}
		}
		if inq || esc {
			return values
		}
	}
	var ds []string
	for _, v := range values {
		// split at commas outside quotes
		inq, esc := false, false
		cur := ""
		for _, c := range v {
			switch {
			case esc:
				cur += string(c)
				esc = false
			case c == '\\':
				cur += string(c)
				esc = true
			case c == '"':
				cur += string(c)
				inq = !inq
			case c == ',' && !inq:
				if t := strings.TrimSpace(cur); t != "" {
					ds = append(ds, t)
				}
				cur = ""
			default:
				cur += string(c)
			}
		}
		if t := strings.TrimSpace(cur); t != "" {
			ds = append(ds, t)
		}
	}
	if len(ds) == 0 {
		return values
	}
	out := make([]string, 0, len(ds)+2)
	for _, d := range ds {
		out = append(out, respellDirective(g, d))
	}
	// extension directives mixed in
	for g.chance(0.3) {
		out = append(out, pick(g, extensionDirectives...))
	}
	// any order — except that the occurrences of ONE directive keep their relative order: which of them
	// comes first is meaning, not spelling (RFC 9111 §4.2.1: the first occurrence is the one that counts)
	orig := append([]string(nil), out...)
	g.r.Shuffle(len(out), func(i, j int) { out[i], out[j] = out[j], out[i] })
	dirName := func(d string) string {
		n, _, _ := strings.Cut(d, "=")
		return strings.ToLower(strings.TrimSpace(n))
	}
	byName := map[string][]string{}
	for _, d := range orig {
		byName[dirName(d)] = append(byName[dirName(d)], d)
	}
	for i, d := range out {
		n := dirName(d)
		out[i] = byName[n][0]
		byName[n] = byName[n][1:]
	}
	// split across field lines, OWS and empty elements
	var lines []string
	cur := ""
	for i, d := range out {
		if i > 0 && g.chance(0.25) {
			lines = append(lines, cur)
			cur = ""
		}
		if cur != "" || g.chance(0.15) {
			cur += ows(g) + "," + ows(g)
			for g.chance(0.15) {
				cur += "," + ows(g)
			}
		}
		cur += d
	}
	if g.chance(0.15) {
		cur += ows(g) + ","
	}
	lines = append(lines, cur)
	if g.chance(0.12) {
		// an empty (or white-space only) field line, first or last: an empty list element like any other
		if g.chance(0.7) {
			lines = append([]string{pick(g, "", " ", ",")}, lines...)
		} else {
			lines = append(lines, pick(g, "", " "))
		}
	}
	return lines
}

func respellHdr(g *G, h Hdr) Hdr {
	var cc []string
	var out Hdr
	pos := -1
	for _, p := range h {
		if http.CanonicalHeaderKey(p[0]) == "Cache-Control" {
			if pos < 0 {
				pos = len(out)
			}
			cc = append(cc, p[1])
			continue
		}
		out = append(out, p)
	}
	if len(cc) == 0 {
		return h
	}
	var lines Hdr
	for _, l := range respellCC(g, cc) {
		lines = append(lines, [2]string{pick(g, "Cache-Control", "cache-control", "CACHE-CONTROL"), l})
	}
	res := append(Hdr{}, out[:pos]...)
	res = append(res, lines...)
	res = append(res, out[pos:]...)
	return res
}

func (g *G) respellHistory(h *History) *History {
	b, _ := json.Marshal(h)
	var c History
	_ = json.Unmarshal(b, &c)
	c.ID = h.ID + "~s"
	c.Class = "respelled"
	for i := range c.Ops {
		c.Ops[i].Hdr = respellHdr(g, c.Ops[i].Hdr)
		for k := range c.Ops[i].Replies {
			c.Ops[i].Replies[k].Hdr = respellHdr(g, c.Ops[i].Replies[k].Hdr)
		}
	}
	return &c
}

// C20: stale-while-revalidate timing — origin latencies around the timeout, every outcome of the
// background request, every timeout setting, caller contexts cancelled before / after.
func (g *G) genSWR(id string) *History {
	h := &History{ID: id, Prop: g.prop, Class: "swr", Backend: "mem", Logger: "discard"}
	timeout := pick(g, int64(0), 0, -1, 1, sec, 2*sec+sec/4, 5*sec)
	h.SWRTimeoutNs = timeout
	eff := timeout
	if eff <= 0 {
		eff = 5 * sec
	}
	life := pick(g, int64(0), 1, 10)
	swr := pick(g, int64(30), 60, 3600)
	first := Hdr{{"Date", dateAt(0, 0)}, {"Cache-Control", fmt.Sprintf("max-age=%d, stale-while-revalidate=%d", life, swr) +
		pick(g, "", "", "", `, no-cache="ETag"`, `, no-cache="Last-Modified"`, `, no-cache="etag, last-modified, X-New"`) +
		// with stale-if-error the background work consults the age of the response it was handed when the
		// revalidation fails, while the foreground is still finishing the response it serves
		pick(g, "", "", ", stale-if-error=600")}}
	if g.chance(0.3) {
		h.Logger = "debug"
	}
	if g.chance(0.7) {
		first = append(first, [2]string{"Etag", `"v1"`})
	}
	if g.chance(0.4) {
		first = append(first, [2]string{"Last-Modified", dateAt(0, -1000)})
	}
	h.Ops = append(h.Ops, Op{Op: "req", AtNs: 0, Method: "GET", URL: "http://a.test/swr", Replies: []Reply{{Status: 200, Hdr: first, Body: "v1", BodyFail: -1}}})
	at := (life + 1 + int64(g.r.Intn(20))) * sec
	n := 1 + g.r.Intn(3)
	for i := 0; i < n; i++ {
		var delay int64
		hang := false
		switch g.r.Intn(8) {
		case 0:
			delay = 0
		case 1:
			delay = 1_000_000
		case 2:
			delay = eff - 1
		case 3:
			delay = eff + 1
		case 4:
			delay = eff + 3*sec + sec/2
		case 5:
			hang = true
		default:
			delay = sec / 2
		}
		var rp Reply
		switch g.r.Intn(5) {
		case 0, 1:
			rp = Reply{Status: 304, Hdr: Hdr{{"Date", dateAt(at+delay, 0)}, {"X-New", "n"}}, BodyFail: -1}
		case 2:
			rp = g.cacheableReply(at+delay, "", life)
		case 3:
			rp = Reply{Status: pick(g, 500, 503, 404), Hdr: Hdr{{"Date", dateAt(at+delay, 0)}}, Body: "e", BodyFail: -1}
		default:
			rp = Reply{Err: true, BodyFail: -1}
		}
		rp.DelayNs = delay
		rp.Hang = hang
		op := Op{Op: "req", AtNs: at, Method: "GET", URL: "http://a.test/swr", Replies: []Reply{rp}}
		if g.chance(0.2) {
			op.Cancel = pick(g, "before", "after", "dl:60000000000", "dl:60000000000", "dl:1000000000", "dl:100000000000", "chan-after", "chan-after", "chan-before")
		}
		if g.chance(0.15) {
			op.Hdr = Hdr{{"Cache-Control", pick(g, "max-stale=5", "only-if-cached", "no-cache", "max-age=1")}}
		}
		if g.chance(0.1) {
			op.ReqBody = "payload" // a GET may carry a body; it is the caller's again once RoundTrip has returned
		}
		h.Ops = append(h.Ops, op)
		// the next request comes after the background work has certainly ended, at an instant
		// that cannot coincide with a completion or a cancellation
		at += eff + delay%sec + 20*sec + pick(g, int64(0), sec/4)
	}
	return h
}

// C05: byte-faithfulness — bodies with arbitrary bytes, all framings, protocol versions, odd and
// multi-valued header fields, on every backend; each stored response is fetched again (hit).
var c05Bodies = []string{
	"", "x", "line1\r\nline2\r\n", "\x00\x01\x02\xff\xfe", "HTTP/1.1 200 OK\r\nContent-Length: 3\r\n\r\nabc",
	"0\r\n\r\n", "5\r\nhello\r\n0\r\n\r\n", "\r\n\r\n", "tab\there", "ünïcödé ☃", "--boundary\r\nContent-Type: text/plain\r\n\r\npart\r\n--boundary--",
}

func (g *G) randBody() string {
	if g.chance(0.6) {
		return pick(g, c05Bodies...)
	}
	n := pick(g, 1, 7, 100, 1023, 1024, 4096, 5000)
	if g.tier == "thorough" && g.chance(0.1) {
		n = pick(g, 65536, 1<<20)
	}
	b := make([]byte, n)
	for i := range b {
		b[i] = byte(g.r.Intn(256))
	}
	return string(b)
}

func (g *G) genFaithful(id string) *History {
	h := &History{ID: id, Prop: g.prop, Class: "faithful", Backend: pick(g, "mem", "fs", "fsenc"), Logger: "discard"}
	url := pick(g, "http://a.test/f", "http://a.test/f?long="+strings.Repeat("k", pick(g, 10, 200, 400)))
	hd := Hdr{{"Cache-Control", "max-age=3600"}}
	if g.chance(0.8) {
		hd = append(hd, [2]string{"Date", dateAt(0, 0)})
	}
	for _, p := range [][2]string{{"Set-Cookie", "a=1"}, {"Set-Cookie", "b=2; Path=/"}, {"x-lower-case", "v"}, {"X-Empty", ""},
		{"X-Spaces", "  padded  "}, {"X-Long", strings.Repeat("v", 3000)}, {"X-Latin", "caf\xe9"}, {"Content-Type", "text/plain; charset=utf-8"},
		{"Close", "17:30"}, {"Keep-Alive", "timeout=5"}, {"Upgrade", "h2c"}, {"Proxy-Authenticate", "Basic"}, {"Te", "trailers"}, {"TE", "gzip"},
		{"Connection", "X-Hop, keep-alive"}, {"X-Hop", "hop"}, {"Connection", "X-Hop2"}, {"X-Hop2", "hop2"}, {"Proxy-Connection", "keep-alive"},
		// connection options are tokens: a stray quote in one member hides nothing after it
		{"Connection", `x", X-Hop3`}, {"X-Hop3", "hop3"},
		// a Connection option may be the name of ANY field, also of one a cache knows well: what the sender names is
		// connection-specific and is neither stored nor replayed
		{"Connection", "keep-alive, ETag"}, {"Connection", "Last-Modified"}, {"Last-Modified", "Fri, 31 Dec 1999 00:00:00 GMT"}, {"Connection", "X-Long, Content-Type"}, {"Etag", `"f1"`},
		{"Age", "7"}, {"X-From-Cache", "1"}, {"X-Httpcache-Status", "HIT"}, {"Warning", `110 - "stale"`}, {"Vary", "X-A"}} {
		if g.chance(0.3) {
			hd = append(hd, p)
		}
	}
	if g.chance(0.15) {
		// a valid Date that is not one IMF-fixdate line: the obsolete forms, or two lines
		for i := range hd {
			if hd[i][0] == "Date" {
				switch g.r.Intn(3) {
				case 0:
					hd[i][1] = "Saturday, 01-Jan-00 00:00:00 GMT"
				case 1:
					hd[i][1] = "Sat Jan  1 00:00:00 2000"
				default:
					hd = append(hd, [2]string{"Date", hd[i][1]})
				}
				break
			}
		}
	}
	rp := Reply{Status: pick(g, 200, 200, 200, 203, 404, 410, 301), Hdr: hd, Body: g.randBody(), BodyFail: -1}
	if g.chance(0.08) {
		// a 204 whose length the upstream left unknown (HTTP/2 after Flush; any custom RoundTripper)
		rp.Status, rp.Body, rp.UnknownLen = 204, "", true
		rp.Hdr = append(rp.Hdr, [2]string{"Cache-Control", "max-age=600"})
	}
	if g.chance(0.08) {
		// an origin field that happens to carry the name the cache uses inside its stored form
		rp.Hdr = append(rp.Hdr, [2]string{"X-Httpcache-Stored-Body-Length", pick(g, "5", "", "77")})
	}
	switch g.r.Intn(6) {
	case 0:
		rp.Chunked = true
		if g.chance(0.5) {
			rp.Trailer = Hdr{{"X-Checksum", "abc123"}}
			if g.chance(0.3) {
				rp.Trailer = append(rp.Trailer, [2]string{"X-Other-Trailer", "t 2"})
			}
			if g.chance(0.4) {
				// hop-by-hop fields in the trailer section: the fixed ones, and one the reply's Connection names
				rp.Trailer = append(rp.Trailer, [2]string{pick(g, "Keep-Alive", "Proxy-Authenticate", "X-Hop", "X-Hop2"), "hop-t"})
			}
		}
	case 1:
		rp.NoCL = true
	case 2:
		rp.NoCL = true
		rp.Proto = "HTTP/1.0"
	case 3:
		rp.Proto = "HTTP/1.0"
	case 4:
		// a response that arrived over HTTP/2: the same fields must not be stored (the Proxy-* ones are legal there)
		rp.Proto = "HTTP/2.0"
	}
	var rh Hdr
	if g.chance(0.3) {
		rh = Hdr{{"X-A", "1"}}
	}
	// sometimes the stored response is validated later and the 304 names, as connection-specific for ITSELF, an
	// end-to-end field of the stored response: the stored field is none of the 304's business and stays
	keep304 := g.chance(0.25)
	if keep304 {
		rp.Hdr = append(rp.Hdr, [2]string{"X-Keep", "k1"}, [2]string{"Cache-Control", "no-cache"}, [2]string{"Last-Modified", "Fri, 31 Dec 1999 00:00:00 GMT"})
	}
	h.Ops = append(h.Ops, Op{Op: "req", AtNs: 0, Method: "GET", URL: url, Hdr: rh, Replies: []Reply{rp}})
	at := int64(0)
	for i := 0; i < 1+g.r.Intn(2); i++ {
		at += pick(g, int64(1), 10, 100) * sec
		if h.Backend != "mem" && g.chance(0.3) {
			h.Ops = append(h.Ops, Op{Op: "reopen", AtNs: at})
		}
		second := Reply{Status: 200, Hdr: Hdr{{"Date", dateAt(at, 0)}}, Body: "second", BodyFail: -1}
		if keep304 {
			second = Reply{Status: 304, Hdr: Hdr{{"Date", dateAt(at, 0)}, {"Connection", "X-Keep"}, {"Cache-Control", "max-age=600"}}, BodyFail: -1}
		}
		h.Ops = append(h.Ops, Op{Op: "req", AtNs: at, Method: "GET", URL: url, Hdr: rh, Replies: []Reply{second}})
	}
	return h
}

// C16: groups of requests issued concurrently on one transport (same and different URIs and
// variants, GETs and unsafe methods), including while background revalidations run.
func (g *G) genConcurrent(id string) *History {
	h := &History{ID: id, Prop: g.prop, Class: "concurrent", Backend: pick(g, "mem", "mem", "fs"), Logger: "discard", Concurrent: true}
	urls := []string{"http://a.test/c1", "http://a.test/c2", "http://A.test:80/c1"}
	vary := pick(g, "", "X-A", "X-A, X-B")
	at := int64(0)
	ngroups := 2 + g.r.Intn(3)
	for gi := 0; gi < ngroups; gi++ {
		size := 1 + g.r.Intn(4)
		for j := 0; j < size; j++ {
			url := pick(g, urls...)
			method := "GET"
			if g.chance(0.12) {
				method = pick(g, "POST", "DELETE", "PUT")
			}
			var hdr Hdr
			if vary != "" {
				hdr = g.reqHeaders([]string{"X-A", "X-B"})
			}
			if g.chance(0.15) {
				// several callers that may each be answered with a synthesised 504 (or a stored response)
				hdr = append(hdr, [2]string{"Cache-Control", pick(g, "only-if-cached", "only-if-cached", "only-if-cached, max-stale")})
			}
			var rp Reply
			if method == "GET" {
				hd := Hdr{{"Date", dateAt(at, 0)}, {"Cache-Control", pick(g, "max-age=5, stale-while-revalidate=600", "max-age=600", "max-age=0, stale-while-revalidate=600", "no-cache")}}
				if g.chance(0.7) {
					hd = append(hd, [2]string{"Etag", `"c"`})
				}
				hd = append(hd, varyHdr(vary)...)
				rp = Reply{Status: 200, Hdr: hd, Body: "c", BodyFail: -1}
				if gi > 0 && g.chance(0.4) {
					rp = Reply{Status: 304, Hdr: Hdr{{"Date", dateAt(at, 0)}, {"X-New", strconv.Itoa(gi)}}, BodyFail: -1}
				}
			} else {
				rp = Reply{Status: 204, Hdr: Hdr{{"Date", dateAt(at, 0)}}, BodyFail: -1}
			}
			rp.DelayNs = pick(g, int64(0), 0, 0, 1, sec/2)
			h.Ops = append(h.Ops, Op{Op: "req", AtNs: at, Method: method, URL: url, Hdr: hdr, Replies: []Reply{rp}})
		}
		at += pick(g, int64(1), 10, 30) * sec
	}
	return h
}

// genChain: a stored response is revalidated (304 carrying its own Age / Date / Cache-Control, or
// replaced by a 200), and later requests are aimed at the boundaries of the lifetime as it is
// AFTER that exchange - the ages a cache gets wrong when the freshening drops or keeps a field.
func (g *G) genChain(id string) *History {
	h := &History{ID: id, Prop: g.prop, Class: "chain", Backend: pick(g, "mem", "mem", "mem", "fs"), Logger: "discard"}
	url := "http://a.test/c"
	L := pick(g, int64(5), 10, 60, 100, 3600)
	first := Hdr{{"Cache-Control", "max-age=" + strconv.FormatInt(L, 10) + pick(g, "", "", ", stale-if-error=100", ", stale-while-revalidate=30", ", must-revalidate")}}
	if g.chance(0.9) {
		first = append(first, [2]string{"Date", dateAt(0, 0)})
	}
	switch g.r.Intn(3) {
	case 0:
		first = append(first, [2]string{"Etag", `"v1"`})
	case 1:
		first = append(first, [2]string{"Last-Modified", dateAt(0, -1000)})
	}
	if g.chance(0.3) {
		first = append(first, [2]string{"Age", pick(g, "1", "3", strconv.FormatInt(L-1, 10))})
	}
	d0 := pick(g, int64(0), 0, sec, 2*sec, 12*sec) // a slow origin: the response delay counts once in the age
	h.Ops = append(h.Ops, Op{Op: "req", AtNs: 0, Method: "GET", URL: url, Replies: []Reply{{Status: 200, Hdr: first, Body: "c0", BodyFail: -1, DelayNs: d0}}})
	cur := int64(0)
	life := L
	if early := (L - pick(g, int64(1), 2, 3)) * sec; g.chance(0.5) && early >= d0+5*sec {
		// a probe while the response is still fresh by a second or more
		h.Ops = append(h.Ops, Op{Op: "req", AtNs: early, Method: "GET", URL: url, Replies: []Reply{{Status: 200, Hdr: Hdr{{"Date", dateAt(early, 0)}, {"Cache-Control", "no-store"}}, Body: "unexpected", BodyFail: -1}}})
		cur = early
	}
	rounds := 1 + g.r.Intn(3)
	for i := 0; i < rounds; i++ {
		// the validating exchange
		var hdr Hdr
		at := cur + (life+pick(g, int64(1), 2, 7))*sec
		if g.chance(0.3) {
			at = cur + pick(g, int64(6), 7, life/2+6)*sec
			hdr = Hdr{{"Cache-Control", pick(g, "no-cache", "max-age=0")}}
		}
		if g.chance(0.1) {
			hdr = append(hdr, [2]string{"If-None-Match", `"client"`})
		}
		N := pick(g, int64(0), 0, 1, 5, 30, 55, life-1, life, life+5)
		if N < 0 {
			N = 0
		}
		delay := pick(g, int64(0), 0, 0, sec, 2*sec)
		rh := Hdr{}
		switch g.r.Intn(5) {
		case 0: // no Date
		case 1:
			rh = append(rh, [2]string{"Date", dateAt(at+delay, -N)})
		case 2:
			rh = append(rh, [2]string{"Date", dateAt(at+delay, -100)})
		default:
			rh = append(rh, [2]string{"Date", dateAt(at+delay, 0)})
		}
		if N > 0 || g.chance(0.1) {
			rh = append(rh, [2]string{"Age", pick(g, strconv.FormatInt(N, 10), strconv.FormatInt(N, 10), strconv.FormatInt(N, 10), "junk", " "+strconv.FormatInt(N, 10))})
		}
		newLife := life
		if g.chance(0.4) {
			newLife = pick(g, int64(5), 10, 60, 100, 3600)
			rh = append(rh, [2]string{"Cache-Control", "max-age=" + strconv.FormatInt(newLife, 10) + pick(g, "", "", ", stale-if-error=100", ", stale-while-revalidate=30")})
		}
		if g.chance(0.2) {
			rh = append(rh, [2]string{"Expires", dateAt(at, pick(g, int64(-10), 10, 1000))})
		}
		if g.chance(0.3) {
			rh = append(rh, [2]string{"X-New", "n" + strconv.Itoa(i)})
		}
		if g.chance(0.15) {
			rh = append(rh, [2]string{"Content-Length", "999"})
		}
		var rp Reply
		switch g.r.Intn(10) {
		case 0, 1:
			rh = append(rh, [2]string{"Etag", `"v2"`})
			rp = Reply{Status: 200, Hdr: rh, Body: "c" + strconv.Itoa(i+1), DelayNs: delay, BodyFail: -1}
		case 2:
			rp = Reply{Status: pick(g, 500, 503, 404), Hdr: rh, Body: "e", DelayNs: delay, BodyFail: -1}
			newLife = life
		default:
			rp = Reply{Status: 304, Hdr: rh, DelayNs: delay, BodyFail: -1}
		}
		bg := rp
		bg.DelayNs = sec / 2
		h.Ops = append(h.Ops, Op{Op: "req", AtNs: at, Method: "GET", URL: url, Hdr: hdr, Replies: []Reply{rp, bg}})
		if h.Backend != "mem" && g.chance(0.2) {
			h.Ops = append(h.Ops, Op{Op: "reopen", AtNs: at + delay})
		}
		cur = at + delay
		life = newLife
		// probes around the lifetime as it is now (with and without the reply's Age)
		nProbe := 1 + g.r.Intn(2)
		pcur := cur
		for j := 0; j < nProbe; j++ {
			off := pick(g, life-N-1, life-N, life-N+1, life-1, life, life+1, 1, life/2, life-N-delay/sec, life-N-delay/sec-1)
			pat := cur + off*sec
			if g.chance(0.2) {
				pat += pick(g, int64(1), -1)
			}
			if pat <= pcur+5*sec {
				pat = pcur + 5*sec + pick(g, int64(0), 1)
			}
			var ph Hdr
			if g.chance(0.25) {
				ph = Hdr{{"Cache-Control", ccJoin(g.genReqCC())}}
				if ph[0][1] == "" {
					ph = nil
				}
			}
			st := storedSpec{}
			f1 := g.validationReply(pat, st)
			b1 := g.validationReply(pat, st)
			b1.DelayNs = sec / 2
			h.Ops = append(h.Ops, Op{Op: "req", AtNs: pat, Method: "GET", URL: url, Hdr: ph, Replies: []Reply{f1, b1}})
			pcur = pat + max(f1.DelayNs, b1.DelayNs)
		}
		cur = pcur
	}
	return h
}

// genInvalRace: a successful unsafe request completes while a GET for another variant of the same
// URI is in flight (it has read the index, its reply is still to come); afterwards the variants
// stored before the unsafe request are asked for again.
func (g *G) genInvalRace(id string) *History {
	h := &History{ID: id, Prop: g.prop, Class: "inval-race", Backend: pick(g, "mem", "mem", "fs"), Logger: "discard", Concurrent: true}
	url := "http://a.test/r"
	vary := pick(g, "X-A", "X-A", "X-A, X-B", "")
	get := func(at int64, xa string, delay int64, body string) Op {
		hd := Hdr{{"Date", dateAt(at+delay, 0)}, {"Cache-Control", "max-age=600"}}
		if g.chance(0.5) {
			hd = append(hd, [2]string{"Etag", `"r"`})
		}
		hd = append(hd, varyHdr(vary)...)
		var rh Hdr
		if vary != "" {
			rh = Hdr{{"X-A", xa}}
		}
		return Op{Op: "req", AtNs: at, Method: "GET", URL: url, Hdr: rh, Replies: []Reply{{Status: 200, Hdr: hd, Body: body, DelayNs: delay, BodyFail: -1}}}
	}
	h.Ops = append(h.Ops, get(0, "1", 0, "v1"))
	if g.chance(0.5) {
		h.Ops = append(h.Ops, get(2*sec, "3", 0, "v3"))
	}
	at := 10 * sec
	rounds := 1 + g.r.Intn(2)
	for i := 0; i < rounds; i++ {
		slow := pick(g, sec, 2*sec, sec/2+1)
		fast := pick(g, int64(1), sec/4, sec/2)
		inflight := get(at, pick(g, "2", "2", "1", "4"), slow, "w"+strconv.Itoa(i))
		unsafe := Op{Op: "req", AtNs: at, Method: pick(g, "PUT", "POST", "DELETE", "PATCH", "MKCOL", "FOO"), URL: pick(g, url, "http://A.test:80/r"),
			Replies: []Reply{{Status: pick(g, 200, 204, 201, 303, 404, 500), Hdr: Hdr{{"Date", dateAt(at, 0)}}, DelayNs: fast, BodyFail: -1}}}
		if g.chance(0.5) {
			h.Ops = append(h.Ops, inflight, unsafe)
		} else {
			h.Ops = append(h.Ops, unsafe, inflight)
		}
		at += 10 * sec
		for _, xa := range []string{"1", "2", "3"} {
			if g.chance(0.7) {
				h.Ops = append(h.Ops, get(at, xa, 0, "n"+strconv.Itoa(i)+xa))
				at += sec
			}
		}
		at += 10 * sec
	}
	return h
}

// genLocInval: a stored response for B; a successful unsafe request to A whose reply names B in Location or
// Content-Location, in any spelling of B's URI (explicit / absent / empty default port, host case, dot segments,
// relative forms) or of a look-alike on another origin; then B again.
func (g *G) genLocInval(id string) *History {
	h := &History{ID: id, Prop: g.prop, Class: "loc-inval", Backend: pick(g, "mem", "mem", "fs"), Logger: "discard"}
	scheme := pick(g, "http", "https")
	dport := map[string]string{"http": "80", "https": "443"}[scheme]
	host := pick(g, "a.test", "shop.example", "[::1]")
	bpath := "/b"
	b := scheme + "://" + host + bpath
	get := func(at int64, body string) Op {
		return Op{Op: "req", AtNs: at, Method: "GET", URL: pick(g, scheme+"://"+host+bpath, scheme+"://"+host+":"+dport+bpath, strings.ToUpper(scheme)+"://"+strings.ToUpper(host)+bpath),
			Replies: []Reply{{Status: 200, Body: body, BodyFail: -1, Hdr: Hdr{{"Date", dateAt(at, 0)}, {"Cache-Control", "max-age=600"}}}}}
	}
	if g.chance(0.3) {
		// the named URI spelled with dot segments and empty segments: the reference is resolved (RFC 3986 §5.2.2) and
		// normalised like a request URI — "%2e" is a dot before dot segments are removed, ".." above the root does not
		// swallow the empty segment that follows it
		type grp struct {
			stored string
			locs   []string
		}
		gr := []grp{
			{"//b", []string{"/..//b", "..//b", "../..//b", "/x/../..//b", scheme + "://" + host + "/..//b", scheme + "://" + host + "//b", "//" + host + "//b"}},
			{"/a/%2e%2e/../b", []string{scheme + "://" + host + "/a/%2e%2e/../b", "/a/%2e%2e/../b", "/a/%2E/../b", "/b", "/a/c/.%2e/../../b"}},
			{"/b", []string{"/a/%2e%2e/../b", "/a/%2e%2e/b", "%2e/b", "/a/..%2fb", "/a/b"}}, // the last two name other URIs
			{"/d/b", []string{"../d/b", "./b", "b", "/d/./b", "/d/b?", "/d/b#frag", "?q", ""}},
			// a reference with bytes that are not URI characters (a server that puts UTF-8 or a space into Location):
			// it names the URI with those bytes percent-encoded and everything else as written
			{"/wiki/Caf%C3%A9_(bar)", []string{"/wiki/Caf\xc3\xa9_(bar)", "/wiki/Caf%C3%A9_(bar)", "Caf\xc3\xa9_(bar)", "/wiki/Caf%c3%a9_(bar)"}},
			{"/a%2Fb/x%20y", []string{"/a%2Fb/x y", "/a%2Fb/x%20y", "/a%2fb/x y", "/a/b/x y"}}, // the last names another URI
			// … in the QUERY such bytes are query bytes like any other: the request side keeps them as written, and
			// so does the reference (same spelling, same resource; "|" and "%7C" are different query bytes)
			{"/list?ids=1|2", []string{"/list?ids=1|2", "list?ids=1|2", scheme + "://" + host + "/list?ids=1|2", "//" + host + "/list?ids=1|2", "/list?ids=1%7C2"}}, // the last names another URI
			{"/s?q=caf\xc3\xa9&f={a}", []string{"/s?q=caf\xc3\xa9&f={a}", "s?q=caf\xc3\xa9&f={a}", "/x/../s?q=caf\xc3\xa9&f={a}", "/s?q=caf%C3%A9&f=%7Ba%7D"}},
		}[g.r.Intn(8)]
		bpath = gr.stored
		h.Ops = append(h.Ops, get(0, "b1"))
		target := scheme + "://" + host + pick(g, "/p", "/d/p", "/d/b", "/wiki/new", "/update")
		h.Ops = append(h.Ops, Op{Op: "req", AtNs: 10 * sec, Method: pick(g, "POST", "PUT", "DELETE", "PATCH"), URL: target,
			Replies: []Reply{{Status: pick(g, 200, 201, 204), BodyFail: -1, Body: "w",
				Hdr: Hdr{{"Date", dateAt(10*sec, 0)}, {pick(g, "Location", "Content-Location"), pick(g, gr.locs...)}}}}})
		h.Ops = append(h.Ops, get(20*sec, "b2"))
		return h
	}
	if g.chance(0.08) {
		// two DIFFERENT hosts that a Unicode case folding takes for one (final sigma, capital sharp s, the Kelvin sign,
		// the long s): host names compare by ASCII case only (RFC 3986 §6.2.2.1; the key does), so the reply of one
		// cannot name — and evict — the other's responses
		pr := [][2]string{{"\u03b2\u03cc\u03bb\u03bf\u03c2.example", "\u03b2\u03cc\u03bb\u03bf\u03c3.example"}, {"stra\u00dfe.example", "stra\u1e9ee.example"},
			{"kelvin.example", "\u212aelvin.example"}, {"s.example", "\u017f.example"}}[g.r.Intn(4)]
		host = pr[0]
		b = scheme + "://" + host + bpath
		h.Ops = append(h.Ops, get(0, "b1"))
		h.Ops = append(h.Ops, Op{Op: "req", AtNs: 10 * sec, Method: pick(g, "POST", "PUT", "DELETE"), URL: scheme + "://" + pr[1] + pick(g, "/a", "/b"),
			Replies: []Reply{{Status: pick(g, 200, 201, 204), BodyFail: -1, Body: "w",
				Hdr: Hdr{{"Date", dateAt(10*sec, 0)}, {pick(g, "Location", "Content-Location"), pick(g, b, "//"+host+"/b", scheme+"://"+strings.ToUpper(host)+"/b")}}}}})
		h.Ops = append(h.Ops, get(20*sec, "b2"))
		return h
	}
	h.Ops = append(h.Ops, get(0, "b1"))
	loc := pick(g, b, scheme+"://"+host+":"+dport+"/b", scheme+"://"+host+":/b", strings.ToUpper(scheme)+"://"+strings.ToUpper(host)+":"+dport+"/x/../b", "/b", "b", "./b", "//"+host+"/b", "//"+host+":"+dport+"/b",
		// other origins: these must NOT invalidate B
		scheme+"://"+host+":8080/b", map[string]string{"http": "https", "https": "http"}[scheme]+"://"+host+"/b", scheme+"://other."+strings.Trim(host, "[]")+"/b")
	target := pick(g, scheme+"://"+host+"/a", scheme+"://"+host+":"+dport+"/a", scheme+"://"+host+"/dir/a")
	h.Ops = append(h.Ops, Op{Op: "req", AtNs: 10 * sec, Method: pick(g, "POST", "PUT", "DELETE", "PATCH", "FOO"), URL: target,
		Replies: []Reply{{Status: pick(g, 200, 201, 204, 303, 404, 500), BodyFail: -1, Body: "w",
			Hdr: Hdr{{"Date", dateAt(10*sec, 0)}, {pick(g, "Location", "Content-Location"), loc}}}}})
	h.Ops = append(h.Ops, get(20*sec, "b2"))
	return h
}

// genRevalRace: two validations of one stale response overlap. The slow one is answered 304 (the origin
// still had the old representation when it was asked), the fast one gets the new representation. When the
// 304 arrives, what it confirms is no longer what the store holds.
func (g *G) genRevalRace(id string) *History {
	h := &History{ID: id, Prop: g.prop, Class: "reval-race", Backend: pick(g, "mem", "mem", "fs"), Logger: "discard", Concurrent: true}
	url := "http://a.test/rr"
	h.Ops = append(h.Ops, Op{Op: "req", AtNs: 0, Method: "GET", URL: url, Replies: []Reply{{Status: 200, BodyFail: -1, Body: "v1",
		Hdr: Hdr{{"Date", dateAt(0, 0)}, {"Cache-Control", "max-age=5"}, {"Etag", `"v1"`}}}}})
	at := 20 * sec
	slow := pick(g, 3*sec, 2*sec, 5*sec)
	fast := pick(g, sec, sec/2, sec+1)
	a := Op{Op: "req", AtNs: at, Method: "GET", URL: url, Replies: []Reply{{Status: 304, BodyFail: -1, DelayNs: slow,
		Hdr: Hdr{{"Date", dateAt(at+slow, 0)}, {"Cache-Control", "max-age=1000"}, {"Etag", `"v1"`}}}}}
	b := Op{Op: "req", AtNs: at, Method: "GET", URL: url, Replies: []Reply{{Status: 200, BodyFail: -1, Body: "v2", DelayNs: fast,
		Hdr: Hdr{{"Date", dateAt(at+fast, 0)}, {"Cache-Control", "max-age=1000"}, {"Etag", `"v2"`}}}}}
	if g.chance(0.5) {
		h.Ops = append(h.Ops, a, b)
	} else {
		h.Ops = append(h.Ops, b, a)
	}
	for i := 0; i < 1+g.r.Intn(2); i++ {
		at += 20 * sec
		h.Ops = append(h.Ops, Op{Op: "req", AtNs: at, Method: "GET", URL: url, Replies: []Reply{{Status: 200, BodyFail: -1, Body: "late",
			Hdr: Hdr{{"Date", dateAt(at, 0)}, {"Cache-Control", "max-age=1000"}, {"Etag", `"v3"`}}}}})
	}
	return h
}

// genSIE: stale-if-error around every edge — the directive on the stored response, the request,
// both or neither; staleness just inside / on / outside the window when the failing exchange STARTS
// and when it ENDS (slow failing origins); transport errors and every failure status; requests that
// also carry max-age=0 / no-cache; stored responses that must be validated.
func (g *G) genSIE(id string) *History {
	h := &History{ID: id, Prop: g.prop, Class: "sie", Backend: pick(g, "mem", "mem", "fs"), Logger: "discard"}
	url := "http://a.test/e"
	if g.chance(0.12) {
		// a validation that STARTS while the response is fresh (forced by the request) and FAILS when it is stale:
		// what applies at the instant of the failure decides (must-revalidate forbids the stale response then)
		L := pick(g, int64(10), 20)
		cc := "max-age=" + strconv.FormatInt(L, 10) + pick(g, ", must-revalidate", ", must-revalidate", "") + pick(g, ", stale-if-error=60", "")
		h.Ops = append(h.Ops, Op{Op: "req", AtNs: 0, Method: "GET", URL: url, Replies: []Reply{{Status: 200, BodyFail: -1, Body: "e0",
			Hdr: Hdr{{"Date", dateAt(0, 0)}, {"Cache-Control", cc}, {"Etag", `"e"`}}}}})
		at := (L - pick(g, int64(1), 2, 5)) * sec
		delay := pick(g, int64(0), 3*sec, 5*sec, 8*sec)
		rcc := pick(g, "max-age=0", "max-age=5", "max-age=0, stale-if-error=60", "no-cache")
		rp := Reply{Status: pick(g, 500, 503), Hdr: Hdr{{"Date", dateAt(at+delay, 0)}}, Body: "err", BodyFail: -1, DelayNs: delay}
		if g.chance(0.3) {
			rp = Reply{Err: true, BodyFail: -1, DelayNs: delay}
		}
		h.Ops = append(h.Ops, Op{Op: "req", AtNs: at, Method: "GET", URL: url, Hdr: Hdr{{"Cache-Control", rcc}}, Replies: []Reply{rp}})
		return h
	}
	L := pick(g, int64(5), 10, 60)
	N := pick(g, int64(5), 20, 100)
	cc := "max-age=" + strconv.FormatInt(L, 10)
	storedSIE := g.chance(0.6)
	if storedSIE {
		cc += ", stale-if-error=" + strconv.FormatInt(N, 10)
	}
	if g.chance(0.2) {
		cc += pick(g, ", must-revalidate", ", no-cache", `, no-cache="X-Secret"`, ", stale-while-revalidate=3")
	}
	hd := Hdr{{"Date", dateAt(0, 0)}, {"Cache-Control", cc}, {"X-Secret", "s"}}
	if g.chance(0.6) {
		hd = append(hd, [2]string{"Etag", `"e"`})
	}
	if g.chance(0.2) {
		hd = append(hd, [2]string{"Age", pick(g, "1", "3")})
	}
	h.Ops = append(h.Ops, Op{Op: "req", AtNs: 0, Method: "GET", URL: url, Replies: []Reply{{Status: 200, Hdr: hd, Body: "e0", BodyFail: -1}}})
	at := int64(0)
	rounds := 1 + g.r.Intn(3)
	for i := 0; i < rounds; i++ {
		delay := pick(g, int64(0), 0, sec, 2*sec, 3*sec, 10*sec)
		// staleness at the START of the exchange relative to the window edge
		off := pick(g, int64(-12), -4, -3, -2, -1, 0, 1, 2, 50)
		t := (L + N + off) * sec
		if g.chance(0.2) {
			t += pick(g, int64(1), -1)
		}
		if t <= at+5*sec {
			t = at + 5*sec
		}
		at = t
		var rcc []string
		if g.chance(0.5) {
			rcc = append(rcc, "stale-if-error="+pick(g, strconv.FormatInt(N, 10), "0", "1", "1000", "junk"))
		}
		switch g.r.Intn(8) {
		case 0:
			rcc = append(rcc, "max-age=0")
		case 1:
			rcc = append(rcc, "no-cache")
		case 2:
			rcc = append(rcc, "max-age="+strconv.FormatInt(L+N, 10))
		case 3:
			rcc = append(rcc, "max-stale=1")
		case 4:
			// a request max-age below the response's own lifetime: it forces validation, it does not
			// move the stale-if-error window (which is measured from the response's lifetime)
			rcc = append(rcc, "max-age="+pick(g, "1", "5", strconv.FormatInt(max(L/2, 1), 10), strconv.FormatInt(max(L-1, 1), 10)))
		}
		var rh Hdr
		if len(rcc) > 0 {
			rh = Hdr{{"Cache-Control", ccJoin(rcc)}}
		}
		var rp Reply
		switch g.r.Intn(6) {
		case 0, 1:
			rp = Reply{Err: true, BodyFail: -1, DelayNs: delay}
		case 2, 3:
			eh := Hdr{{"Date", dateAt(at+delay, 0)}}
			if g.chance(0.3) {
				eh = append(eh, [2]string{"Cache-Control", "stale-if-error=1000"})
			}
			rp = Reply{Status: pick(g, 500, 502, 503, 504), Hdr: eh, Body: "err", BodyFail: -1, DelayNs: delay}
			if g.chance(0.2) {
				// the failure reply's body stalls for an hour: nobody needs it (the stored response or the reply's own
				// status decide), and nobody should wait for it
				rp.BodyStallNs = 3600 * sec
			}
		case 4:
			rp = Reply{Status: pick(g, 501, 505, 404, 400, 429, 599), Hdr: Hdr{{"Date", dateAt(at+delay, 0)}}, Body: "err", BodyFail: -1, DelayNs: delay}
		default:
			rp = Reply{Status: 304, Hdr: Hdr{{"Date", dateAt(at+delay, 0)}}, BodyFail: -1, DelayNs: delay}
		}
		bg := rp
		bg.DelayNs = sec / 2
		op := Op{Op: "req", AtNs: at, Method: "GET", URL: url, Hdr: rh, Replies: []Reply{rp, bg}}
		if g.chance(0.12) {
			// the origin call fails BECAUSE the caller's own deadline passes, or its Cancel channel is closed, while the
			// origin is still silent: an origin call that errors, like any other (the stored response is what the caller
			// is given inside the window — C13 does not except this cause)
			op.Replies = []Reply{{Hang: true, BodyFail: -1}, bg}
			op.Cancel = pick(g, "dl:2000000000", "dl:1000000000", "dl:3000000000")
			delay = 3 * sec
		}
		h.Ops = append(h.Ops, op)
		at += delay
		if rp.Status == 304 {
			break // freshened: the window moves; one history, one window
		}
	}
	return h
}

// genSWRInval: the URI is invalidated (or replaced, or requested again) while a stale-while-revalidate
// background request for it is in flight; then everything comes to rest and the store is listed.
func (g *G) genSWRInval(id string) *History {
	h := &History{ID: id, Prop: g.prop, Class: "swr-inval", Backend: pick(g, "mem", "mem", "fs"), Logger: "discard", Concurrent: true}
	url := "http://a.test/si"
	vary := pick(g, "", "", "X-A")
	mk := func(at int64, status int, delay int64, body string, xa string, method string) Op {
		hd := Hdr{{"Date", dateAt(at+delay, 0)}}
		if status == 200 {
			hd = append(hd, [2]string{"Cache-Control", "max-age=5, stale-while-revalidate=600"}, [2]string{"Etag", `"s"`})
			hd = append(hd, varyHdr(vary)...)
		}
		if status == 304 {
			hd = append(hd, [2]string{"X-New", "n"})
		}
		var rh Hdr
		if vary != "" && xa != "" {
			rh = Hdr{{"X-A", xa}}
		}
		rp := Reply{Status: status, Hdr: hd, Body: body, DelayNs: delay, BodyFail: -1}
		if status == 304 || status == 204 {
			rp.Body = ""
		}
		return Op{Op: "req", AtNs: at, Method: method, URL: url, Hdr: rh, Replies: []Reply{rp, rp}}
	}
	h.Ops = append(h.Ops, mk(0, 200, 0, "s0", "1", "GET"))
	if vary != "" && g.chance(0.5) {
		h.Ops = append(h.Ops, mk(sec, 200, 0, "s1", "2", "GET"))
	}
	at := 10 * sec
	for i := 0; i < 1+g.r.Intn(2); i++ {
		// served STALE at once; the background request takes two seconds
		bgStatus := pick(g, 304, 304, 200, 500)
		op := mk(at, bgStatus, 2*sec, "b"+strconv.Itoa(i), "1", "GET")
		h.Ops = append(h.Ops, op)
		// ... during which something else happens to the URI
		mid := at + pick(g, sec/2, sec, sec+sec/2)
		switch g.r.Intn(4) {
		case 0, 1:
			h.Ops = append(h.Ops, mk(mid, pick(g, 204, 200, 303), 0, "", "", pick(g, "POST", "PUT", "DELETE")))
		case 2:
			o := mk(mid, 200, 0, "r"+strconv.Itoa(i), "1", "GET")
			o.Hdr = append(o.Hdr, [2]string{"Cache-Control", "no-cache"})
			h.Ops = append(h.Ops, o)
		default:
			h.Ops = append(h.Ops, mk(mid, 200, 0, "o"+strconv.Itoa(i), "2", "GET"))
		}
		at += 10 * sec
		if g.chance(0.6) {
			h.Ops = append(h.Ops, mk(at, 200, 0, "a"+strconv.Itoa(i), pick(g, "1", "2"), "GET"))
		}
		at += 10 * sec
	}
	return h
}
