package zzverif

// History generators. Every random choice derives from one PRNG (VERIF_SEED).
// The generator keeps its own virtual clock (ops carry absolute instants), so
// Date / Expires / Last-Modified values are literal strings in the history.

import (
	"math/rand"
	"net/http"
	"strconv"
	"strings"
	"time"
)

const bubbleEpoch = 946684800 // 2000-01-01T00:00:00Z, where synctest's clock starts

const sec = int64(1_000_000_000)

type G struct {
	r       *rand.Rand
	prop    string
	tier    string
	n       int
	pending *History
}

func pick[T any](g *G, xs ...T) T { return xs[g.r.Intn(len(xs))] }

func (g *G) chance(p float64) bool { return g.r.Float64() < p }

func httpDate(unixSec int64) string {
	return time.Unix(unixSec, 0).UTC().Format(http.TimeFormat)
}

// dateAt renders the HTTP date of virtual instant at (ns after epoch start) + off seconds.
func dateAt(atNs int64, offSec int64) string {
	return httpDate(bubbleEpoch + atNs/sec + offSec)
}

// zeroPadded: small numbers written with twenty digits and more (leading zeros do not make a number large)
var zeroPadded = []string{"00000000000000000060", "00000000000000000000", "000000000000000000000005", "00000000000000000000100"}

var bigNums = []string{"2147483647", "2147483648", "2147483649", "4294967296", "9223372035", "9223372036",
	"9223372037", "9223372036854775807", "9223372036854775808", "9223372036854775809", "18446744073709551615",
	"18446744073709551616", "18446744073709551617", "13835058055282163712", "99999999999999999999"}

func (g *G) lifetime() int64 { return pick(g, int64(0), 1, 2, 5, 10, 60, 100, 3600, 86400) }

// ccSpelling renders a list of directives; canonical unless spell is set.
func ccJoin(ds []string) string { return strings.Join(ds, ", ") }

type storedSpec struct {
	status         int
	maxAge         string // "" absent
	expiresOff     string // "", "invalid", "empty", "zone", or seconds offset from Date as string
	zone           string // zone abbreviation of an Expires that is not an HTTP-date
	lmOff          string // "", or seconds before Date (may be negative = after)
	age            string
	etag           bool
	flags          []string // other directives
	swr, sie       string
	dateSkew       int64 // Date = now + skew
	noDate         bool
	splitCC        bool // the directives on two Cache-Control field lines (several lines are one list)
	badFirstCCLine bool // a Cache-Control line with an unterminated quoted-string in front of the real one
	emptyFirstCCLine bool // an EMPTY Cache-Control field line in front of the real one(s): an empty list, it says nothing
	bsFirst        bool // an element ending in a backslash OUTSIDE a quoted-string in front of the directives
	rfc850         bool // Expires and Last-Modified in the obsolete rfc850 layout (valid: recipients must accept it)
	build          bool // an ordinary end-to-end field "X-Build" on the stored response
	zeroDate       bool // Date: Mon, 01 Jan 0001 00:00:00 GMT (Go's zero time, a valid HTTP-date of a response two millennia old)
	delayNs        int64
	extra          Hdr
	vary           string
}

func (g *G) genStored(focus string) storedSpec {
	s := storedSpec{status: 200}
	if g.chance(0.25) {
		s.status = pick(g, 200, 203, 204, 301, 302, 307, 308, 404, 405, 410, 414, 451, 500, 501, 503, 206, 304, 299, 600)
	}
	switch g.r.Intn(10) {
	case 0, 1:
	case 2:
		// (… and digits too many for 64 bits FOLLOWED by something else: not 1*DIGIT, hence invalid — a number parser that
		// reports "out of range" at the twentieth digit never looks at the rest)
		s.maxAge = pick(g, "0", "junk", "-1", "", "1.5", "+5", "99999999999999999999x", "18446744073709551617-", "99999999999999999999.5")
		if s.maxAge == "" {
			s.maxAge = "0"
		}
	case 3:
		s.maxAge = pick(g, bigNums...)
		if g.chance(0.2) {
			s.maxAge = pick(g, zeroPadded...)
		}
	default:
		s.maxAge = strconv.FormatInt(g.lifetime(), 10)
	}
	if g.chance(0.35) {
		s.expiresOff = pick(g, "invalid", "0", "-10", "10", "100", "3600", "0invalid", "empty", "empty", "zone")
		s.zone = pick(g, "CEST", "JST", "EST", "XYZ", "GMT+1")
		if s.expiresOff == "0invalid" {
			s.expiresOff = "invalid"
		}
	}
	if g.chance(0.45) {
		s.lmOff = pick(g, "10", "15", "25", "100", "1000", "3600", "36000", "3600000", "-10", "0", "946684800", "1420070400", "12614400000")
	}
	if g.chance(0.3) {
		s.age = pick(g, "0", "3", "5", "50", "-5", "junk", "100000000000000000000", "9223372036", "9223372037", "2147483648", "1.5",
			// a list-based value (two caches' Age fields merged by a gateway): the first member counts (RFC 9111 §5.1)
			"100, 5", "5, 100", "3600,0", " 50 , 1", ", 50", "junk, 50")
	}
	s.etag = g.chance(0.6)
	for _, f := range []string{"no-cache", "must-revalidate", "immutable", "public", "private", "no-store", "must-understand", "no-transform", "ext=1"} {
		p := 0.12
		if f == "no-store" {
			p = 0.04
		}
		if g.chance(p) {
			s.flags = append(s.flags, f)
		}
	}
	if g.chance(0.1) {
		s.flags = append(s.flags, pick(g, `no-cache="X-Secret"`, `no-cache="X-Secret"`, `no-cache="ETag"`, `no-cache="Last-Modified, Etag"`,
			// the fields the cache itself sets on what it serves: naming them withholds the ORIGIN's, not the cache's own
			`no-cache="Age"`, `no-cache="age, X-Secret"`, `no-cache="X-Httpcache-Status, X-From-Cache"`,
			// the argument is a list of FIELD NAMES: once the quoted-string is unescaped, a quote in one member is a
			// byte of that (bogus) name and hides nothing after it
			`no-cache="X-Device\", X-Secret"`, `no-cache="\"x, X-Secret, X-Other"`, `no-cache="X-Junk\""`))
		if g.chance(0.3) {
			// the qualified form given twice: the fields of both lists are covered
			s.flags = append(s.flags, pick(g, `no-cache="X-Other"`, `no-cache="x-other, Date"`, `no-cache=X-Other`, `no-cache="X-Secret"`))
		}
	}
	if s.maxAge != "" && g.chance(0.05) {
		// max-age given twice with different values: only what the FIRST one grants may be relied upon
		s.flags = append(s.flags, "max-age="+pick(g, "0", "5", "3600", "31536000"))
	}
	if g.chance(0.35) {
		s.swr = pick(g, "0", "1", "5", "10", "60", "3600", "junk", "99999999999999999999x", bigNums[g.r.Intn(len(bigNums))])
	}
	if g.chance(0.35) {
		s.sie = pick(g, "0", "1", "5", "10", "60", "3600", "junk", "99999999999999999999x", bigNums[g.r.Intn(len(bigNums))])
	}
	if g.chance(0.15) {
		s.dateSkew = pick(g, int64(-3600), -10, -1, 1, 10, 3600)
	}
	s.noDate = g.chance(0.06)
	s.badFirstCCLine = g.chance(0.03)
	s.emptyFirstCCLine = !s.badFirstCCLine && g.chance(0.04)
	s.bsFirst = g.chance(0.03)
	s.rfc850 = g.chance(0.12)
	s.build = g.chance(0.3)
	s.zeroDate = !s.noDate && g.chance(0.03)
	if g.chance(0.2) {
		s.delayNs = pick(g, int64(1), sec, 2*sec, 3*sec+1)
	}
	// any order: which of two occurrences of a directive comes first is meaning (first occurrence; an
	// unqualified no-cache behind a qualified one still demands validation)
	g.r.Shuffle(len(s.flags), func(i, j int) { s.flags[i], s.flags[j] = s.flags[j], s.flags[i] })
	s.splitCC = g.chance(0.12)
	s.extra = Hdr{{"X-Secret", "s3"}, {"X-Other", "o"}}
	if g.chance(0.1) {
		// an origin (or an inner cache of the same kind) that sends the cache's own status fields
		s.extra = append(s.extra, pick(g, [2]string{"X-From-Cache", "1"}, [2]string{"X-Httpcache-Status", "HIT"}, [2]string{"X-From-Cache", "0"}))
		if g.chance(0.5) {
			s.extra = append(s.extra, [2]string{"X-Httpcache-Status", pick(g, "STALE", "MISS", "bogus")})
		}
	}
	return s
}

func (s storedSpec) reply(atNs int64, body string) Reply {
	h := Hdr{}
	dateSec := bubbleEpoch + (atNs+s.delayNs)/sec + s.dateSkew
	if s.zeroDate {
		h = append(h, [2]string{"Date", "Mon, 01 Jan 0001 00:00:00 GMT"})
	} else if !s.noDate {
		h = append(h, [2]string{"Date", httpDate(dateSec)})
	}
	var cc []string
	if s.maxAge != "" {
		cc = append(cc, "max-age="+s.maxAge)
	}
	cc = append(cc, s.flags...)
	if s.bsFirst {
		// a quoted-pair exists only inside a quoted-string (RFC 9110 §5.6.4): outside one a backslash is an
		// ordinary (invalid) byte and the comma after it still separates list elements
		cc = append([]string{pick2(s.maxAge, `ext=a\`, `ext\`)}, cc...)
	}
	if s.swr != "" {
		cc = append(cc, "stale-while-revalidate="+s.swr)
	}
	if s.sie != "" {
		cc = append(cc, "stale-if-error="+s.sie)
	}
	if len(cc) > 0 {
		if s.badFirstCCLine {
			h = append(h, [2]string{"Cache-Control", `x="unterminated`})
		}
		if s.emptyFirstCCLine {
			h = append(h, [2]string{"Cache-Control", ""})
		}
		if s.splitCC && len(cc) >= 2 {
			cut := 1 + len(cc)/2
			if s.maxAge != "" {
				cut = 1 // the first max-age alone on the first line, everything else (a second max-age too) on the next
			}
			h = append(h, [2]string{"Cache-Control", ccJoin(cc[:cut])}, [2]string{"Cache-Control", ccJoin(cc[cut:])})
		} else {
			h = append(h, [2]string{"Cache-Control", ccJoin(cc)})
		}
	}
	switch s.expiresOff {
	case "":
	case "invalid":
		h = append(h, [2]string{"Expires", "0"})
	case "empty":
		h = append(h, [2]string{"Expires", ""})
	case "zone":
		// not an HTTP-date: the obsolete rfc850 layout with a zone abbreviation that is not GMT (a time library
		// reads it as SOME instant, which one depends on the zone of the process) - an invalid Expires: already expired
		h = append(h, [2]string{"Expires", time.Unix(dateSec+7200, 0).UTC().Format("Monday, 02-Jan-06 15:04:05") + " " + s.zone})
	default:
		off, _ := strconv.ParseInt(s.expiresOff, 10, 64)
		if s.rfc850 {
			h = append(h, [2]string{"Expires", rfc850Date(dateSec + off)})
		} else {
			h = append(h, [2]string{"Expires", httpDate(dateSec + off)})
		}
	}
	if s.lmOff != "" {
		off, _ := strconv.ParseInt(s.lmOff, 10, 64)
		if s.rfc850 {
			h = append(h, [2]string{"Last-Modified", rfc850Date(dateSec - off)})
		} else {
			h = append(h, [2]string{"Last-Modified", httpDate(dateSec - off)})
		}
	}
	if s.build {
		h = append(h, [2]string{"X-Build", "42"})
	}
	if s.age != "" {
		if strings.HasPrefix(s.age, ",") {
			// an empty first Age field line in front of the value
			h = append(h, [2]string{"Age", ""})
		}
		h = append(h, [2]string{"Age", s.age})
	}
	if s.etag {
		h = append(h, [2]string{"Etag", `"v1"`})
	}
	if s.vary != "" {
		h = append(h, [2]string{"Vary", s.vary})
	}
	h = append(h, s.extra...)
	return Reply{Status: s.status, Hdr: h, Body: body, DelayNs: s.delayNs, BodyFail: -1}
}

// approximate lifetime in seconds as the generator understands it (only used to
// aim elapsed times at boundaries; the checks never trust it).
func (s storedSpec) aimLifetime() int64 {
	if v, err := strconv.ParseInt(s.maxAge, 10, 64); err == nil && s.maxAge != "" {
		if v > 100_000_000 {
			return 100_000_000
		}
		return max(v, 0)
	}
	if s.expiresOff != "" && s.expiresOff != "invalid" && s.expiresOff != "zone" {
		v, _ := strconv.ParseInt(s.expiresOff, 10, 64)
		return max(v, 0)
	}
	if s.lmOff != "" {
		v, _ := strconv.ParseInt(s.lmOff, 10, 64)
		return max(v/10, 0)
	}
	return 0
}

func (g *G) genReqCC() []string {
	var cc []string
	if g.chance(0.55) {
		return nil
	}
	if g.chance(0.05) {
		cc = append(cc, `ext=a\`) // a backslash outside a quoted-string escapes nothing
	}
	if g.chance(0.08) {
		// an unknown extension whose quoted-string argument ends in a quoted-pair, BEFORE the directives that matter
		cc = append(cc, pick(g, `ext="C:\\"`, `e2="a\"b"`, `e3="x, only-if-cached"`))
	}
	for _, f := range []string{"no-cache", "only-if-cached", "no-store", "no-transform"} {
		if g.chance(0.18) {
			if g.chance(0.25) {
				// directive names are case-insensitive, letter by letter
				f = pick(g, strings.ToUpper(f), strings.ToUpper(f[:1])+f[1:], f[:len(f)-1]+strings.ToUpper(f[len(f)-1:]), f[:3]+strings.ToUpper(f[3:5])+f[5:])
			}
			cc = append(cc, f)
		}
	}
	if g.chance(0.3) {
		cc = append(cc, "max-age="+pick(g, "0", "1", "5", "10", "100", "junk", bigNums[g.r.Intn(len(bigNums))], zeroPadded[g.r.Intn(len(zeroPadded))]))
	}
	if g.chance(0.3) {
		cc = append(cc, pick(g, "max-stale", "max-stale=0", "max-stale=5", "max-stale=100", "max-stale=junk", "max-stale=99999999999999999999x", "max-stale="+zeroPadded[g.r.Intn(len(zeroPadded))], "max-stale="+bigNums[g.r.Intn(len(bigNums))]))
	}
	if g.chance(0.2) {
		// (too large to represent: acts as at least 2^31 seconds, it does not wrap around)
		cc = append(cc, "min-fresh="+pick(g, "0", "1", "5", "100", "junk", "2147483648", bigNums[g.r.Intn(len(bigNums))], bigNums[g.r.Intn(len(bigNums))]))
	}
	if g.chance(0.2) {
		cc = append(cc, "stale-if-error="+pick(g, "0", "1", "5", "100", "3600"))
	}
	return cc
}

func (g *G) validationReply(atNs int64, st storedSpec) Reply {
	switch g.r.Intn(10) {
	case 0, 1, 2, 3:
		h := Hdr{{"Date", dateAt(atNs, 0)}}
		if g.chance(0.5) {
			h = append(h, [2]string{"Cache-Control", "max-age=" + strconv.FormatInt(g.lifetime(), 10)})
		} else if g.chance(0.2) {
			// a 304 that must not be stored: nothing of it may reach the store
			h = append(h, [2]string{"Cache-Control", pick(g, "no-store", "no-store, max-age=60", "NO-STORE")})
		} else if g.chance(0.3) {
			// a 304 whose fields turn the stored response into one that could not have been stored had it
			// arrived like that: must-understand over a status that is not understood, or no explicit freshness
			// left on a status that is not heuristically cacheable
			h = append(h, [2]string{"Cache-Control", pick(g, "must-understand, max-age=3600", "private", "no-cache", "must-understand", "Must-Understand, max-age=60")})
		}
		if g.chance(0.5) {
			h = append(h, [2]string{"X-New", "n1"})
		}
		if g.chance(0.3) {
			h = append(h, [2]string{"Etag", `"v2"`})
		}
		if g.chance(0.2) {
			h = append(h, [2]string{"Content-Length", "999"})
		}
		if g.chance(0.1) {
			// the 304 names, as connection-specific for ITSELF, a field the stored response carries end-to-end: that
			// says nothing about the stored field, which stays
			h = append(h, [2]string{"Connection", "X-Build"})
		} else if g.chance(0.2) {
			h = append(h, [2]string{"Connection", "X-Hop"}, [2]string{"X-Hop", "h"})
			if g.chance(0.5) {
				// a second Connection field line names a second connection-specific field
				h = append(h, [2]string{"Connection", "X-Hop2"}, [2]string{"X-Hop2", "h2"})
			}
		}
		return Reply{Status: 304, Hdr: h, BodyFail: -1, DelayNs: pick(g, int64(0), 0, 1, sec)}
	case 4, 5:
		s2 := g.genStored("")
		s2.status = 200
		r := s2.reply(atNs, "new")
		return r
	case 6:
		return Reply{Err: true, BodyFail: -1, DelayNs: pick(g, int64(0), sec)}
	default:
		st := pick(g, 500, 502, 503, 504, 501, 400, 404, 505, 599)
		h := Hdr{{"Date", dateAt(atNs, 0)}}
		if g.chance(0.3) {
			h = append(h, [2]string{"Cache-Control", "stale-if-error=" + pick(g, "0", "10", "3600")})
		} else if g.chance(0.3) {
			// an error reply that is itself cacheable (explicit freshness): where stale-if-error does not take it, it is
			// the origin's full reply to the validation and replaces the stored response like any other
			h = append(h, [2]string{"Cache-Control", pick(g, "max-age=60", "max-age=600", "public, max-age=30")})
		}
		return Reply{Status: st, Hdr: h, Body: "errbody", BodyFail: -1}
	}
}

// genGrid: store one response, then one or two follow-ups at boundary-biased instants.
func (g *G) genGrid(id string) *History {
	h := &History{ID: id, Prop: g.prop, Class: "grid", Backend: "mem", Logger: "discard"}
	if g.chance(0.1) {
		h.Logger = "debug"
	}
	url := "http://a.test/x"
	st := g.genStored("")
	h.Ops = append(h.Ops, Op{Op: "req", AtNs: 0, Method: "GET", URL: url, Replies: []Reply{st.reply(0, "first")}})
	L := st.aimLifetime()
	cur := int64(0)
	nFollow := 1 + g.r.Intn(2)
	for i := 0; i < nFollow; i++ {
		var win int64
		if v, err := strconv.ParseInt(pick(g, st.swr, st.sie, "0"), 10, 64); err == nil && v < 100_000_000 {
			win = v
		}
		base := pick(g, int64(0), 1, L-1, L, L+1, L+win-1, L+win, L+win+1, 2*L+5, L/2, 3*3600, 400*24*3600)
		if base < 0 {
			base = 0
		}
		at := base*sec + st.delayNs
		// sub-second offsets only for small ages: beyond ~190 days Go's float64
		// Duration.Seconds() may round x.999999999 s up, which the model (floor) does not follow
		if g.chance(0.25) && base < 1_000_000 {
			at += pick(g, int64(1), -1, 2)
		}
		// keep away from background completion instants (x.5 s) and monotone
		if at <= cur+5*sec {
			at = cur + 5*sec + pick(g, int64(0), 0, 1)
		}
		cur = at
		var hdr Hdr
		if cc := g.genReqCC(); len(cc) > 0 {
			hdr = append(hdr, g.ccLines(cc)...)
		}
		if g.chance(0.05) {
			if g.chance(0.3) {
				// the client's validator behind an empty first field line (the list `, "client"`)
				hdr = append(hdr, [2]string{"If-None-Match", ""})
			}
			// (a value of white space only is no value: net/http trims it on the wire, the origin sees none)
			hdr = append(hdr, [2]string{"If-None-Match", pick(g, `"client"`, `"client"`, " ", "\t ")})
		}
		if g.chance(0.04) {
			// the client's own date: behind a stored ETag the origin ignores it (If-None-Match takes precedence)
			hdr = append(hdr, [2]string{"If-Modified-Since", "Sat, 01 Jan 2000 00:00:00 GMT"})
		}
		fg := g.validationReply(at, st)
		bg := g.validationReply(at, st)
		bg.DelayNs = pick(g, sec/2, sec/2, sec/2+sec, 0)
		h.Ops = append(h.Ops, Op{Op: "req", AtNs: at, Method: "GET", URL: url, Hdr: hdr, Replies: []Reply{fg, bg}})
		cur += max(fg.DelayNs, bg.DelayNs)
	}
	return h
}

// ccLines: the request directives as one Cache-Control field line or, sometimes, as several
// (RFC 9110 §5.3: the lines of a field are one comma-separated list); a more aggressive request
// puts the directive that matters last
func (g *G) ccLines(cc []string) Hdr {
	if g.chance(0.04) && !strings.ContainsAny(ccJoin(cc), "\"\\") {
		// (only in front of directives without quoted arguments: how a second quote or a backslash reads after
		// an unterminated one is anybody's guess, and the checks have no opinion about it)
		// a malformed field line (a quoted-string that never ends) in front of well-formed ones: a quoted-string
		// cannot extend over field lines, so the later lines say what they say
		bad := pick(g, `x="unterminated`, `b"`, `x="a\`)
		if g.chance(0.5) {
			// … and the same text on ONE line, where the quoted-string does swallow what follows: the two forms
			// read differently although their lines join to the same text (a parse keyed by the joined text is wrong)
			return Hdr{{"Cache-Control", bad + "," + ccJoin(cc)}}
		}
		return append(Hdr{{"Cache-Control", bad}}, Hdr{{"Cache-Control", ccJoin(cc)}}...)
	}
	var pre Hdr
	if g.chance(0.05) {
		// an empty field line first: an empty list (RFC 9110 §5.6.1), the lines after it say what they say
		pre = Hdr{{"Cache-Control", ""}}
	}
	if len(cc) < 2 || !g.chance(0.3) {
		return append(pre, [2]string{"Cache-Control", ccJoin(cc)})
	}
	cut := 1 + g.r.Intn(len(cc)-1)
	return append(pre, Hdr{{"Cache-Control", ccJoin(cc[:cut])}, {"Cache-Control", ccJoin(cc[cut:])}}...)
}

// pick2: a deterministic choice that needs no generator state (the spec is a value type)
func pick2(key, a, b string) string {
	if len(key)%2 == 0 {
		return a
	}
	return b
}

// rfc850Date: "Sunday, 06-Nov-94 08:49:37 GMT"
func rfc850Date(unix int64) string {
	return time.Unix(unix, 0).UTC().Format("Monday, 02-Jan-06 15:04:05") + " GMT"
}
