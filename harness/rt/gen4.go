package zzverif

// Grammar-driven URL resources: a random component tuple, its RFC 3986 §6.2.2-6.2.3 equivalent
// spellings, and look-alikes that are different resources. The look-alikes include "boundary shifts":
// pairs that coincide if any separator between two components is dropped or moved, which is what a
// key or memo built by plain concatenation gets wrong.

import (
	"strconv"
	"strings"
	"time"
)

var hostPool = []string{"a.test", "shop.example", "hop.example", "s.test", "x", "sx", "a.test1", "a.b.test", "b.test", "[::1]", "[2001:db8::1]", "127.0.0.1", "xn--nxasmq6b.test", "%E9.test", "%C3%89.test"}
var segPool = []string{"p", "P", "a", "ab", "a.b", "a-b", "~u", "a%2Fb", "a%2fb", "a%3Fb", "%C3%A9", "%E9", "a%20b", "a;b", "a:b", "a@b", "a=b", "80", "s",
	// long segments: store keys of 190 to 260 bytes, around the file-name limits of the file-system backend
	strings.Repeat("L", 165), strings.Repeat("M", 195), strings.Repeat("N", 235)}
var queryPool = []string{"", "x=1", "x=1&y=2", "y=2&x=1", "q=%7e", "q=~", "q=%E9", "q=%C3%A9", "q=a%2Fb", "q=a/b", "q=%3F", "q=?", "X=1", "x", "x=", "80", "q=\xe9", "q=caf\xe9&x=\xff",
	// an escape that is cut short at the end of the query (url.Parse does not validate a query): bytes like any other
	"q=100%2", "cursor=abc%3", "p=50%", "%a"}

type urlParts struct {
	scheme, host, port string
	segs               []string
	trailing           bool
	query              string
}

func (u urlParts) String() string {
	s := u.scheme + "://" + u.host
	if u.port != "" {
		s += ":" + u.port
	}
	if len(u.segs) > 0 || u.trailing {
		s += "/" + strings.Join(u.segs, "/")
		if u.trailing && len(u.segs) > 0 {
			s += "/"
		}
	}
	if u.query != "" {
		s += "?" + u.query
	}
	return s
}

func (g *G) genParts() urlParts {
	u := urlParts{scheme: pick(g, "http", "https"), host: pick(g, hostPool...)}
	if g.chance(0.4) {
		u.port = pick(g, "80", "443", "8080", "8", "180", "1", "65535")
	}
	n := g.r.Intn(4)
	for i := 0; i < n; i++ {
		u.segs = append(u.segs, pick(g, segPool...))
	}
	u.trailing = g.chance(0.2)
	u.query = pick(g, queryPool...)
	return u
}

func flipCase(s string, upper bool) string {
	if upper {
		return strings.ToUpper(s)
	}
	return strings.ToLower(s)
}

// pctRespell rewrites escapes without changing meaning: hex digits change case, unreserved bytes are
// escaped or unescaped
func (g *G) pctRespell(s string) string {
	var b strings.Builder
	for i := 0; i < len(s); i++ {
		c := s[i]
		switch {
		case c == '%' && i+2 < len(s):
			h := s[i+1 : i+3]
			if g.chance(0.5) {
				h = flipCase(h, g.chance(0.5))
			}
			b.WriteString("%" + h)
			i += 2
		case (c >= 'a' && c <= 'z' || c >= 'A' && c <= 'Z' || c >= '0' && c <= '9' || c == '-' || c == '.' || c == '_' || c == '~') && g.chance(0.15) && c != '.':
			b.WriteString("%" + flipCase(strconv.FormatInt(int64(c), 16), g.chance(0.5)))
		default:
			b.WriteByte(c)
		}
	}
	return b.String()
}

func defaultPortOf(scheme string) string {
	if scheme == "https" {
		return "443"
	}
	return "80"
}

func (g *G) equivalentSpelling(u urlParts) string {
	v := u
	v.segs = append([]string{}, u.segs...)
	if g.chance(0.3) {
		v.scheme = strings.ToUpper(v.scheme)
	}
	if g.chance(0.3) {
		v.host = flipCase(v.host, true)
	}
	switch {
	case u.port == "" && g.chance(0.3):
		v.port = defaultPortOf(u.scheme)
	case u.port == defaultPortOf(u.scheme) && g.chance(0.5):
		v.port = ""
	}
	for i := range v.segs {
		v.segs[i] = g.pctRespell(v.segs[i])
	}
	v.query = g.pctRespell(v.query)
	s := v.String()
	if len(u.segs) == 0 && !u.trailing && g.chance(0.5) {
		// empty path = "/"
		s = strings.Replace(s, "://"+v.host+portSuffix(v.port), "://"+v.host+portSuffix(v.port)+"/", 1)
	}
	if g.chance(0.2) && len(v.segs) > 0 {
		// dot segments
		i := strings.Index(s, "://") + 3
		j := strings.IndexByte(s[i:], '/')
		if j >= 0 {
			s = s[:i+j] + pick(g, "/.", "/zz/..", "/./.", "/%2e", "/zz/%2E%2e", "/zz/.%2E", "/%2E/.", "/zz/yy/../%2e%2e") + s[i+j:]
		}
	}
	if u.trailing && len(u.segs) > 0 && u.query == "" && g.chance(0.25) {
		// a final "." segment: "/docs/." is "/docs/" (RFC 3986 §5.2.4 keeps the trailing slash)
		s += pick(g, ".", "%2E", "%2e", "./.")
	}
	if g.chance(0.15) {
		s += "#frag"
	}
	if g.chance(0.1) {
		s = strings.Replace(s, "://", "://user:pw@", 1)
	}
	return s
}

func portSuffix(p string) string {
	if p == "" {
		return ""
	}
	return ":" + p
}

func (g *G) lookAlike(u urlParts) string {
	v := u
	v.segs = append([]string{}, u.segs...)
	for tries := 0; tries < 8; tries++ {
		switch g.r.Intn(19) {
		case 18: // a trailing dot is a byte of the host: "a.test." is not "a.test" (not one of the §6.2.2–6.2.3 normalisations)
			if strings.HasSuffix(u.host, "]") {
				continue
			}
			if strings.HasSuffix(u.host, ".") {
				v.host = strings.TrimSuffix(u.host, ".")
			} else {
				v.host = u.host + "."
			}
		case 0: // other scheme, same text otherwise
			v.scheme = map[string]string{"http": "https", "https": "http"}[u.scheme]
		case 1: // boundary shift scheme|host: http://sX  vs  https://X
			if u.scheme == "http" && strings.HasPrefix(u.host, "s") && len(u.host) > 1 {
				v.scheme, v.host = "https", u.host[1:]
			} else if u.scheme == "https" && !strings.HasPrefix(u.host, "[") {
				v.scheme, v.host = "http", "s"+u.host
			} else {
				continue
			}
		case 2: // boundary shift host|port: a.test1:80 vs a.test:180
			if u.port != "" && !strings.HasSuffix(u.host, "]") {
				v.host, v.port = u.host+u.port[:1], u.port[1:]
				if v.port == "" {
					continue
				}
			} else {
				continue
			}
		case 3:
			v.port = pick(g, "8080", "81", "8", "4430", "800")
		case 4:
			if u.port == "" {
				v.port = defaultPortOf(map[string]string{"http": "https", "https": "http"}[u.scheme])
			} else {
				v.port = ""
			}
		case 5: // path case
			if len(u.segs) == 0 {
				continue
			}
			i := g.r.Intn(len(u.segs))
			if strings.ContainsRune(u.segs[i], '%') {
				continue
			}
			v.segs[i] = flipCase(u.segs[i], u.segs[i] == strings.ToLower(u.segs[i]))
		case 6: // reserved escape decoded / encoded
			if len(u.segs) == 0 {
				continue
			}
			i := g.r.Intn(len(u.segs))
			v.segs[i] = strings.NewReplacer("%2F", "/", "%2f", "/", "%3F", "%3f%3F", ";", "%3B", ":", "%3A", "@", "%40", "=", "%3D", "%20", "+").Replace(u.segs[i])
		case 7: // raw vs escaped non-ASCII, Latin-1 vs UTF-8; a raw byte that is not valid UTF-8 vs U+FFFD in its place
			v.query = strings.NewReplacer("%E9", "%C3%A9", "%C3%A9", "%E9", "\xe9", "\xef\xbf\xbd", "\xff", "\xef\xbf\xbd").Replace(u.query)
			for i := range v.segs {
				v.segs[i] = strings.NewReplacer("%E9", "%C3%A9", "%C3%A9", "%E9").Replace(u.segs[i])
			}
		case 8:
			v.trailing = !u.trailing
			if len(u.segs) == 0 {
				v.segs = []string{"p"}
			}
		case 9: // boundary shift path|query
			if u.query != "" && len(u.segs) > 0 {
				v.segs[len(v.segs)-1] += "%3F" + u.query
				v.query = ""
			} else {
				v.query = pick(g, "x", "x=1", "80")
			}
		case 10:
			v.query = strings.NewReplacer("%2F", "/", "/", "%2F", "%3F", "?", "?", "%3F", "x=1&y=2", "y=2&x=1", "X", "x").Replace(u.query)
		case 11: // host prefix / suffix / label
			v.host = pick(g, "s"+strings.TrimPrefix(u.host, "["), "x."+strings.TrimPrefix(u.host, "["))
			if strings.HasPrefix(u.host, "[") {
				v.host = pick(g, "[::2]", "[0::1]", "[::1%25eth0]")
			}
		case 12: // boundary shift host|path: a.test/p vs a.testp... not expressible; drop or duplicate a segment
			if len(u.segs) > 0 {
				v.segs = u.segs[:len(u.segs)-1]
			} else {
				v.segs = []string{"80"}
			}
		case 14: // hosts that differ in a non-ASCII byte only (host case is ASCII case; bytes are bytes)
			if strings.Contains(u.host, "%E9") {
				v.host = strings.Replace(u.host, "%E9", pick(g, "%E8", "%C9"), 1)
			} else if strings.Contains(u.host, "%C3%89") {
				v.host = strings.Replace(u.host, "%C3%89", "%C3%A9", 1)
			} else {
				continue
			}
		case 15: // ".." above the root followed by an empty segment: "/..//a" is "//a", not "/a"
			if len(u.segs) == 0 {
				continue
			}
			w := u
			w.segs = append([]string{pick(g, "..", "%2e%2E", "."), ""}, u.segs...)
			return w.String()
		case 17: // "/docs/." is "/docs/", which is not "/docs"
			if u.trailing || len(u.segs) == 0 || u.query != "" {
				continue
			}
			return u.String() + pick(g, "/.", "/%2E", "/x/..")
		case 16: // a query that is present and empty: "/p?" is not "/p" (RFC 3986 §6.2.3)
			if u.query != "" {
				continue
			}
			return u.String() + "?"
		case 13: // bracket placement of an IP literal
			if strings.HasPrefix(u.host, "[") && u.port != "" {
				v.host, v.port = u.host[:len(u.host)-1]+":"+u.port+"]", ""
			} else {
				continue
			}
		}
		if v.String() != u.String() {
			return v.String()
		}
	}
	return u.String() + "/zz"
}

func (g *G) genResource() resource {
	u := g.genParts()
	r := resource{spellings: []string{u.String()}}
	for i := 0; i < 4; i++ {
		r.spellings = append(r.spellings, g.equivalentSpelling(u))
	}
	for i := 0; i < 6; i++ {
		r.nearMiss = append(r.nearMiss, g.lookAlike(u))
	}
	return r
}

// genMerge304: a stored response of any status with explicit freshness that has run out, a validation
// answered 304 whose fields REPLACE what made the stored response storable (Cache-Control without max-age,
// must-understand over a status that is not understood, Expires gone only if the 304 says so), then requests
// that would be served from the store if the merged response had been written. What the store may hold is
// decided on the response as it would be stored, not on how it came about.
func (g *G) genMerge304(id string) *History {
	h := &History{ID: id, Prop: g.prop, Class: "merge-304", Backend: pick(g, "mem", "mem", "fs"), Logger: "discard"}
	url := "http://a.test/m304"
	st := pick(g, 200, 203, 204, 299, 301, 302, 303, 307, 308, 400, 403, 404, 410, 451, 500, 502, 599)
	first := Hdr{{"Date", dateAt(0, 0)}, {"Cache-Control", pick(g, "max-age=0", "max-age=5", "public, max-age=1", "max-age=3")}, {"Etag", `"a"`}}
	if st >= 300 && st < 400 {
		first = append(first, [2]string{"Location", "/elsewhere"})
	}
	h.Ops = append(h.Ops, Op{Op: "req", AtNs: 0, Method: "GET", URL: url, Replies: []Reply{{Status: st, BodyFail: -1, Body: "m1", Hdr: first}}})
	at := 20 * sec
	cc := pick(g, "must-understand, max-age=3600", "must-understand, max-age=3600", "private", "no-cache", `private="x"`, "must-understand", "Must-Understand, Max-Age=60",
		"max-age=3600", "public", "s-maxage=10", "no-store", "")
	h304 := Hdr{{"Date", dateAt(at, 0)}, {"Etag", `"a"`}}
	if cc != "" {
		h304 = append(h304, [2]string{"Cache-Control", cc})
	}
	if g.chance(0.15) {
		h304 = append(h304, [2]string{"Expires", dateAt(at, 600)})
	}
	h.Ops = append(h.Ops, Op{Op: "req", AtNs: at, Method: "GET", URL: url, Replies: []Reply{{Status: 304, BodyFail: -1, Hdr: h304},
		{Status: 200, BodyFail: -1, Body: "m2", Hdr: Hdr{{"Date", dateAt(at, 0)}, {"Cache-Control", "max-age=60"}}}}})
	for i := 0; i < 1+g.r.Intn(2); i++ {
		at += pick(g, sec, 10*sec, 100*sec)
		op := Op{Op: "req", AtNs: at, Method: "GET", URL: url, Replies: []Reply{{Status: 200, BodyFail: -1, Body: "m3", Hdr: Hdr{{"Date", dateAt(at, 0)}, {"Cache-Control", "max-age=60"}, {"Etag", `"b"`}}}}}
		if g.chance(0.5) {
			op.Hdr = Hdr{{"Cache-Control", pick(g, "only-if-cached, max-stale", "max-stale", "only-if-cached", "max-stale=1000")}}
		}
		h.Ops = append(h.Ops, op)
	}
	return h
}

// genRootless: a url.URL whose Path has no leading slash although it has a host — what url.URL.JoinPath
// returns for a base without a path ("http://a" joined with "b/"), or a client that assigns URL.Path. The
// URL is "http://a/b/" (url.URL.String; the connection goes to host a): it is equivalent to that spelling and
// to no URI of another host or port whose text happens to continue the host.
func (g *G) genRootless(id string) *History {
	h := &History{ID: id, Prop: g.prop, Class: "rootless", Backend: pick(g, "mem", "mem", "fs"), Logger: "discard"}
	type sp struct{ url, setPath string }
	groups := [][2]sp{
		{{"http://ab.test/x", ""}, {"http://a", "b.test/x"}},
		{{"http://a.test:8080/x", ""}, {"http://a.test", ":8080/x"}},
		{{"http://a.test.evil.example/x", ""}, {"http://a.test", ".evil.example/x"}},
		{{"http://a.test/x", ""}, {"http://a.test", "x"}},       // equivalent
		{{"http://a.test/y", ""}, {"http://a.test", "x/../y"}},  // equivalent
		{{"http://a.test/x/", ""}, {"http://a.test", "x/"}},     // equivalent
		{{"https://a.test/x", ""}, {"https://a.test:443", "x"}}, // equivalent
	}
	pr := groups[g.r.Intn(len(groups))]
	order := []sp{pr[0], pr[1]}
	if g.chance(0.5) {
		order[0], order[1] = order[1], order[0]
	}
	at := int64(0)
	for i := 0; i < 2+g.r.Intn(3); i++ {
		s := order[i%2]
		if i >= 2 {
			s = order[g.r.Intn(2)]
		}
		body := "r" + strconv.Itoa(i)
		h.Ops = append(h.Ops, Op{Op: "req", AtNs: at, Method: "GET", URL: s.url, SetPath: s.setPath,
			Replies: []Reply{{Status: 200, BodyFail: -1, Body: body, Hdr: Hdr{{"Date", dateAt(at, 0)}, {"Cache-Control", "max-age=600"}}}}})
		at += pick(g, sec, 5*sec, 20*sec)
	}
	return h
}

// genHostOverride: http.Request.Host names the authority the origin sees, URL.Host only where the connection
// goes (a client that connects to an address and names the virtual host itself). Requests for one URL value
// with different Host fields are requests for different URIs; a Host that equals the URL's authority (in any
// equivalent spelling) changes nothing.
func (g *G) genHostOverride(id string) *History {
	h := &History{ID: id, Prop: g.prop, Class: "host-override", Backend: pick(g, "mem", "mem", "fs"), Logger: "discard"}
	url := pick(g, "http://127.0.0.1:8080/private", "http://a.test/p", "https://gw.example/x?y=1")
	hosts := []string{"alice.example", "bob.example", "", "ALICE.example", "alice.example:80", "alice.example:8080"}
	at := int64(0)
	for i := 0; i < 2+g.r.Intn(4); i++ {
		hv := hosts[g.r.Intn(len(hosts))]
		if i < 2 {
			hv = hosts[i]
		}
		h.Ops = append(h.Ops, Op{Op: "req", AtNs: at, Method: "GET", URL: url, Host: hv,
			Replies: []Reply{{Status: 200, BodyFail: -1, Body: "for-" + hv, Hdr: Hdr{{"Date", dateAt(at, 0)}, {"Cache-Control", "max-age=600"}}}}})
		at += pick(g, sec, 5*sec, 20*sec)
	}
	if g.chance(0.3) {
		// an unsafe request under one Host invalidates what is stored for THAT authority — also through Location /
		// Content-Location: a reference is resolved against, and its origin compared with, the authority the origin
		// server was given (Request.Host), not the address the connection went to
		hd := Hdr{{"Date", dateAt(at, 0)}}
		ph := hosts[g.r.Intn(2)]
		if g.chance(0.6) {
			path := "/private"
			if i := strings.Index(url[8:], "/"); i >= 0 {
				path = url[8+i:]
			}
			scheme := url[:strings.Index(url, "://")]
			hd = append(hd, [2]string{pick(g, "Location", "Content-Location"), pick(g, path, scheme+"://"+ph+path, "//"+ph+path, scheme+"://"+hosts[1-indexOf(hosts, ph)]+path, url)})
			h.Ops = append(h.Ops, Op{Op: "req", AtNs: at, Method: "POST", URL: strings.Replace(url, path, "/other-target", 1), Host: ph,
				Replies: []Reply{{Status: pick(g, 200, 201, 303), BodyFail: -1, Body: "w", Hdr: hd}}})
		} else {
			h.Ops = append(h.Ops, Op{Op: "req", AtNs: at, Method: "POST", URL: url, Host: ph,
				Replies: []Reply{{Status: 200, BodyFail: -1, Body: "w", Hdr: Hdr{{"Date", dateAt(at, 0)}}}}})
		}
		at += sec
		for i := 0; i < 2; i++ {
			h.Ops = append(h.Ops, Op{Op: "req", AtNs: at, Method: "GET", URL: url, Host: hosts[i],
				Replies: []Reply{{Status: 200, BodyFail: -1, Body: "again", Hdr: Hdr{{"Date", dateAt(at, 0)}, {"Cache-Control", "max-age=600"}}}}})
			at += sec
		}
	}
	return h
}

func indexOf(l []string, s string) int {
	for i, x := range l {
		if x == s {
			return i
		}
	}
	return 0
}

// genZoneDates: valid HTTP-dates in the obsolete rfc850 and asctime layouts (recipients must accept all three
// forms, RFC 9110 §5.6.7), with the cache's process in a zone of its own: explicit (Expires) and heuristic
// (Last-Modified) freshness must not depend on where the process runs.
func (g *G) genZoneDates(id string) *History {
	h := &History{ID: id, Prop: g.prop, Class: "zone-dates", Backend: pick(g, "mem", "mem", "fs"), Logger: "discard",
		TZ: pick(g, "Europe/Prague", "Africa/Lagos", "Europe/London", "Europe/Dublin", "America/New_York", "")}
	url := "http://a.test/zd"
	form := func(unix int64) string {
		switch g.r.Intn(3) {
		case 0:
			return rfc850Date(unix)
		case 1:
			return time.Unix(unix, 0).UTC().Format(time.ANSIC)
		}
		return httpDate(unix)
	}
	// in summer too (Europe/London is on BST then)
	base := pick(g, int64(0), 182*86400*sec)
	at := base
	for i := 0; i < 2+g.r.Intn(2); i++ {
		hdr := Hdr{{"Date", dateAt(at, 0)}}
		if g.chance(0.3) {
			// an origin without a clock: no Date (or one that does not parse); the recipient records the time it
			// received the response — in GMT, whatever zone it lives in
			hdr = Hdr{{"Cache-Control", pick(g, "max-age=3600", "max-age=7200")}}
			if g.chance(0.3) {
				hdr = append(hdr, [2]string{"Date", "yesterday"})
			}
		} else if g.chance(0.5) {
			hdr = append(hdr, [2]string{"Expires", form(bubbleEpoch + at/sec + 3600)})
		} else {
			hdr = append(hdr, [2]string{"Last-Modified", form(bubbleEpoch + at/sec - 36000)})
		}
		h.Ops = append(h.Ops, Op{Op: "req", AtNs: at, Method: "GET", URL: url,
			Replies: []Reply{{Status: pick(g, 200, 200, 404), BodyFail: -1, Body: "zd" + strconv.Itoa(i), Hdr: hdr}}})
		at += pick(g, 10*sec, 60*sec, 600*sec)
	}
	return h
}

// genVarySpelling: one variant, its Vary value spelled differently by successive replies ("X-B, X-C", "X-C, X-B",
// "x-b,x-c"): the identifier and the nominated values are the same, so it is ONE stored response and must be one
// reference. A second reference survives when the first is replaced by a later reply and keeps the replaced
// representation in use; every new spelling adds another.
func (g *G) genVarySpelling(id string) *History {
	h := &History{ID: id, Prop: g.prop, Class: "vary-spelling", Backend: pick(g, "mem", "mem", "fs"), Logger: "discard"}
	url := "http://a.test/vs"
	spell := []string{"X-B, X-C", "X-C, X-B", "x-b,x-c", "X-B,X-C", "X-C , X-B"}
	rep := func(at int64, body, vary string) []Reply {
		hd := Hdr{{"Date", dateAt(at, 0)}, {"Cache-Control", "max-age=600"}, {"Etag", `"` + body + `"`}}
		if vary != "" {
			hd = append(hd, [2]string{"Vary", vary})
		}
		return []Reply{{Status: 200, BodyFail: -1, Body: body, Hdr: hd}}
	}
	at := int64(0)
	add := func(hdr Hdr, body, vary string) {
		h.Ops = append(h.Ops, Op{Op: "req", AtNs: at, Method: "GET", URL: url, Hdr: hdr, Replies: rep(at, body, vary)})
		at += sec
	}
	nc := [2]string{"Cache-Control", "no-cache"}
	add(Hdr{{"X-A", "1"}, {"X-B", "b"}}, "r0", "X-A")
	add(Hdr{{"X-A", "2"}, {"X-B", "b"}}, "b", spell[g.r.Intn(len(spell))])
	for i := 0; i < 1+g.r.Intn(3); i++ {
		// a forced validation of the first variant answered by a full reply in another spelling of the second
		add(Hdr{{"X-A", pick(g, "1", "2")}, {"X-B", "b"}, nc}, "n"+strconv.Itoa(i), spell[g.r.Intn(len(spell))])
	}
	if g.chance(0.7) {
		add(Hdr{{"X-B", "b"}, nc}, "n2", "")
		add(Hdr{{"X-B", "b"}}, "late", "")
	}
	return h
}

// genTruncUnframed: a stored response whose body had no framing of its own (delimited by the end of the
// connection: HTTP/1.0, or what http.Transport hands over after transparent decompression, or HTTP/2 without
// Content-Length), and a store that later returns only a prefix of the entry, cut inside the body. The cache
// read every byte of that body before it stored it: a shorter one is a damaged entry, and the origin serves.
func (g *G) genTruncUnframed(id string) *History {
	h := &History{ID: id, Prop: g.prop, Class: "trunc-unframed", Backend: pick(g, "mem", "mem", "fs", "fsenc"), Logger: pick(g, "discard", "debug")}
	url := "http://a.test/tu"
	body := "0123456789abcdefghijklmnopqrstuvwxyz"
	h.Ops = append(h.Ops, Op{Op: "req", AtNs: 0, Method: "GET", URL: url,
		Replies: []Reply{{Status: 200, BodyFail: -1, Body: body, NoCL: g.chance(0.8), Proto: pick(g, "", "HTTP/1.0"),
			// the same unframed message as a hand-written upstream may present it
			ZeroLen: g.chance(0.3), TEIdentity: g.chance(0.3),
			Hdr: Hdr{{"Date", dateAt(0, 0)}, {"Cache-Control", "max-age=600"}}}}})
	h.Ops = append(h.Ops, Op{Op: "req", AtNs: 10 * sec, Method: "GET", URL: url,
		Faults:  []Fault{{Stream: "fg", Idx: 1, Kind: "trunc", Bytes: pick(g, "-1", "-3", "-5", "-12", "-20", "-30")}},
		Replies: []Reply{{Status: 200, BodyFail: -1, Body: body, Hdr: Hdr{{"Date", dateAt(10*sec, 0)}, {"Cache-Control", "max-age=600"}}}}})
	h.Ops = append(h.Ops, Op{Op: "req", AtNs: 20 * sec, Method: "GET", URL: url,
		Replies: []Reply{{Status: 200, BodyFail: -1, Body: body, Hdr: Hdr{{"Date", dateAt(20*sec, 0)}, {"Cache-Control", "max-age=600"}}}}})
	return h
}
