package zzverif

// Runs one History against the REAL transport (public API only) inside a
// testing/synctest bubble: scripted origin, recording + faulting driver.Conn,
// virtual clock. Produces the trace lines of DESIGN.md Appendix B.

import (
	"bufio"
	"bytes"
	"context"
	"encoding/base64"
	"encoding/hex"
	"encoding/json"
	"errors"
	"fmt"
	"io"
	"log/slog"
	"math/big"
	"net/http"
	"net/url"
	"os"
	"reflect"
	"runtime"
	"sort"
	"strconv"
	"strings"
	"sync"
	"sync/atomic"
	"testing"
	"testing/synctest"
	"time"

	"github.com/bartventer/httpcache"
	"github.com/bartventer/httpcache/internal"
	"github.com/bartventer/httpcache/store"
	"github.com/bartventer/httpcache/store/driver"
	"github.com/bartventer/httpcache/store/fscache"
	"github.com/bartventer/httpcache/store/memcache"
)

const encKey = "6S-Ks2YYOW0xMvTzKSv6QD30gZeOi1c6Ydr-As5csWk="

type exKey struct{}

func goid() int64 {
	var buf [64]byte
	n := runtime.Stack(buf[:], false)
	// "goroutine 123 [running]:"
	s := string(buf[:n])
	s = strings.TrimPrefix(s, "goroutine ")
	i := strings.IndexByte(s, ' ')
	id, _ := strconv.ParseInt(s[:i], 10, 64)
	return id
}

type runState struct {
	mu        sync.Mutex
	h         *History
	lines     []string
	curN      int
	fgOf      map[int64]int         // goroutine -> exchange it performs in the foreground
	callerReq map[int]*http.Request // the request object the caller passed to RoundTrip, per exchange
	bgOf      map[int64]int         // goroutine -> exchange whose background work it performs
	calls     map[int]int           // exchange -> number of origin calls so far
	storeIdx  map[string]int
	pending   int // origin calls entered and not yet returned
	bodies    []*trackedBody
	dates     map[string]struct{}
	inner     driver.Conn
	dir       string
}

func (rs *runState) emit(format string, a ...any) {
	rs.mu.Lock()
	rs.lines = append(rs.lines, fmt.Sprintf(format, a...))
	rs.mu.Unlock()
}

// streamOf attributes the calling goroutine to (exchange, fg|bg).
func (rs *runState) streamOf(ctxN int, haveCtx bool) (int, string) {
	g := goid()
	rs.mu.Lock()
	defer rs.mu.Unlock()
	if n, ok := rs.fgOf[g]; ok {
		return n, "fg"
	}
	if n, ok := rs.bgOf[g]; ok {
		return n, "bg"
	}
	if haveCtx {
		rs.bgOf[g] = ctxN
		return ctxN, "bg"
	}
	return rs.curN, "xg"
}

func (rs *runState) noteDates(h http.Header) {
	rs.mu.Lock()
	for _, k := range []string{"Date", "Expires", "Last-Modified"} {
		for _, v := range h[k] {
			rs.dates[v] = struct{}{}
		}
	}
	rs.mu.Unlock()
}

/* ----------------------------- scripted origin ----------------------------- */

type origin struct{ rs *runState }

type failingBody struct {
	r    io.Reader
	left int
}

// shortBy: how many bytes before its declared Content-Length the body of this reply ends (0: it does not)
func shortBy(rp *Reply, body string) int {
	if rp.ShortEOF <= 0 || rp.Chunked || rp.NoCL || rp.BodyFail >= 0 || len(body) <= rp.ShortEOF+8 {
		return 0
	}
	return rp.ShortEOF
}

// stallingBody: the first Read waits (virtual time) before anything arrives; Close releases a waiting Read
type stallingBody struct {
	io.ReadCloser
	stall time.Duration
	once  sync.Once
	done  chan struct{}
}

func (b *stallingBody) Read(p []byte) (int, error) {
	if b.stall > 0 {
		d := b.stall
		b.stall = 0
		select {
		case <-time.After(d):
		case <-b.done:
			return 0, errors.New("verif: read on closed body")
		}
	}
	return b.ReadCloser.Read(p)
}

func (b *stallingBody) Close() error {
	b.once.Do(func() { close(b.done) })
	return b.ReadCloser.Close()
}

var errBodyFail = errors.New("verif: scripted body failure")
var errOrigin = errors.New("verif: scripted origin error")

func (f *failingBody) Read(p []byte) (int, error) {
	if f.left <= 0 {
		return 0, errBodyFail
	}
	if len(p) > f.left {
		p = p[:f.left]
	}
	n, err := f.r.Read(p)
	f.left -= n
	if err == io.EOF {
		return n, errBodyFail
	}
	return n, err
}
func (f *failingBody) Close() error { return nil }

func hasBody(status int, method string) bool {
	if method == http.MethodHead {
		return false
	}
	return !(status < 200 || status == 204 || status == 304)
}

func tokenFor(n, k int) string { return "tok-" + strconv.Itoa(n) + "-" + strconv.Itoa(k) + "|" }

func buildResponse(req *http.Request, rp *Reply, n, k int) (*http.Response, string, error) {
	var buf bytes.Buffer
	proto := rp.Proto
	if proto == "" {
		proto = "HTTP/1.1"
	}
	text := http.StatusText(rp.Status)
	if text == "" {
		text = "Status"
	}
	fmt.Fprintf(&buf, "%s %03d %s\r\n", proto, rp.Status, text)
	for _, p := range rp.Hdr {
		fmt.Fprintf(&buf, "%s: %s\r\n", p[0], p[1])
	}
	body := ""
	if hasBody(rp.Status, req.Method) {
		body = tokenFor(n, k) + rp.Body
		switch {
		case rp.Chunked:
			buf.WriteString("Transfer-Encoding: chunked\r\n")
			if len(rp.Trailer) > 0 {
				names := make([]string, len(rp.Trailer))
				for i, p := range rp.Trailer {
					names[i] = p[0]
				}
				fmt.Fprintf(&buf, "Trailer: %s\r\n", strings.Join(names, ", "))
			}
			fmt.Fprintf(&buf, "\r\n%x\r\n%s\r\n0\r\n", len(body), body)
			for _, p := range rp.Trailer {
				fmt.Fprintf(&buf, "%s: %s\r\n", p[0], p[1])
			}
			buf.WriteString("\r\n")
		case rp.NoCL:
			fmt.Fprintf(&buf, "\r\n%s", body)
		default:
			fmt.Fprintf(&buf, "Content-Length: %d\r\n\r\n%s", len(body), body)
		}
	} else {
		buf.WriteString("\r\n")
	}
	resp, err := http.ReadResponse(bufio.NewReader(&buf), req)
	if err != nil {
		return nil, "", err
	}
	if rp.BodyFail >= 0 && body != "" {
		resp.Body = &failingBody{r: resp.Body, left: rp.BodyFail}
	}
	if short := shortBy(rp, body); short > 0 {
		resp.Body = struct {
			io.Reader
			io.Closer
		}{io.LimitReader(resp.Body, int64(len(body)-short)), resp.Body}
		body = body[:len(body)-short]
	}
	if rp.BodyStallNs > 0 && body != "" {
		resp.Body = &stallingBody{ReadCloser: resp.Body, stall: time.Duration(rp.BodyStallNs), done: make(chan struct{})}
	}
	if rp.NilHdr && len(resp.Header) == 0 {
		resp.Header = nil
	}
	if rp.UnknownLen && body == "" {
		resp.ContentLength = -1
		resp.Header.Del("Content-Length")
	}
	if rp.NoCL && !rp.Chunked && body != "" {
		if rp.ZeroLen {
			resp.ContentLength = 0
		} else if rp.TEIdentity {
			resp.TransferEncoding = []string{"identity"}
		}
	}
	return resp, body, nil
}

func (o *origin) RoundTrip(req *http.Request) (*http.Response, error) {
	rs := o.rs
	ctxN, have := req.Context().Value(exKey{}).(int)
	n, stream := rs.streamOf(ctxN, have)
	if have {
		n = ctxN
	}
	rs.mu.Lock()
	k := rs.calls[n]
	rs.calls[n] = k + 1
	rs.pending++
	var rp Reply
	found := false
	if n >= 0 && n < len(rs.h.Ops) && len(rs.h.Ops[n].Replies) > 0 {
		reps := rs.h.Ops[n].Replies
		rp = reps[min(k, len(reps)-1)]
		found = true
	}
	rs.mu.Unlock()
	if !found {
		rp = Reply{Status: 599, BodyFail: -1, Body: "unscripted"}
	}
	t0 := time.Now().UnixNano()
	method, urlStr, hdrs := req.Method, req.URL.String(), encHeader(req.Header)
	_, hasDeadline := req.Context().Deadline()
	if stream == "bg" {
		// work that outlives RoundTrip must not use the caller's request, its header map or its URL:
		// the caller may reuse them as soon as it has closed the response body
		rs.mu.Lock()
		caller := rs.callerReq[n]
		rs.mu.Unlock()
		if caller != nil {
			switch {
			case req == caller:
				rs.emit("O\tSHARE\t%d\trequest", n)
			case reflect.ValueOf(req.Header).Pointer() == reflect.ValueOf(caller.Header).Pointer() && req.Header != nil:
				rs.emit("O\tSHARE\t%d\theader", n)
			case req.URL == caller.URL:
				rs.emit("O\tSHARE\t%d\turl", n)
			case req.Body != nil && req.Body != http.NoBody && req.Body == caller.Body:
				rs.emit("O\tSHARE\t%d\tbody", n)
			}
		}
	}
	done := func(outcome string) {
		rs.mu.Lock()
		rs.pending--
		rs.mu.Unlock()
		dl := "nodl"
		if hasDeadline {
			dl = "dl"
		}
		rs.emit("O\tCALL\t%d\t%s\t%d\t%d\t%d\t%s\t%s\t%s\t%s\t%s", n, stream, k, t0, time.Now().UnixNano(),
			hx(method), hx(urlStr), hdrs, outcome, dl)
	}
	ctx := req.Context()
	if req.Cancel != nil { //nolint:staticcheck
		// net/http's transports honour the request's Cancel channel like the context: so does the scripted origin
		var stop context.CancelFunc
		ctx, stop = context.WithCancel(ctx)
		defer stop()
		go func(ch <-chan struct{}, done <-chan struct{}) {
			select {
			case <-ch:
				stop()
			case <-done:
			}
		}(req.Cancel, ctx.Done()) //nolint:staticcheck
	}
	if rp.Hang {
		// "never answers": until the context is cancelled; the harness itself gives up after 20
		// virtual minutes (recorded as a leak at quiescence time) so that a history always ends
		tm := time.NewTimer(20 * time.Minute)
		select {
		case <-ctx.Done():
			tm.Stop()
			done("cancel")
			return nil, ctx.Err()
		case <-tm.C:
			done("leak")
			return nil, errors.New("verif: origin never answered")
		}
	}
	if rp.DelayNs > 0 {
		tm := time.NewTimer(time.Duration(rp.DelayNs))
		select {
		case <-tm.C:
		case <-ctx.Done():
			tm.Stop()
			done("cancel")
			return nil, ctx.Err()
		}
	} else if ctx.Err() != nil {
		done("cancel")
		return nil, ctx.Err()
	}
	if rp.Err {
		done("err")
		return nil, errOrigin
	}
	if rp.NilResp {
		done("err")
		return nil, nil
	}
	resp, _, err := buildResponse(req, &rp, n, k)
	if err != nil {
		done("builderr")
		return nil, err
	}
	rs.noteDates(resp.Header)
	// (the instant of arrival as an HTTP-date — what a recipient records when the reply carries no usable Date,
	// RFC 9110 §6.6.1: the ghost of the monitors writes it, so the date glue must know it whatever the cache wrote)
	rs.noteDates(http.Header{"Date": {time.Now().UTC().Format(http.TimeFormat)}})
	// whoever receives a response must release it: read the body to its end (or to an error) or close it;
	// with a real transport an unreleased body pins its connection for ever
	// (a response without a body — 304, 204, HEAD, Content-Length: 0 — pins nothing)
	if resp.Body != http.NoBody {
		tb := &trackedBody{ReadCloser: resp.Body, n: n, stream: stream, k: k, ctx: ctx}
		resp.Body = tb
		rs.mu.Lock()
		rs.bodies = append(rs.bodies, tb)
		rs.mu.Unlock()
	}
	done("resp")
	return resp, nil
}

type trackedBody struct {
	io.ReadCloser
	n, k     int
	stream   string
	released atomic.Bool
	ctx      context.Context // a transport tears the connection down when the request's context ends
}

func (t *trackedBody) Read(p []byte) (int, error) {
	n, err := t.ReadCloser.Read(p)
	if err != nil {
		t.released.Store(true)
	}
	return n, err
}

func (t *trackedBody) Close() error {
	t.released.Store(true)
	return t.ReadCloser.Close()
}

/* ----------------------------- recording conn ----------------------------- */

type recConn struct{ rs *runState }

var errFault = errors.New("verif: injected store fault")

func (c *recConn) ctx() (int, string, int, *Fault) {
	rs := c.rs
	n, stream := rs.streamOf(0, false)
	rs.mu.Lock()
	defer rs.mu.Unlock()
	key := strconv.Itoa(n) + stream
	idx := rs.storeIdx[key]
	rs.storeIdx[key] = idx + 1
	if n >= 0 && n < len(rs.h.Ops) {
		for i := range rs.h.Ops[n].Faults {
			f := &rs.h.Ops[n].Faults[i]
			if f.Stream == stream && f.Idx == idx {
				return n, stream, idx, f
			}
		}
	}
	return n, stream, idx, nil
}

func indexString(s string) string {
	if rest, ok := strings.CutPrefix(s, "\x00b64:"); ok {
		if b, err := base64.RawStdEncoding.DecodeString(rest); err == nil {
			return string(b)
		}
	}
	return s
}

type jsonRef struct {
	ID           string            `json:"id"`
	Vary         string            `json:"vary"`
	VaryResolved map[string]string `json:"vary_resolved"`
	ReceivedAt   *time.Time        `json:"received_at"`
}

// describeValue decodes a stored value with the harness's own decoders (stdlib only).
func (rs *runState) describeValue(b []byte) string {
	tb := bytes.TrimSpace(b)
	if len(tb) > 0 && (tb[0] == '[' || bytes.Equal(tb, []byte("null"))) {
		var refs []*jsonRef
		if err := json.Unmarshal(b, &refs); err == nil {
			parts := make([]string, 0, len(refs))
			for _, r := range refs {
				if r == nil {
					parts = append(parts, "null")
					continue
				}
				// strings that are not valid UTF-8 are stored as "\x00b64:" + base64 (format of the index)
				r.ID, r.Vary = indexString(r.ID), indexString(r.Vary)
				dec := make(map[string]string, len(r.VaryResolved))
				for k, v := range r.VaryResolved {
					dec[indexString(k)] = indexString(v)
				}
				r.VaryResolved = dec
				keys := make([]string, 0, len(r.VaryResolved))
				for k := range r.VaryResolved {
					keys = append(keys, k)
				}
				sort.Strings(keys)
				kv := make([]string, 0, len(keys))
				for _, k := range keys {
					kv = append(kv, hx(k)+":"+hx(r.VaryResolved[k]))
				}
				res := strings.Join(kv, "+")
				if res == "" {
					res = "-"
				}
				ra := "-"
				if r.ReceivedAt != nil && !r.ReceivedAt.IsZero() {
					ra = itoa(r.ReceivedAt.UnixNano())
				}
				parts = append(parts, hx(r.ID)+","+hx(r.Vary)+","+res+","+ra)
			}
			s := strings.Join(parts, ";")
			if s == "" {
				s = "-"
			}
			return "idx\t" + strconv.Itoa(len(refs)) + "\t" + s
		}
	}
	if i := bytes.IndexByte(b, '\n'); i > 0 {
		meta := strings.Split(strings.TrimSpace(string(b[:i])), "\t")
		if len(meta) == 3 {
			// like ParseResponse, an unparsable timestamp is the zero time (year 1), not an error
			tns := func(s string) string {
				t, err := time.Parse(time.RFC3339Nano, s)
				if err != nil || t.Year() < 1700 || t.Year() > 2250 {
					if err != nil || t.IsZero() {
						return "-62135596800000000000"
					}
					return new(big.Int).Add(new(big.Int).Mul(big.NewInt(t.Unix()), big.NewInt(1_000_000_000)), big.NewInt(int64(t.Nanosecond()))).String()
				}
				return itoa(t.UnixNano())
			}
			resp, err := http.ReadResponse(bufio.NewReader(bytes.NewReader(b[i+1:])), nil)
			if err == nil {
				body, berr := io.ReadAll(resp.Body)
				be := "ok"
				if berr != nil {
					be = "bodyerr"
				}
				// the length the cache records for a body without framing of its own is part of the serialisation
				// (like the meta line), not a field of the stored response: checked and removed, as ParseResponse does
				// (it is the LAST line of that name: an origin field of the same name comes first and stays)
				bodyAllowed := resp.StatusCode >= 200 && resp.StatusCode != 204 && resp.StatusCode != 304
				if vs := resp.Header.Values("X-Httpcache-Stored-Body-Length"); len(vs) > 0 && bodyAllowed && resp.ContentLength < 0 && len(resp.TransferEncoding) == 0 {
					if n, err := strconv.Atoi(vs[len(vs)-1]); err != nil || n != len(body) {
						be = "bodyerr"
					}
					resp.Header.Del("X-Httpcache-Stored-Body-Length")
					if len(vs) > 1 {
						resp.Header["X-Httpcache-Stored-Body-Length"] = vs[:len(vs)-1]
					}
				}
				rs.noteDates(resp.Header)
				return "ent\t" + hx(meta[0]) + "\t" + tns(meta[1]) + "\t" + tns(meta[2]) + "\t" +
					strconv.Itoa(resp.StatusCode) + "\t" + encHeader(resp.Header) + "\t" + hx(bodyRepr(string(body))) + "\t" + be
			}
		}
	}
	p := b
	if len(p) > 48 {
		p = p[:48]
	}
	return "raw\t" + strconv.Itoa(len(b)) + "\t" + hx(string(p))
}

func errClass(err error) string {
	switch {
	case err == nil:
		return "ok"
	case errors.Is(err, driver.ErrNotExist):
		return "notexist"
	default:
		return "err"
	}
}

func (c *recConn) Get(key string) ([]byte, error) {
	n, stream, idx, f := c.ctx()
	var b []byte
	var err error
	switch {
	case f != nil && f.Kind == "fail":
		err = errFault
	case f != nil && f.Kind == "notexist":
		err = errors.Join(driver.ErrNotExist, errFault)
	case f != nil && f.Kind == "bytes":
		b, _ = hex.DecodeString(f.Bytes)
	case f != nil && f.Kind == "cl":
		b, err = c.rs.inner.Get(key)
		if err == nil {
			if i := bytes.Index(b, []byte("Content-Length: ")); i >= 0 {
				j := i + len("Content-Length: ")
				k := j
				for k < len(b) && b[k] >= '0' && b[k] <= '9' {
					k++
				}
				b = append(append(append([]byte{}, b[:j]...), []byte(f.Bytes)...), b[k:]...)
			}
		}
	case f != nil && (f.Kind == "trunc" || f.Kind == "flip"):
		b, err = c.rs.inner.Get(key)
		if err == nil {
			k, _ := strconv.Atoi(f.Bytes)
			if f.Kind == "trunc" {
				if k < 0 {
					k = max(len(b)+k, 0)
				}
				if k < len(b) {
					b = b[:k]
				}
			} else if len(b) > 0 {
				b[k%len(b)] ^= 0x20
			}
		}
	default:
		b, err = c.rs.inner.Get(key)
	}
	desc := "-"
	if err == nil {
		desc = c.rs.describeValue(b)
	}
	c.rs.emit("O\tSTORE\t%d\t%s\t%d\tget\t%s\t%s\t%s", n, stream, idx, hx(key), errClass(err), desc)
	return b, err
}

func (c *recConn) Set(key string, value []byte) error {
	n, stream, idx, f := c.ctx()
	var err error
	if f != nil && f.Kind == "fail" {
		err = errFault
	} else {
		if c.rs.h.Concurrent {
			// a backend may take its time before it copies the bytes: whoever handed them over must
			// leave them alone until Set returns (widens the window for a recycled buffer to show)
			runtime.Gosched()
			<-time.After(time.Microsecond)
		}
		err = c.rs.inner.Set(key, value)
	}
	c.rs.emit("O\tSTORE\t%d\t%s\t%d\tset\t%s\t%s\t%s", n, stream, idx, hx(key), errClass(err), c.rs.describeValue(value))
	return err
}

func (c *recConn) Delete(key string) error {
	n, stream, idx, f := c.ctx()
	var err error
	if f != nil && f.Kind == "fail" {
		err = errFault
	} else {
		err = c.rs.inner.Delete(key)
	}
	c.rs.emit("O\tSTORE\t%d\t%s\t%d\tdel\t%s\t%s\t-", n, stream, idx, hx(key), errClass(err))
	return err
}

var (
	regOnce sync.Once
	regMu   sync.Mutex
	regMap  = map[string]*runState{}
	regSeq  int
)

func registerDriver() {
	regOnce.Do(func() {
		store.Register("verifrec", driver.DriverFunc(func(u *url.URL) (driver.Conn, error) {
			regMu.Lock()
			rs := regMap[u.Query().Get("id")]
			regMu.Unlock()
			if rs == nil {
				return nil, errors.New("verifrec: unknown id")
			}
			return &recConn{rs}, nil
		}))
	})
}

/* ----------------------------- running a history ----------------------------- */

func (rs *runState) openInner() error {
	switch rs.h.Backend {
	case "", "mem":
		if rs.inner == nil {
			rs.inner = memcache.Open()
		}
		return nil
	case "fs", "fsenc":
		if rs.dir == "" {
			d, err := os.MkdirTemp("", "verif-fs-")
			if err != nil {
				return err
			}
			rs.dir = d
		}
		opts := []fscache.Option{fscache.WithBaseDir(rs.dir)}
		if rs.h.Backend == "fsenc" {
			opts = append(opts, fscache.WithEncryption(encKey))
		}
		c, err := fscache.Open("verif", opts...)
		if err != nil {
			return err
		}
		rs.inner = c
		return nil
	}
	return errors.New("unknown backend " + rs.h.Backend)
}

type reqSnap struct {
	method, url string
	hdr         string
}

// wireMethod: the generator's spelling "(empty)" stands for a request whose Method field is the empty string,
// which net/http documents to mean GET (http.NewRequest would normalise it, so it is set afterwards)
func wireMethod(m string) string {
	if m == "(empty)" {
		return ""
	}
	return m
}

func snap(r *http.Request) reqSnap { return reqSnap{r.Method, r.URL.String(), encHeader(r.Header)} }

// urlGlue: results of the stdlib calls makeURLKey relies on (url.Parse and
// ResolveReference), computed here with the standard library only.
// shownURL: the URL as text (with SetPath: what url.URL.String makes of the value the request carries)
func shownURL(op Op) string {
	if op.SetPath == "" && op.Host == "" {
		return op.URL
	}
	if u, err := opURL(op); err == nil {
		return u.String()
	}
	return op.URL
}

func urlGlue(u *url.URL) string {
	// the components url.Parse delivers (EscapedPath is the one stdlib call of makeURLKey on the path);
	// dot segments, percent-encoding, case and ports are the model's business
	fq := "0"
	if u.ForceQuery {
		fq = "1" // "/p?" : a query that is present and empty
	}
	return "ok\t" + hx(u.Scheme) + "\t" + hx(u.Host) + "\t" + hx(u.EscapedPath()) + "\t" + hx(u.RawQuery) + "\t" + hx(u.Opaque) + "\t" + fq
}

func runHistory(t *testing.T, h *History) (lines []string) {
	registerDriver()
	rs := &runState{h: h, callerReq: map[int]*http.Request{}, fgOf: map[int64]int{}, bgOf: map[int64]int{}, calls: map[int]int{}, storeIdx: map[string]int{},
		dates: map[string]struct{}{}, curN: -1}
	regMu.Lock()
	regSeq++
	id := strconv.Itoa(regSeq)
	regMap[id] = rs
	regMu.Unlock()
	defer func() {
		regMu.Lock()
		delete(regMap, id)
		regMu.Unlock()
		if rs.dir != "" {
			os.RemoveAll(rs.dir)
		}
	}()
	rs.emit("H\t%s\t%s\t%s\t%s\t%d\t%s", hx(h.ID), h.Prop, hx(h.Class), h.Backend, h.SWRTimeoutNs, h.Logger)
	if h.Concurrent {
		rs.emit("I\tCONC")
	}
	// inputs
	for n, op := range h.Ops {
		switch op.Op {
		case "req":
			u, err := opURL(op)
			glue := "bad\t-\t-\t-\t-\t-\t-"
			if err == nil {
				glue = urlGlue(u)
			}
			cancel := op.Cancel
			if cancel == "" {
				cancel = "-"
			}
			shownHdr := op.Hdr
			if op.RawKey && !(op.NilHeader && len(op.Hdr) == 0) {
				shownHdr = append(append(Hdr{}, op.Hdr...), [2]string{"x-trace-raw", "1"}) // under the key it has in the map
			}
			rs.emit("I\tREQ\t%d\t%d\t%s\t%s\t%s\t%s\t%s", n, op.AtNs, hx(wireMethod(op.Method)), hx(shownURL(op)), glue, encHdrList(shownHdr), cancel)
			// glue: the normal form of the q-value classes (Accept*, TE), which the model does not define;
			// it is what internal.NewVaryHeaderNormalizer makes of the request's combined field value
			for _, f := range qClassFields {
				if vs := hdrToHTTP(op.Hdr).Values(f); len(vs) > 0 {
					for _, nv := range internal.NewVaryHeaderNormalizer().NormalizeVaryHeader(f, hdrToHTTP(op.Hdr)) {
						rs.emit("I\tNORM\t%s\t%s\t%s", hx(f), hx(strings.Join(vs, ", ")), hx(nv))
					}
				}
			}
			for k, rp := range op.Replies {
				kind := "resp"
				if rp.Hang {
					kind = "hang"
				} else if rp.Err {
					kind = "err"
				}
				body := ""
				if hasBody(rp.Status, wireMethod(op.Method)) {
					body = tokenFor(n, k) + rp.Body
				}
				// as the transport sees them: net/textproto strips leading and trailing
				// spaces / tabs from field values read off the wire
				fr := Hdr{}
				for _, p := range rp.Hdr {
					fr = append(fr, [2]string{p[0], strings.Trim(p[1], " \t")})
				}
				if body != "" || hasBody(rp.Status, wireMethod(op.Method)) {
					if !rp.Chunked && !rp.NoCL {
						fr = append(fr, [2]string{"Content-Length", strconv.Itoa(len(body))})
					}
				}
				if short := shortBy(&rp, body); short > 0 && kind == "resp" {
					// the model and the monitors see what the upstream delivers: the declared length and the shorter body
					kind, body = "resp-short", body[:len(body)-short]
				}
				rs.emit("I\tREPLY\t%d\t%d\t%s\t%d\t%s\t%s\t%d\t%d", n, k, kind, rp.Status, encHdrList(fr), hx(bodyRepr(body)), rp.DelayNs, rp.BodyFail)
				frame := "cl"
				if rp.Chunked {
					frame = "chunked"
				} else if rp.NoCL {
					frame = "close"
				}
				tr := Hdr{}
				if rp.Chunked && body != "" {
					tr = rp.Trailer
				}
				rs.emit("I\tFRAME\t%d\t%d\t%s\t%s", n, k, frame, encHdrList(tr))
				rs.noteDates(hdrToHTTP(rp.Hdr))
				for _, hn := range []string{"Location", "Content-Location"} {
					for _, p := range rp.Hdr {
						if http.CanonicalHeaderKey(p[0]) == hn && err == nil {
							rs.emit("I\tLOC\t%d\t%d\t%s\t%s", n, k, hx(hn), locGlue(u, p[1]))
							break
						}
					}
				}
			}
			for _, f := range op.Faults {
				by := f.Bytes
				if by == "" {
					by = "-"
				}
				desc := "-"
				if f.Kind == "bytes" {
					raw, _ := hex.DecodeString(f.Bytes)
					desc = rs.describeValue(raw)
				}
				rs.emit("I\tFAULT\t%d\t%s\t%d\t%s\t%s", n, f.Stream, f.Idx, f.Kind, desc)
			}
		case "reopen":
			rs.emit("I\tREOPEN\t%d\t%d", n, op.AtNs)
		}
	}

	synctest.Test(t, func(t *testing.T) {
		if err := rs.openInner(); err != nil {
			rs.emit("O\tFATAL\t%s", hx(err.Error()))
			return
		}
		opts := []httpcache.Option{httpcache.WithUpstream(&origin{rs})}
		if h.SWRTimeoutNs != 0 {
			opts = append(opts, httpcache.WithSWRTimeout(time.Duration(h.SWRTimeoutNs)))
		}
		if h.Logger == "debug" {
			opts = append(opts, httpcache.WithLogger(slog.New(slog.NewTextHandler(io.Discard, &slog.HandlerOptions{Level: slog.LevelDebug}))))
		}
		tr := httpcache.NewTransport("verifrec://?id="+id, opts...)
		start := time.Now()
		rs.emit("O\tT0\t%d", start.UnixNano())
		cancels := make([]context.CancelFunc, len(h.Ops))
		for i := range cancels {
			cancels[i] = func() {}
		}
		type owned struct {
			n    int
			resp *http.Response
			hdrs string
		}
		var ownMu sync.Mutex
		var returned []owned
		raceMode := os.Getenv("VERIF_RACE") == "1"
		doExchange := func(n int, op Op) {
			ctx, cancel := context.WithCancel(context.WithValue(context.Background(), exKey{}, n))
			if d, ok := strings.CutPrefix(op.Cancel, "dl:"); ok {
				// the caller's own deadline, d nanoseconds from now
				ns, _ := strconv.ParseInt(d, 10, 64)
				inner := cancel
				var c2 context.CancelFunc
				ctx, c2 = context.WithTimeout(ctx, time.Duration(ns))
				cancel = func() { c2(); inner() }
			}
			cancels[n] = cancel
			if op.Cancel == "before" {
				cancel()
			}
			req, err := http.NewRequestWithContext(ctx, wireMethod(op.Method), op.URL, nil)
			if err != nil {
				rs.emit("O\tRES\t%d\t0\t0\tbadreq\t0\t-\t-\t-", n)
				return
			}
			if op.SetPath != "" {
				req.URL.Path, req.URL.RawPath = op.SetPath, ""
			}
			if op.Host != "" {
				req.Host = op.Host
			}
			if op.NilHeader && len(op.Hdr) == 0 {
				req.Header = nil
			}
			if op.Method == "(empty)" {
				req.Method = ""
			}
			if strings.HasPrefix(op.Cancel, "chan-") {
				ch := make(chan struct{})
				req.Cancel = ch //nolint:staticcheck // the deprecated channel is exactly what is under test
				inner := cancels[n]
				var once sync.Once
				cancels[n] = func() { once.Do(func() { close(ch) }); inner() }
				if op.Cancel == "chan-before" {
					once.Do(func() { close(ch) })
				}
			}
			if op.ReqBody != "" {
				req.Body = io.NopCloser(strings.NewReader(op.ReqBody))
				req.ContentLength = int64(len(op.ReqBody))
			}
			for _, p := range op.Hdr {
				req.Header.Add(p[0], p[1])
			}
			if op.RawKey && req.Header != nil {
				req.Header["x-trace-raw"] = []string{"1"}
			}
			before := snap(req)
			g := goid()
			rs.mu.Lock()
			rs.curN = n
			rs.fgOf[g] = n
			rs.callerReq[n] = req
			rs.mu.Unlock()
			t0 := time.Now().UnixNano()
			var resp *http.Response
			var rerr error
			var pan any
			func() {
				defer func() { pan = recover() }()
				resp, rerr = tr.RoundTrip(req)
			}()
			t1 := time.Now().UnixNano()
			rs.mu.Lock()
			delete(rs.fgOf, g)
			rs.mu.Unlock()
			switch {
			case pan != nil:
				rs.emit("O\tRES\t%d\t%d\t%d\tpanic\t0\t-\t%s\t-", n, t0, t1, hx(fmt.Sprint(pan)))
			case rerr != nil && resp != nil:
				rs.emit("O\tRES\t%d\t%d\t%d\tboth\t0\t-\t%s\t-", n, t0, t1, hx(rerr.Error()))
			case rerr != nil:
				cls := "other"
				if errors.Is(rerr, errOrigin) {
					cls = "origin"
				} else if errors.Is(rerr, context.Canceled) || errors.Is(rerr, context.DeadlineExceeded) {
					cls = "ctx"
				}
				rs.emit("O\tRES\t%d\t%d\t%d\terr\t0\t-\t%s\t-", n, t0, t1, cls)
			case resp == nil:
				rs.emit("O\tRES\t%d\t%d\t%d\tneither\t0\t-\t-\t-", n, t0, t1)
			default:
				hdrs := encHeader(resp.Header)
				rs.noteDates(resp.Header)
				ownMu.Lock()
				// a response belongs to its caller: no two calls may be handed the same header map
				if resp.Header != nil {
					hp := reflect.ValueOf(resp.Header).Pointer()
					for _, o := range returned {
						if o.resp.Header != nil && reflect.ValueOf(o.resp.Header).Pointer() == hp {
							rs.emit("O\tSHARE\t%d\tresponse-header-of-exchange-%d", n, o.n)
							break
						}
					}
				}
				returned = append(returned, owned{n, resp, hdrs})
				ownMu.Unlock()
				if raceMode {
					// an adversarial caller: keeps writing its response's header map while any
					// background work of the cache runs; the race detector reports a cache that still touches it
					go func() {
						for i := 0; i < 20; i++ {
							resp.Header.Set("X-Caller-Owned", strconv.Itoa(i))
							<-time.After(100 * time.Millisecond)
						}
					}()
				}
				be := "ok"
				var body []byte
				if resp.Body != nil {
					var berr error
					body, berr = io.ReadAll(resp.Body)
					if berr != nil {
						be = "bodyerr"
					}
					resp.Body.Close()
				}
				rs.emit("O\tRES\t%d\t%d\t%d\tresp\t%d\t%s\t%s\t%s", n, t0, t1, resp.StatusCode, hdrs, hx(bodyRepr(string(body))), be)
				rs.emit("O\tTRAILER\t%d\t%s", n, encHeader(resp.Trailer))
			}
			if after := snap(req); after != before {
				rs.emit("O\tREQCMP\t%d\tchanged", n)
			} else {
				rs.emit("O\tREQCMP\t%d\tsame", n)
			}
		}
		for n, op := range h.Ops {
			if d := time.Duration(op.AtNs) - time.Since(start); d > 0 {
				<-time.After(d)
				synctest.Wait()
			}
			switch op.Op {
			case "reopen":
				if h.Backend == "fs" || h.Backend == "fsenc" {
					if err := rs.openInner(); err != nil {
						rs.emit("O\tFATAL\t%s", hx(err.Error()))
						return
					}
				}
			case "req":
				// a concurrent group: consecutive requests issued at the same instant
				if h.Concurrent && n > 0 && h.Ops[n-1].Op == "req" && h.Ops[n-1].AtNs == op.AtNs {
					continue // already issued with its group
				}
				group := []int{n}
				if h.Concurrent {
					for m := n + 1; m < len(h.Ops) && h.Ops[m].Op == "req" && h.Ops[m].AtNs == op.AtNs; m++ {
						group = append(group, m)
					}
				}
				if len(group) == 1 {
					doExchange(n, op)
				} else {
					var wg sync.WaitGroup
					for _, m := range group {
						wg.Add(1)
						go func(m int) {
							defer wg.Done()
							doExchange(m, h.Ops[m])
						}(m)
					}
					wg.Wait()
				}
				synctest.Wait()
				for _, m := range group {
					if h.Ops[m].Cancel == "after" {
						cancels[m]()
					}
					if h.Ops[m].Cancel == "chan-after" {
						cancels[m]() // closes the Request.Cancel channel (and the context of the finished call)
					}
				}
				synctest.Wait()
			}
		}
		// quiescence: let every background task run into its timeout, then look for leftovers
		<-time.After(10 * time.Minute)
		synctest.Wait()
		rs.mu.Lock()
		leak := rs.pending
		rs.mu.Unlock()
		rs.emit("O\tLEAK\t%d", leak)
		rs.mu.Lock()
		bodies := rs.bodies
		rs.mu.Unlock()
		for _, tb := range bodies {
			// (a BACKGROUND request's context is always cancelled in the end — by the cache itself, when its goroutine
			// returns: that is not a release. net/http's transports do tear the connection down then; an upstream that
			// frees what it holds on Close or EOF only, as the RoundTripper contract allows it to, is left holding it)
			if !tb.released.Load() && (tb.ctx.Err() == nil || tb.stream == "bg") {
				rs.emit("O\tBODYLEAK\t%d\t%s\t%d", tb.n, tb.stream, tb.k)
			}
		}
		// what the backing store holds once everything has come to rest
		if kl, ok := rs.inner.(interface {
			Keys(prefix string) ([]string, error)
		}); ok {
			if ks, err := kl.Keys(""); err == nil {
				sort.Strings(ks)
				hs := make([]string, len(ks))
				for i, k := range ks {
					hs[i] = hx(k)
				}
				rs.emit("O\tKEYS\t%s", strings.Join(hs, ","))
			}
		}
		// once returned, a response belongs to the caller: its header map must be what it was at return
		if !raceMode {
			for _, o := range returned {
				if now := encHeader(o.resp.Header); now != o.hdrs {
					rs.emit("O\tOWN\t%d\tchanged\t%s", o.n, now)
				}
			}
		}
		for _, c := range cancels {
			c()
		}
		synctest.Wait()
	})
	// glue: every date-like string seen anywhere, parsed with net/http
	rs.mu.Lock()
	ds := make([]string, 0, len(rs.dates))
	for d := range rs.dates {
		ds = append(ds, d)
	}
	rs.mu.Unlock()
	sort.Strings(ds)
	for _, d := range ds {
		// an HTTP-date is always in GMT (RFC 9110 §5.6.7): what http.ParseTime makes of another zone abbreviation
		// in the obsolete rfc850 layout depends on the zone of the process and is not a date at all
		if tm, err := http.ParseTime(d); err == nil && isGMTDate(d) {
			rs.emit("I\tDATE\t%s\t%d", hx(d), tm.Unix())
		} else {
			rs.emit("I\tDATE\t%s\tx", hx(d))
		}
	}
	rs.emit("E\t%s", hx(h.ID))
	return rs.lines
}

// isGMTDate: by the TEXT of the value, not by what the time library reports for the parsed instant (which, for the
// rfc850 layout, depends on the abbreviation table of the process's zone): the IMF-fixdate and rfc850 forms end in
// "GMT", the asctime form ends in the year and has no zone at all
func isGMTDate(d string) bool {
	d = strings.TrimSpace(d)
	if strings.HasSuffix(d, "GMT") {
		return true
	}
	return len(d) > 0 && d[len(d)-1] >= '0' && d[len(d)-1] <= '9' && !strings.ContainsAny(d, "+,")
}

func hdrToHTTP(h Hdr) http.Header {
	out := http.Header{}
	for _, p := range h {
		out.Add(p[0], p[1])
	}
	return out
}

// locGlue: url.Parse of a Location-like value.
var qClassFields = []string{"Accept", "Accept-Charset", "Accept-Language", "Accept-Encoding", "Te", "Content-Encoding"}

// uriBytes: a reference as it is written, with the bytes that cannot occur in a URI at all (space, controls,
// non-ASCII, and "<>\^`{|}) percent-encoded and everything else — existing escapes, sub-delims — left as it
// is (the RFC 3987 §3.1 mapping). This is the reference the field "names"; url.Parse's own re-encoding of such a
// value also escapes "!'()*" and turns "%2F" into a slash, which names another URI.
//
// Only up to the query: a query is kept byte for byte on the request side (url.Parse leaves RawQuery as written,
// net/http sends it as written, and the key of a request URL holds those bytes — raw "|" and "%7C" are different
// query bytes, C03), so a field value and a request URL with the same spelling name the same resource only if the
// field value's query is taken as written too (fifth hunt: `Location: /list?ids=1|2`).
func uriBytes(s string) string {
	var b strings.Builder
	end := strings.IndexAny(s, "?#")
	if end < 0 {
		end = len(s)
	}
	for i := 0; i < len(s); i++ {
		c := s[i]
		if i >= end {
			b.WriteByte(c)
			continue
		}
		if c <= 0x20 || c >= 0x7f || strings.IndexByte("\"<>\\^`{|}", c) >= 0 {
			fmt.Fprintf(&b, "%%%02X", c)
		} else {
			b.WriteByte(c)
		}
	}
	return b.String()
}

func locGlue(reqURL *url.URL, loc string) string {
	lu, err := url.Parse(uriBytes(loc))
	if err != nil {
		return "bad\t-\t-\t-\t-\t-\t-\t-"
	}
	// the components of the reference as url.Parse delivers them, UNRESOLVED: resolving it against the request
	// URL (RFC 3986 §5.2.2) is the model's and the specification's business, like every other URL normalisation
	_ = reqURL
	return "ok\t" + hx(lu.Scheme) + "\t" + hx(lu.Host) + "\t" + urlGlue(lu)
}
