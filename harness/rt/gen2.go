package zzverif

// Random multi-resource histories: URL spellings, methods, Vary, invalidation, store faults.

import (
	"encoding/hex"
	"fmt"
	"strconv"
	"strings"
)

type resource struct {
	spellings []string // equivalent spellings of one resource
	nearMiss  []string // look-alikes that are DIFFERENT resources
}

var resources = []resource{
	{
		spellings: []string{
			"http://a.test/p1", "HTTP://A.TEST/p1", "http://a.test:80/p1", "http://a.test/%701", "http://a.test/./p1",
			"http://a.test/x/../p1", "http://a.test/p1#frag", "http://A.test:/p1", "http://a.test/p%31", "http://user@a.test/p1",
		},
		nearMiss: []string{
			"http://a.test/p1/", "http://a.test:8080/p1", "https://a.test/p1", "http://a.test/P1", "http://a.test/p1?",
			"http://a.test/p1?x", "http://a.test/p1%2F", "http://a.test/p1%2f", "http://a.tes/p1", "http://a.test//p1",
			"http://a.test/p1%00", "http://a.test/p%C3%A9", "http://a.test/p%E9",
		},
	},
	{
		spellings: []string{
			"http://a.test/q?x=1&y=%7e", "http://a.test/q?x=1&y=~", "http://A.test/q?x=1&y=%7E", "http://a.test:80/q?x=1&y=~#f",
		},
		nearMiss: []string{
			"http://a.test/q?y=~&x=1", "http://a.test/q?x=1&y=%7f", "http://a.test/q?X=1&y=~", "http://a.test/q?x=1&y=%2F",
			"http://a.test/q?x=1&y=/", "http://a.test/q?x=%E9", "http://a.test/q?x=é", "http://a.test/q?x=%C3%A9", "http://a.test/q",
		},
	},
	{
		spellings: []string{"https://b.test/", "https://b.test", "https://B.TEST:443/", "https://b.test/.", "https://b.test:443", "https://b.test/%2E"},
		nearMiss:  []string{"http://b.test/", "https://b.test:80/", "https://b.test:4430/", "https://b.test//", "https://c.b.test/"},
	},
	{
		spellings: []string{"http://[::1]:8080/v6", "http://[::1]:8080/./v6"},
		nearMiss:  []string{"http://[::1:8080]/v6", "http://[::1]/v6", "http://[::1]:80/v6", "http://[0::1]:8080/v6", "http://[::1%25eth0]:8080/v6"},
	},
}

// selecting-header pools by normalisation class (q-value classes are not generated here)
var varyFields = []string{"X-A", "X-B", "Content-Language", "User-Agent", "Authorization", "If-Unmodified-Since", "Accept-Encoding", "Te", "Accept"}

var fieldValues = map[string][]string{
	"X-A":              {"1", "2", "1X-B2", "", "a, b", "b, a", "1 ", "é", "caf\xe9", "caf\xe8"},
	"X-B":              {"2", "1", "", "x"},
	// (members that differ in ONE byte outside ASCII — obs-text is legal in a field value — are different members)
	"Content-Language": {"en, fr", "fr,en", "fr ,  en", "en", "EN", "en, fr, en", "en, x-caf\xe9", "en, x-caf\xe8", "x-caf\xe9,en"},
	"User-Agent":       {"Go-Client/1", "go-client/1", "GO-CLIENT/1", "other", "caf\xe9/1.0", "caf\xe8/1.0", "CAF\xe9/1.0"},
	"Authorization": {"Basic abc", "BASIC abc", "basic abc", "Basic ABC", "Bearer t",
		// credentials with auth-params: everything after the scheme is the credential, not only its first word
		`Digest username="alice", realm="x", response="1"`, `Digest username="bob", realm="x", response="2"`, `DIGEST username="alice", realm="x", response="1"`},
	"If-Unmodified-Since": {"Sat, 01 Jan 2000 00:00:00 GMT", " Sat, 01 Jan 2000 00:00:00 GMT ", "Sun, 02 Jan 2000 00:00:00 GMT"},
	// the q-value classes: plain token lists (whose equivalence is order, white space, duplicates and the
	// x-gzip / x-compress aliases, whatever a cache makes of q-values) and a few weighted ones
	"Accept-Encoding": {"gzip, br", "br, gzip", "br,gzip", "gzip", "x-gzip, br", "xx-gzip", "xgzip", "gzip;q=0.5, br", "br, gzip;q=0.5", "identity",
		"gzip, x-caf\xe9", "gzip, x-caf\xe8", "x-caf\xe9, gzip"},
	"Te":              {"trailers, gzip", "gzip, trailers", "gzip,trailers", "trailers", "x-gzip, trailers"},
	"Accept": {"text/html, application/json", "application/json, text/html", "text/html", "text/html;q=0.9, */*;q=0.1",
		// media-type parameters belong to the member: these are four different requests (and the last two are one)
		"text/plain;charset=utf-8, text/plain", "text/plain;charset=utf-8", "text/plain", "application/json;version=1, application/json;version=2",
		"application/json;version=1", "text/x;a=1;b=2", "text/x;b=2;a=1",
		// optional white space around the ";" of a parameter (RFC 9110 §5.6.6: OWS ";" OWS) is spelling
		"text/plain ;charset=utf-8", "text/plain ; charset=utf-8", "text/x ;a=1 ; b=2", "application/json ;version=1",
		"text/html, x/caf\xe9", "text/html, x/caf\xe8",
		// a parameter value may be a quoted-string: a ";" or "," inside it is a byte of the value
		`text/html;title="a;b"`, `text/html;title="a; b"`, `x/y;a="1;b=2";c=3`, `x/y;a="1;c=3;b=2"`, `x/y;c=3;a="1;b=2"`, `text/plain;title="x,y"`, `text/plain;title="x"`},
}

var varyConfigs = []string{"", "X-A", "X-A, X-B", "X-B, X-A", "x-a", "*", "X-A, *", "Content-Language", "User-Agent", "Authorization",
	"X-A|X-B", "If-Unmodified-Since", "X-A,,X-B", "Accept-Encoding", "TE", "Accept", "accept-encoding, X-A",
	// fields the cache itself adds to a validation request; names that are not tokens / not valid UTF-8
	"If-None-Match", "If-Modified-Since", "X-A, If-None-Match",
	// a field line that is not Vary syntax (a stray quote) in front of a "*" line: the "*" still counts
	"X-A\"|*", "\"|X-A, *", "X-\xe9", "*, X-\xe9", "X-A, x-\xff\xfe",
	// … or in front of a well-formed line: a Vary value is a list of field names, there is no quoted-string in it
	// that could reach over the comma (let alone over the field line) and swallow the names that follow
	"X-C\"|X-A", "X-C\"|X-A", "X-C\", X-A", "\"x|X-B, X-A"}

// method tokens are case-sensitive: "get" is an extension method, not GET
var unsafeMethods = []string{"POST", "PUT", "DELETE", "PATCH", "PROPPATCH", "MKCOL", "FOO", "post", "get", "Get", "gEt", "(empty)"}
var safeOtherMethods = []string{"HEAD", "OPTIONS", "TRACE", "PROPFIND", "REPORT", "SEARCH"}

func (g *G) reqHeaders(fields []string) Hdr {
	var h Hdr
	for _, f := range fields {
		if g.chance(0.7) {
			h = append(h, [2]string{f, pick(g, fieldValues[f]...)})
			if g.chance(0.08) {
				h = append(h, [2]string{f, pick(g, fieldValues[f]...)}) // a second field line
			}
		}
	}
	return h
}

func varyHdr(cfg string) Hdr {
	if cfg == "" {
		return nil
	}
	var h Hdr
	for _, line := range strings.Split(cfg, "|") {
		h = append(h, [2]string{"Vary", line})
	}
	return h
}

// cacheableReply: a 200 with explicit freshness and the given Vary configuration
func (g *G) cacheableReply(at int64, vary string, lifetime int64) Reply {
	h := Hdr{{"Date", dateAt(at, 0)}}
	cc := "max-age=" + strconv.FormatInt(lifetime, 10)
	if g.chance(0.2) {
		cc += ", stale-while-revalidate=" + pick(g, "5", "60")
	}
	h = append(h, [2]string{"Cache-Control", cc})
	if g.chance(0.6) {
		h = append(h, [2]string{"Etag", `"e` + strconv.Itoa(g.r.Intn(3)) + `"`})
	} else if g.chance(0.3) {
		h = append(h, [2]string{"Etag", `"u` + strconv.FormatInt(at, 10) + `"`}) // a new ETag with every answer
	}
	h = append(h, varyHdr(vary)...)
	return Reply{Status: 200, Hdr: h, Body: "b", BodyFail: -1}
}

func (g *G) genRandom(id string, opt randOpt) *History {
	h := &History{ID: id, Prop: g.prop, Class: opt.class, Backend: "mem", Logger: "discard"}
	if opt.backends {
		h.Backend = pick(g, "mem", "fs", "fsenc")
	}
	if g.chance(0.1) {
		h.Logger = "debug"
	}
	nres := 1 + g.r.Intn(opt.maxRes)
	res := make([]int, nres)
	resources := resources
	if opt.nearMiss || opt.grammar {
		// half of the resources come from the URL grammar (gen4.go)
		resources = append([]resource{}, resources...)
		for i := 0; i < 4; i++ {
			resources = append(resources, g.genResource())
		}
	}
	for i := range res {
		res[i] = g.r.Intn(len(resources))
	}
	vary := make([]string, nres)
	for i := range vary {
		if opt.vary {
			vary[i] = pick(g, varyConfigs...)
		}
	}
	nops := 2 + g.r.Intn(opt.maxOps-1)
	at := int64(0)
	for n := 0; n < nops; n++ {
		ri := g.r.Intn(nres)
		r := resources[res[ri]]
		url := pick(g, r.spellings...)
		if opt.nearMiss && g.chance(0.3) {
			url = pick(g, r.nearMiss...)
		}
		if opt.faults && g.chance(0.04) {
			// what url.Parse accepts without a scheme or a host: the typed-in "example.com/x", a path, a network-path reference
			url = pick(g, "example.com/index.html", "/relative/path", "//a.test/x", "a.test", "?q=1", "mailto:user@a.test", "http:///nohost")
		}
		if opt.vary && g.chance(0.15) {
			vary[ri] = pick(g, varyConfigs...) // the origin changes its Vary over time
		}
		method := "GET"
		var hdr Hdr
		if opt.vary {
			hdr = g.reqHeaders(varyFields)
		}
		if opt.methods && g.chance(0.3) {
			method = pick(g, append(append([]string{}, unsafeMethods...), safeOtherMethods...)...)
		}
		if opt.methods && g.chance(0.07) {
			if g.chance(0.3) {
				// a Range field whose first field line is empty is still a Range request
				hdr = append(hdr, [2]string{"Range", ""})
			}
			hdr = append(hdr, [2]string{"Range", "bytes=0-1"})
		}
		bypass := method != "GET" || len(hdrToHTTP(hdr).Values("Range")) > 0
		switch {
		case bypass && g.prop == "C18" && g.chance(0.5):
			// requests the cache does not handle itself, with only-if-cached anywhere in the field: first, last,
			// on a line of its own behind other directives, with an argument
			cc := []string{pick(g, "no-store", "max-age=0", "no-transform", `ext="a, b"`)}
			oic := pick(g, "only-if-cached", "Only-If-Cached", "only-if-cached=1")
			if g.chance(0.5) {
				cc = append(cc, oic)
			} else {
				cc = append([]string{oic}, cc...)
			}
			if g.chance(0.15) {
				// a malformed first element: on a line of its own it swallows nothing, on one line with the rest it
				// swallows everything behind it (same joined text, different meaning)
				cc = append([]string{`ext="v`}, cc...)
				if g.chance(0.5) {
					hdr = append(hdr, [2]string{"Cache-Control", strings.Join(cc, ",")})
					cc = nil
				}
			}
			if len(cc) == 0 {
			} else if g.chance(0.6) {
				for _, d := range cc {
					hdr = append(hdr, [2]string{"Cache-Control", d})
				}
			} else {
				hdr = append(hdr, [2]string{"Cache-Control", ccJoin(cc)})
			}
		case g.chance(0.15):
			if cc := g.genReqCC(); len(cc) > 0 {
				hdr = append(hdr, g.ccLines(cc)...)
			}
		}
		if opt.methods && g.chance(0.05) {
			hdr = append(hdr, [2]string{"If-None-Match", `"e0"`})
		}
		var rp Reply
		switch {
		case method != "GET":
			st := pick(g, 200, 201, 204, 301, 303, 400, 404, 500, 199)
			hh := Hdr{{"Date", dateAt(at, 0)}}
			if g.chance(0.5) {
				loc := pick(g, pick(g, r.spellings...), "/p1", "p1", "../p1", "//a.test/p1", "http://other.test/p1", "%zz", "http://a.test:8080/p1", "")
				if g.chance(0.35) {
					// another resource of this history, in any of its spellings (with and without the default port): when it
					// is of the same origin as the target it must be invalidated too
					loc = pick(g, resources[res[g.r.Intn(nres)]].spellings...)
				}
				hh = append(hh, [2]string{pick(g, "Location", "Content-Location"), loc})
			}
			if g.chance(0.2) {
				hh = append(hh, [2]string{"Content-Location", pick(g, resources[res[g.r.Intn(nres)]].spellings...)})
			}
			if g.chance(0.2) {
				// both fields, in either order: one names another origin, the other a stored resource of this one
				other := [2]string{"Location", pick(g, "http://other.test/p1", "https://a.test/p1", "http://a.test:8080/p1")}
				// ... preferably ANOTHER resource of this history (the target itself is invalidated anyway)
				same := [2]string{"Content-Location", pick(g, resources[res[(ri+1)%nres]].spellings...)}
				if g.chance(0.3) {
					other[0], same[0] = same[0], other[0]
				}
				hh = Hdr{{"Date", dateAt(at, 0)}, other, same}
				if g.chance(0.5) {
					hh = Hdr{{"Date", dateAt(at, 0)}, same, other}
				}
			}
			rp = Reply{Status: st, Hdr: hh, Body: "m", BodyFail: -1}
		case opt.statuses && g.chance(0.3):
			st := g.genStored("")
			st.vary = vary[ri]
			rp = st.reply(at, "s")
			if g.chance(0.1) {
				rp.BodyFail = g.r.Intn(8)
			}
		default:
			rp = g.cacheableReply(at, vary[ri], pick(g, int64(30), 60, 3600))
			if g.chance(0.25) {
				rp = Reply{Status: 304, Hdr: Hdr{{"Date", dateAt(at, 0)}, {"X-New", "n"}}, BodyFail: -1}
				if opt.vary && g.chance(0.4) {
					// a 304 carries the Vary of the 200 it stands for (RFC 9110 §15.4.5) — the current one, which may
					// differ from the stored response's
					v304 := pick(g, vary[ri], vary[ri], pick(g, varyConfigs...))
					if vary[ri] != "" && !strings.ContainsAny(vary[ri], "|*\"") && g.chance(0.3) {
						// the stored Vary on the first field line, one more nominated field on a second line
						v304 = vary[ri] + "|" + pick(g, "X-B", "User-Agent", "Content-Language")
					}
					rp.Hdr = append(rp.Hdr, varyHdr(v304)...)
					// (… and sometimes forbids storing: a changed Vary does not lift that)
					rp.Hdr = append(rp.Hdr, [2]string{"Cache-Control", pick(g, "max-age=600", "max-age=600", "max-age=600", "no-store", "no-store, max-age=600")})
				}
			}
		}
		op := Op{Op: "req", AtNs: at, Method: method, URL: url, Hdr: hdr, Replies: []Reply{rp}}
		if opt.faults && g.chance(0.35) {
			op.Faults = g.genFaults()
		}
		h.Ops = append(h.Ops, op)
		if opt.backends && (h.Backend != "mem") && g.chance(0.2) {
			h.Ops = append(h.Ops, Op{Op: "reopen", AtNs: at})
		}
		at += pick(g, int64(1), 5, 20, 40, 100, 4000) * sec
	}
	return h
}

type randOpt struct {
	grammar                                             bool
	class                                               string
	maxRes, maxOps                                      int
	vary, methods, nearMiss, statuses, faults, backends bool
}

var junkValues = []string{"[null]", "[]", "{}", "null", "[{\"id\":5}]", "[{\"id\":\"x\",\"vary\":\"\",\"vary_resolved\":null}]", "\"str\"", "[",
	"not json", "", "x\ty\tz\nHTTP/1.1 200 OK\r\n\r\n", "id\t2000-01-01T00:00:00Z\t2000-01-01T00:00:00Z\nHTTP/1.1 200 OK\r\nContent-Length: 5\r\n\r\nab",
	"id\tjunk\tjunk\nHTTP/1.1 200 OK\r\nContent-Length: 2\r\n\r\nab", "a\tb\n", "\n", "HTTP/1.1 200 OK\r\n\r\n",
	"[{\"id\":\"http://a.test/p1#0\",\"vary\":\"\",\"vary_resolved\":{},\"received_at\":\"2000-01-01T00:00:00Z\"},null]"}

func (g *G) genFaults() []Fault {
	var fs []Fault
	n := 1 + g.r.Intn(2)
	for i := 0; i < n; i++ {
		f := Fault{Stream: pick(g, "fg", "fg", "fg", "bg"), Idx: g.r.Intn(4)}
		switch g.r.Intn(6) {
		case 0:
			f.Kind = "fail"
		case 1:
			f.Kind = "notexist"
		case 2:
			f.Kind = "bytes"
			f.Bytes = hex.EncodeToString([]byte(pick(g, junkValues...)))
		case 3:
			f.Kind = "trunc"
			f.Bytes = strconv.Itoa(g.r.Intn(120))
			if g.chance(0.5) {
				// cut the END of the stored bytes (the body, its last chunk, the chunked terminator)
				f.Bytes = pick(g, "-1", "-2", "-3", "-5", "-7", "-12", "-20")
			}
		case 4:
			if g.chance(0.5) {
				// the Content-Length line of the stored entry damaged into an absurd number: the entry still parses as HTTP
				f.Kind = "cl"
				f.Bytes = pick(g, "9223372036854775807", "1125899906842624", "99999999999999999999", "18446744073709551615", "281474976710656")
				break
			}
			fallthrough
		default:
			f.Kind = "flip"
			f.Bytes = strconv.Itoa(g.r.Intn(200))
		}
		fs = append(fs, f)
	}
	return fs
}

// genRepeat: a small fixed request alphabet repeated many times (footprint must not grow)
func (g *G) genRepeat(id string) *History {
	h := &History{ID: id, Prop: g.prop, Class: "repeat", Backend: "mem", Logger: "discard"}
	type combo struct {
		url string
		hdr Hdr
	}
	nres := 1 + g.r.Intn(2)
	var alphabet []combo
	var vary []string
	for i := 0; i < nres; i++ {
		r := resources[g.r.Intn(len(resources))]
		v := pick(g, "", "X-A", "*", "X-A, X-B", "X-A, *", "Content-Language")
		for j := 0; j < 1+g.r.Intn(3); j++ {
			alphabet = append(alphabet, combo{pick(g, r.spellings...), g.reqHeaders([]string{"X-A", "X-B", "Content-Language"})})
			vary = append(vary, v)
		}
	}
	n := 20 + g.r.Intn(60)
	if g.tier == "thorough" {
		n = 100 + g.r.Intn(400)
	}
	at := int64(0)
	life := pick(g, int64(0), 5, 30, 3600)
	for i := 0; i < n; i++ {
		k := g.r.Intn(len(alphabet))
		c := alphabet[k]
		v := vary[k]
		if g.chance(0.05) {
			v = pick(g, "", "X-A", "*", "X-B")
		}
		if strings.Contains(v, "*") && g.chance(0.5) {
			// the same unusable variant {*} in ever new spellings: the request alphabet does not change
			v = pick(g, v+", X-N"+strconv.Itoa(i), strings.Repeat("*,", i%7)+"*", v+strings.Repeat(" ", i%5)+",*")
		}
		method := "GET"
		if g.chance(0.04) {
			method = pick(g, "POST", "DELETE")
		}
		var rp Reply
		if method == "GET" {
			rp = g.cacheableReply(at, v, life)
			if g.chance(0.2) {
				rp = Reply{Status: 304, Hdr: Hdr{{"Date", dateAt(at, 0)}}, BodyFail: -1}
			}
		} else {
			rp = Reply{Status: 204, Hdr: Hdr{{"Date", dateAt(at, 0)}}, BodyFail: -1}
		}
		h.Ops = append(h.Ops, Op{Op: "req", AtNs: at, Method: method, URL: c.url, Hdr: c.hdr, Replies: []Reply{rp}})
		at += pick(g, int64(1), 2, 10, 40) * sec
	}
	return h
}

// generator classes per property: (weight, class)
type genClass struct {
	w int
	f func(g *G, id string) *History
}

func (g *G) classes() []genClass {
	grid := func(g *G, id string) *History { return g.genGrid(id) }
	rnd := func(o randOpt) func(g *G, id string) *History {
		return func(g *G, id string) *History { return g.genRandom(id, o) }
	}
	urls := rnd(randOpt{class: "urls", maxRes: 2, maxOps: 6, nearMiss: true})
	vary := rnd(randOpt{class: "vary", maxRes: 1, maxOps: 8, vary: true})
	inval := rnd(randOpt{class: "inval", maxRes: 2, maxOps: 8, methods: true, vary: true, grammar: true})
	status := rnd(randOpt{class: "status", maxRes: 1, maxOps: 5, methods: true, statuses: true})
	faults := rnd(randOpt{class: "faults", maxRes: 1, maxOps: 5, vary: true, statuses: true, faults: true})
	backends := rnd(randOpt{class: "backends", maxRes: 2, maxOps: 6, vary: true, backends: true, grammar: true})
	gridFault := func(g *G, id string) *History {
		h := g.genGrid(id)
		h.Class = "grid+faults"
		for i := range h.Ops {
			if g.chance(0.5) {
				h.Ops[i].Faults = g.genFaults()
			}
			// stored entries of every framing: a chunked reply is stored without Content-Length
			for k := range h.Ops[i].Replies {
				if g.chance(0.3) {
					h.Ops[i].Replies[k].Chunked = true
				}
			}
		}
		return h
	}
	chain := func(g *G, id string) *History { return g.genChain(id) }
	sie := func(g *G, id string) *History { return g.genSIE(id) }
	swrInval := func(g *G, id string) *History { return g.genSWRInval(id) }
	switch g.prop {
	case "C01":
		return []genClass{{6, grid}, {3, chain}, {1, status}, {1, vary}}
	case "C11":
		return []genClass{{5, grid}, {3, chain}, {2, sie}, {1, status}, {1, vary}}
	case "C13":
		return []genClass{{5, grid}, {4, sie}, {1, chain}, {1, status}}
	case "C02":
		return []genClass{{7, grid}, {1, chain}, {1, sie}, {1, status}, {1, vary}, {1, func(g *G, id string) *History { return g.genTrailerNoCache(id) }}}
	case "C18":
		return []genClass{{6, grid}, {2, gridFault}, {1, chain}, {1, sie}, {2, status}, {1, inval}, {1, vary}}
	case "C06":
		return []genClass{{4, grid}, {4, status}, {1, faults}, {1, inval}, {1, func(g *G, id string) *History { return g.genMerge304(id) }}}
	case "C10":
		debug := func(f func(g *G, id string) *History) func(g *G, id string) *History {
			return func(g *G, id string) *History {
				h := f(g, id)
				if g.chance(0.5) {
					h.Logger = "debug"
				}
				return h
			}
		}
		return []genClass{{3, grid}, {4, gridFault}, {3, faults}, {1, sie}, {2, debug(inval)}, {1, debug(status)}, {1, func(g *G, id string) *History { return g.genTruncUnframed(id) }}}
	case "C03":
		return []genClass{{8, urls}, {2, inval}, {1, func(g *G, id string) *History { return g.genRootless(id) }}, {1, func(g *G, id string) *History { return g.genHostOverride(id) }},
			{1, func(g *G, id string) *History { return g.genQueryDots(id) }}}
	case "C04":
		return []genClass{{8, vary}, {1, faults}, {1, backends}, {1, func(g *G, id string) *History { return g.genCollide(id) }}, {1, func(g *G, id string) *History { return g.genVaryReplace(id) }},
			{1, func(g *G, id string) *History { return g.genSelEquiv(id) }}}
	case "C07":
		return []genClass{{7, inval}, {2, urls}, {2, func(g *G, id string) *History { return g.genInvalRace(id) }}, {2, func(g *G, id string) *History { return g.genLocInval(id) }}, {1, func(g *G, id string) *History { return g.genHostOverride(id) }}}
	case "C08":
		return []genClass{{4, vary}, {2, grid}, {3, chain}, {2, inval}, {1, swrInval}, {1, func(g *G, id string) *History { return g.genRevalRace(id) }}, {1, func(g *G, id string) *History { return g.genMerge304(id) }}, {1, func(g *G, id string) *History { return g.genVarySpelling(id) }}}
	case "C19":
		return []genClass{{3, vary}, {1, inval}, {2, func(g *G, id string) *History { return g.genRepeat(id) }}, {1, swrInval}, {1, func(g *G, id string) *History { return g.genVarySpelling(id) }}, {1, faults}, {1, func(g *G, id string) *History { return g.genVaryReplace(id) }}}
	case "C16":
		return []genClass{{8, func(g *G, id string) *History { return g.genConcurrent(id) }}, {2, func(g *G, id string) *History { return g.genSWR(id) }}, {1, swrInval}}
	case "C05":
		return []genClass{{7, func(g *G, id string) *History { return g.genFaithful(id) }}, {2, status}, {1, backends}, {1, func(g *G, id string) *History { return g.genTrailerNoCache(id) }}}
	case "C20":
		return []genClass{{8, func(g *G, id string) *History { return g.genSWR(id) }}, {2, grid}, {1, swrInval}}
	case "C09":
		return []genClass{{4, urls}, {3, vary}, {3, backends}, {2, chain}, {2, grid}, {1, func(g *G, id string) *History { return g.genRootless(id) }}, {1, func(g *G, id string) *History { return g.genHostOverride(id) }},
			{1, func(g *G, id string) *History { return g.genZoneDates(id) }}, {1, func(g *G, id string) *History { return g.genOldLastModified(id) }},
			{1, func(g *G, id string) *History { return g.genSelEquiv(id) }}}
	}
	return []genClass{{1, grid}}
}

// collidingValues: pairs of header values whose variant descriptions ("3:X-A16:<value>") have the same
// 64-bit FNV-1a hash, hence the same entry key. Found by a distinguished-point search (42 s on 16 cores);
// a 64-bit identifier cannot be collision-free, so what the index does with two references that share an
// identifier is part of the property.
var collidingValues = map[string][2]string{
	"X-A": {"cf64c0a33b0b080a", "94d63610ceb73809"},
	"X-V": {"2164f37f9e8cb95b", "b2fbb6d007fa538d"},
}

// genCollide: two variants whose identifiers collide, then each of them again, in some order
func (g *G) genCollide(id string) *History {
	h := &History{ID: id, Prop: g.prop, Class: "collide", Backend: pick(g, "mem", "fs", "fsenc"), Logger: "discard"}
	f := pick(g, "X-A", "X-V")
	pair := collidingValues[f]
	url := "http://a.test/collide"
	at := int64(0)
	n := 3 + g.r.Intn(4)
	for i := 0; i < n; i++ {
		v := pair[g.r.Intn(2)]
		if i < 2 {
			v = pair[i]
		}
		var hdr Hdr
		if v != "" {
			hdr = Hdr{{f, v}}
		}
		rp := g.cacheableReply(at, f, 3600)
		h.Ops = append(h.Ops, Op{Op: "req", AtNs: at, Method: "GET", URL: url, Hdr: hdr, Replies: []Reply{rp}})
		at += pick(g, int64(1), 5, 30) * sec
	}
	return h
}

func (g *G) next() *History {
	if g.prop == "C12" {
		// metamorphic pairs: canonical history, then its respelling
		if g.pending != nil {
			h := g.pending
			g.pending = nil
			return h
		}
		g.n++
		base := g.genGrid(fmt.Sprintf("%s-%d", g.prop, g.n))
		base.Class = "canonical"
		g.pending = g.respellHistory(base)
		return base
	}
	g.n++
	id := fmt.Sprintf("%s-%d", g.prop, g.n)
	cs := g.classes()
	tot := 0
	for _, c := range cs {
		tot += c.w
	}
	k := g.r.Intn(tot)
	for _, c := range cs {
		if k < c.w {
			return g.shortBody(g.rawKey(g.zonePass(g.nilHeader(g.emptyMethod(c.f(g, id))))))
		}
		k -= c.w
	}
	return g.genGrid(id)
}

// shortBody: an upstream that is not one of net/http's transports may end a body cleanly before the length the
// reply declares (a size guard, a mock). In one history out of twenty (for C06, C05, C10) some replies with a
// Content-Length are of that kind: what was delivered is not the response, and it is not stored as the response.
func (g *G) shortBody(h *History) *History {
	if !(g.prop == "C06" || g.prop == "C05" || g.prop == "C10") || !g.chance(0.05) {
		return h
	}
	for i := range h.Ops {
		for k := range h.Ops[i].Replies {
			rp := &h.Ops[i].Replies[k]
			if !rp.Err && !rp.Hang && !rp.Chunked && !rp.NoCL && rp.BodyFail < 0 && len(rp.Body) >= 3 && g.chance(0.5) {
				rp.ShortEOF = 1 + g.r.Intn(2)
			}
		}
	}
	return h
}

// rawKey: in one history out of twenty-five (one out of six for C16) some requests carry a header field under a map
// key that is not canonical (direct map assignment). The map is the caller's: whatever the cache makes of such a
// field, it does not rewrite the caller's keys.
func (g *G) rawKey(h *History) *History {
	p := 0.04
	if g.prop == "C16" {
		p = 0.17
	}
	if !g.chance(p) {
		return h
	}
	for i := range h.Ops {
		if h.Ops[i].Op == "req" && g.chance(0.6) {
			h.Ops[i].RawKey = true
		}
	}
	return h
}

// emptyMethod: net/http documents that a client request whose Method is the empty string is a GET. In one
// history out of twenty some of the GETs are spelled that way (a request built as a struct literal): they are
// GETs — served from the store, stored, never an invalidation.
func (g *G) emptyMethod(h *History) *History {
	if !g.chance(0.05) {
		return h
	}
	for i := range h.Ops {
		if h.Ops[i].Op == "req" && h.Ops[i].Method == "GET" && i > 0 && g.chance(0.5) {
			h.Ops[i].Method = "(empty)"
		}
	}
	return h
}

// nilHeader: an upstream that is not one of net/http's transports may return a response whose Header map is
// nil ("missing header fields" taken to the end). For the fail-open property some replies of one history in
// twenty-five are of that kind: no header field at all, close-delimited body.
func (g *G) nilHeader(h *History) *History {
	if g.prop != "C10" || !g.chance(0.04) {
		return h
	}
	for i := range h.Ops {
		if h.Ops[i].Op == "req" && len(h.Ops[i].Hdr) == 0 && g.chance(0.5) {
			h.Ops[i].NilHeader = true // a request whose Header map was never allocated
		}
		for k := range h.Ops[i].Replies {
			rp := &h.Ops[i].Replies[k]
			if !rp.Err && !rp.Hang && g.chance(0.4) {
				if g.chance(0.3) {
					rp.NilResp = true // (nil, nil): neither a response nor an error
					continue
				}
				rp.Hdr, rp.Trailer, rp.Chunked, rp.NoCL, rp.NilHdr = nil, nil, false, true, true
			}
		}
	}
	return h
}

// zonePass: the cache's process lives in some time zone; HTTP-dates do not. Some histories run with the process
// in a zone whose abbreviation table contains "GMT" although the zone is on another abbreviation at the time
// (Europe/Prague, Africa/Lagos all year; Europe/London in summer): a time library resolves the "GMT" of an
// rfc850 date against that table.
func (g *G) zonePass(h *History) *History {
	p := 0.03
	if g.prop == "C09" || g.prop == "C01" || g.prop == "C11" {
		p = 0.15
	}
	if g.chance(p) {
		h.TZ = pick(g, "Europe/Prague", "Africa/Lagos", "Europe/London", "America/New_York", "Asia/Kolkata")
	}
	return h
}
