package zzverifstore

// Backend harness (C14, C15, C17): op sequences against the REAL backends (public API only),
// written as trace lines for the Lean driver's map model; file listing, raw-file scans,
// tampering, write cuts (RLIMIT_FSIZE in a child process) and concurrent histories.

import (
	"bufio"
	"bytes"
	"crypto/sha256"
	"encoding/hex"
	"encoding/json"
	"errors"
	"fmt"
	"io"
	"math/rand"
	"net/http"
	"net/http/httptest"
	"net/url"
	"os"
	"os/exec"
	"path/filepath"
	"sort"
	"strconv"
	"strings"
	"sync"
	"syscall"
	"testing"
	"testing/synctest"
	"time"
	"unicode/utf8"

	"github.com/bartventer/httpcache/store"
	"github.com/bartventer/httpcache/store/driver"
	"github.com/bartventer/httpcache/store/expapi"
	"github.com/bartventer/httpcache/store/fscache"
	"github.com/bartventer/httpcache/store/memcache"
)

const encKey = "6S-Ks2YYOW0xMvTzKSv6QD30gZeOi1c6Ydr-As5csWk="
const encKey2 = "AAECAwQFBgcICQoLDA0ODxAREhMUFRYXGBkaGxwdHh8="

func hx(s string) string {
	if s == "" {
		return "-"
	}
	return hex.EncodeToString([]byte(s))
}

func valRepr(b []byte) string {
	if len(b) <= 256 {
		return hx(string(b))
	}
	sum := sha256.Sum256(b)
	return hx(string(b[:16]) + "#sha256=" + hex.EncodeToString(sum[:]) + "#len=" + strconv.Itoa(len(b)))
}

type keyLister interface {
	Keys(prefix string) ([]string, error)
}

type env struct {
	w       *bufio.Writer
	r       *rand.Rand
	backend string
	dir     string
	conn    driver.Conn
	mtime   bool // file-system backends: opened with update_mtime=on (a Get also touches the file)
	t       *testing.T
}

// once-per-run switches of the quick tier (package level: an env is made per history)
var bigTamperDone, nonceRunDone bool

func (e *env) emit(format string, a ...any) {
	fmt.Fprintf(e.w, format+"\n", a...)
}

func (e *env) open() error {
	switch e.backend {
	case "mem":
		if e.conn == nil {
			e.conn = memcache.Open()
		}
		return nil
	case "fs":
		c, err := fscache.Open("verif", fscache.WithBaseDir(e.dir), fscache.WithUpdateMTime(e.mtime))
		e.conn = c
		return err
	case "fsenc":
		c, err := fscache.Open("verif", fscache.WithBaseDir(e.dir), fscache.WithEncryption(encKey), fscache.WithUpdateMTime(e.mtime))
		e.conn = c
		return err
	}
	return errors.New("backend?")
}

func cls(err error) string {
	switch {
	case err == nil:
		return "ok"
	case errors.Is(err, driver.ErrNotExist):
		return "notexist"
	default:
		return "err"
	}
}

var keyPool = []string{"", "a", "ab", "http://a.test/x", "http://a.test/x#0", "http://a.test/x#12345678901234567890",
	"k/with/slashes", "k with spaces", "..", ".", "../up", "\x00", "\xff\xfe", "ünï", "+", ".tmp-x", "A", "a/", "/a"}

func (e *env) genKey() string {
	r := e.r
	switch r.Intn(10) {
	case 0, 1, 2:
		return keyPool[r.Intn(len(keyPool))]
	case 3:
		// around the single-file limit: 190..194 bytes (base64 length 254..259)
		return strings.Repeat("L", 189+r.Intn(6)) + string(rune('a'+r.Intn(3)))
	case 4:
		// multiples of 36 bytes = 48 base64 chars (the pinned tree's fragment size), and of 47-char fragments
		n := []int{36, 72, 35, 37, 141, 282, 288, 324}[r.Intn(8)]
		return strings.Repeat("F", n)
	case 5:
		// shared prefixes, one of them longer than the limit
		base := strings.Repeat("P", 36)
		return base[:r.Intn(len(base)+1)] + strings.Repeat("Q", []int{0, 1, 200, 300}[r.Intn(4)])
	case 6:
		n := 1 + r.Intn(400)
		b := make([]byte, n)
		for i := range b {
			b[i] = byte(r.Intn(256))
		}
		return string(b)
	case 7:
		// URL-shaped keys with percent-escapes and reserved characters: a key is bytes, never decoded
		return []string{"http://h.test/a%2Fb?q=x%20y#1", "http://h.test/a/b?q=x y#1", "http://h.test/a%252Fb#0", "100%", "%41", "A", "%zz%", "a+b", "a b", "a%2Bb"}[r.Intn(10)]
	default:
		return "http://h.test/" + strings.Repeat("p", r.Intn(300)) + "#" + strconv.Itoa(r.Intn(3))
	}
}

func (e *env) genVal(tier string) []byte {
	r := e.r
	n := []int{0, 1, 3, 100, 4096, 70000}[r.Intn(6)]
	if tier == "thorough" && r.Intn(20) == 0 {
		n = 1 << 20
	}
	b := make([]byte, n)
	for i := range b {
		b[i] = byte(r.Intn(256))
	}
	return b
}

// files lists the regular files below the backend's directory (relative paths, sorted)
func (e *env) files() []string {
	var out []string
	root := filepath.Join(e.dir, "verif")
	_ = filepath.WalkDir(root, func(p string, d os.DirEntry, err error) error {
		if err == nil && !d.IsDir() && !strings.HasPrefix(d.Name(), ".tmp-") {
			// (the temporary file of a Set that never finished is not a stored value)
			rel, _ := filepath.Rel(root, p)
			out = append(out, rel)
		}
		return nil
	})
	sort.Strings(out)
	return out
}

func (e *env) runSeq(id, tier string, nops int) {
	e.emit("H\t%s\tC14\t%s", id, e.backend)
	if err := e.open(); err != nil {
		e.emit("S\tFATAL\t%s", hx(err.Error()))
		e.emit("E\t%s", id)
		return
	}
	// the leftover of a Set that crashed before its rename (a ".tmp-…" file next to the key files, and one inside a
	// fragment directory once there is one) is no key and hides no key
	plantLeftover := func() {
		root := filepath.Join(e.dir, "verif")
		_ = os.MkdirAll(root, 0o755)
		_ = os.WriteFile(filepath.Join(root, ".tmp-leftover-1"), []byte("partial"), 0o600)
		_ = filepath.WalkDir(root, func(p string, d os.DirEntry, err error) error {
			if err == nil && d.IsDir() && p != root {
				_ = os.WriteFile(filepath.Join(p, ".tmp-leftover-2"), []byte("partial"), 0o600)
			}
			return nil
		})
	}
	var used []string
	pickKey := func() string {
		if len(used) > 0 && e.r.Intn(3) != 0 {
			return used[e.r.Intn(len(used))]
		}
		k := e.genKey()
		used = append(used, k)
		return k
	}
	type heldVal struct {
		key       string
		got, copy []byte
	}
	var held []heldVal
	for i := 0; i < nops; i++ {
		for j := 0; j < len(held); j++ {
			if !bytes.Equal(held[j].got, held[j].copy) {
				e.emit("S\tHELD\tchanged\t%s", hx(held[j].key))
				held = append(held[:j], held[j+1:]...)
				j--
			}
		}
		if len(held) > 8 {
			held = held[1:]
		}
		switch e.r.Intn(12) {
		case 0, 1, 2, 3:
			k, v := pickKey(), e.genVal(tier)
			orig := append([]byte(nil), v...)
			err := e.conn.Set(k, v)
			// caller's buffer mutated after Set must not affect the stored value
			for j := range v {
				v[j] ^= 0xff
			}
			e.emit("S\tSET\t%s\t%s\t%s", hx(k), valRepr(orig), cls(err))
		case 4, 5, 6:
			k := pickKey()
			v, err := e.conn.Get(k)
			e.emit("S\tGET\t%s\t%s\t%s", hx(k), cls(err), valRepr(v))
			if e.r.Intn(2) == 0 && len(v) > 0 {
				// the caller keeps this result: whatever the backend does later must leave it alone
				held = append(held, heldVal{k, v, append([]byte(nil), v...)})
			} else {
				// mutating the returned buffer must not affect later reads
				for j := range v {
					v[j] ^= 0xff
				}
			}
		case 7, 8:
			k := pickKey()
			err := e.conn.Delete(k)
			e.emit("S\tDEL\t%s\t%s", hx(k), cls(err))
		case 9:
			if kl, ok := e.conn.(keyLister); ok {
				if e.backend != "mem" && e.r.Intn(3) == 0 {
					plantLeftover()
				}
				p := ""
				if len(used) > 0 && e.r.Intn(2) == 0 {
					k := used[e.r.Intn(len(used))]
					p = k[:e.r.Intn(len(k)+1)]
				}
				ks, err := kl.Keys(p)
				sort.Strings(ks)
				hs := make([]string, len(ks))
				for j, k := range ks {
					hs[j] = hx(k)
				}
				e.emit("S\tKEYS\t%s\t%s\t%s", hx(p), cls(err), strings.Join(hs, ","))
			}
		case 10:
			if e.backend != "mem" {
				if err := e.open(); err != nil {
					e.emit("S\tFATAL\t%s", hx(err.Error()))
				}
				e.emit("S\tREOPEN")
			}
		case 11:
			if e.backend != "mem" {
				fs := e.files()
				hs := make([]string, len(fs))
				for j, f := range fs {
					hs[j] = hx(f)
				}
				e.emit("S\tFILES\t%s", strings.Join(hs, ","))
			}
		}
	}
	// once per invocation on a file-system backend: a key of a realistic URL length beyond PATH_MAX when
	// spread over fragment directories (3 KB), then the listing
	if e.backend != "mem" && !longKeyDone {
		longKeyDone = true
		if kl, ok := e.conn.(keyLister); ok {
			long := "http://example.com/search?q=" + strings.Repeat("x", 3100)
			e.emit("S\tNOTE\tlongkey")
			for _, step := range []string{"set", "keys", "del", "keys"} {
				switch step {
				case "set":
					v := []byte("value of the long key")
					e.emit("S\tSET\t%s\t%s\t%s", hx(long), valRepr(v), cls(e.conn.Set(long, v)))
				case "del":
					e.emit("S\tDEL\t%s\t%s", hx(long), cls(e.conn.Delete(long)))
				case "keys":
					ks, err := kl.Keys("")
					sort.Strings(ks)
					hs := make([]string, len(ks))
					for j, k := range ks {
						hs[j] = hx(k)
					}
					e.emit("S\tKEYS\t%s\t%s\t%s", hx(""), cls(err), strings.Join(hs, ","))
				}
			}
		}
	}
	// one LARGE value per backend and run (64 MiB and one byte: past every round buffer or limit size a reader might
	// have): Get returns the bytes of the latest Set whatever their number
	if !bigDone[e.backend] && e.backend != "mem" && !strings.HasPrefix(e.backend, "expapi") {
		bigDone[e.backend] = true
		v := bytes.Repeat([]byte("0123456789abcdef"), (64<<20)/16)
		v = append(v, 'Z')
		const k = "big-value"
		e.emit("S\tSET\t%s\t%s\t%s", hx(k), valRepr(v), cls(e.conn.Set(k, v)))
		got, err := e.conn.Get(k)
		e.emit("S\tGET\t%s\t%s\t%s", hx(k), cls(err), valRepr(got))
		e.emit("S\tDEL\t%s\t%s", hx(k), cls(e.conn.Delete(k)))
	}
	e.emit("E\t%s", id)
}

var longKeyDone bool
var bigDone = map[string]bool{}

/* ------------------------------- expapi ------------------------------- */

func (e *env) runExpapi(id string) {
	e.emit("H\t%s\tC14\texpapi-%s", id, e.backend)
	if err := e.open(); err != nil {
		e.emit("S\tFATAL\t%s", hx(err.Error()))
		e.emit("E\t%s", id)
		return
	}
	mux := http.NewServeMux()
	expapi.Register(expapi.WithServeMux(mux))
	srv := httptest.NewServer(mux)
	defer srv.Close()
	dsn := "memcache://"
	if e.backend == "fs" {
		dsn = "fscache://" + filepath.ToSlash(e.dir) + "?appname=verif"
	} else if e.backend == "fsenc" {
		dsn = "fscache://" + filepath.ToSlash(e.dir) + "?appname=verif&encrypt=on&encrypt_key=" + url.QueryEscape(encKey)
	}
	q := "?dsn=" + url.QueryEscape(dsn)
	var used []string
	for i := 0; i < 12; i++ {
		k := e.genKey()
		// "" and "/" are probed at the end of the run; "." and ".." are reachable only in escaped form
		if k == "" || k == "/" || k == "." || k == ".." {
			continue
		}
		used = append(used, k)
		v := e.genVal("quick")
		err := e.conn.Set(k, v)
		e.emit("S\tSET\t%s\t%s\t%s", hx(k), valRepr(v), cls(err))
	}
	do := func(method, path string) (int, []byte) {
		req, _ := http.NewRequest(method, srv.URL+path, nil)
		resp, err := http.DefaultClient.Do(req)
		if err != nil {
			return 0, nil
		}
		defer resp.Body.Close()
		b, _ := io.ReadAll(resp.Body)
		return resp.StatusCode, b
	}
	for _, k := range used {
		if !utf8.ValidString(k) {
			e.emit("S\tNONUTF8")
			break
		}
	}
	for _, k := range used {
		st, body := do("GET", "/debug/httpcache/"+url.PathEscape(k)+q)
		res := "err"
		if st == 200 {
			res = "ok"
		} else if st == 404 {
			res = "notexist"
		}
		if st != 200 {
			body = nil
		}
		e.emit("S\tGET\t%s\t%s\t%s", hx(k), res, valRepr(body))
	}
	st, body := do("GET", "/debug/httpcache"+q+"&prefix=")
	if st == 200 {
		var m map[string][]string
		_ = json.Unmarshal(body, &m)
		ks := m["keys"]
		sort.Strings(ks)
		hs := make([]string, len(ks))
		for j, k := range ks {
			hs[j] = hx(k)
		}
		e.emit("S\tKEYS\t-\tok\t%s", strings.Join(hs, ","))
	} else if st == 501 {
		e.emit("S\tNOKEYS")
	} else {
		e.emit("S\tKEYS\t-\terr\t")
	}
	if len(used) > 0 {
		k := used[0]
		st, _ := do("DELETE", "/debug/httpcache/"+url.PathEscape(k)+q)
		res := "err"
		if st == 204 {
			res = "ok"
		} else if st == 404 {
			res = "notexist"
		}
		e.emit("S\tDEL\t%s\t%s", hx(k), res)
		v, err := e.conn.Get(k)
		e.emit("S\tGET\t%s\t%s\t%s", hx(k), cls(err), valRepr(v))
	}
	// last (a failure here must not hide anything above): the two keys no request form reaches
	if e.backend != "mem" {
		for _, k := range []string{"", "/"} {
			v := e.genVal("quick")
			err := e.conn.Set(k, v)
			e.emit("S\tSET\t%s\t%s\t%s", hx(k), valRepr(v), cls(err))
			st, body := do("GET", "/debug/httpcache/"+url.PathEscape(k)+q)
			res := "err"
			if st == 200 {
				res = "ok"
			} else if st == 404 {
				res = "notexist"
			}
			if st != 200 {
				body = nil
			}
			e.emit("S\tGET\t%s\t%s\t%s", hx(k), res, valRepr(body))
		}
	}
	e.emit("E\t%s", id)
}

/* ------------------------------- encryption (C17) ------------------------------- */

func containsFragment(file, value []byte) bool {
	if len(value) < 8 {
		return false
	}
	// every 8-byte fragment for small values; a spread of 256 fragments for large ones
	step := 4
	if len(value) > 1024 {
		step = len(value) / 256
	}
	for i := 0; i+8 <= len(value); i += step {
		if bytes.Contains(file, value[i:i+8]) {
			return true
		}
	}
	return false
}

func (e *env) readAllFiles() map[string][]byte {
	out := map[string][]byte{}
	root := filepath.Join(e.dir, "verif")
	for _, f := range e.files() {
		b, err := os.ReadFile(filepath.Join(root, f))
		if err == nil {
			out[f] = b
		}
	}
	return out
}

func (e *env) runEnc(id, tier string) {
	e.emit("H\t%s\tC17\tfsenc", id)
	// every way of switching encryption on must store ciphertext; unusable keys must fail at open
	type cfg struct {
		name string
		open func() (driver.Conn, error)
		want string // "enc" | "plain" | "fail"
	}
	dsnBase := "fscache://" + filepath.ToSlash(e.dir) + "?appname=verif"
	cfgs := []cfg{
		{"option", func() (driver.Conn, error) {
			return fscache.Open("verif", fscache.WithBaseDir(e.dir), fscache.WithEncryption(encKey))
		}, "enc"},
		{"dsn-on", func() (driver.Conn, error) {
			return store.Open(dsnBase + "&encrypt=on&encrypt_key=" + url.QueryEscape(encKey))
		}, "enc"},
		{"dsn-aesgcm", func() (driver.Conn, error) {
			return store.Open(dsnBase + "&encrypt=aesgcm&encrypt_key=" + url.QueryEscape(encKey))
		}, "enc"},
		{"dsn-env", func() (driver.Conn, error) {
			os.Setenv("FSCACHE_ENCRYPT_KEY", encKey)
			defer os.Unsetenv("FSCACHE_ENCRYPT_KEY")
			return store.Open(dsnBase + "&encrypt=on")
		}, "enc"},
		{"dsn-on-nokey", func() (driver.Conn, error) {
			os.Unsetenv("FSCACHE_ENCRYPT_KEY")
			return store.Open(dsnBase + "&encrypt=on")
		}, "fail"},
		{"dsn-on-badb64", func() (driver.Conn, error) { return store.Open(dsnBase + "&encrypt=on&encrypt_key=!!!") }, "fail"},
		{"dsn-on-shortkey", func() (driver.Conn, error) { return store.Open(dsnBase + "&encrypt=on&encrypt_key=QUJD") }, "fail"},
		{"option-empty", func() (driver.Conn, error) {
			return fscache.Open("verif", fscache.WithBaseDir(e.dir), fscache.WithEncryption(""))
		}, "fail"},
		{"dsn-off", func() (driver.Conn, error) {
			return store.Open(dsnBase + "&encrypt=off&encrypt_key=" + url.QueryEscape(encKey))
		}, "plain"},
		{"dsn-none", func() (driver.Conn, error) { return store.Open(dsnBase) }, "plain"},
		// a DSN that ASKS for encryption in a spelling the backend does not know must not quietly store plaintext:
		// either it is understood or the open fails
		{"dsn-ON", func() (driver.Conn, error) { return store.Open(dsnBase + "&encrypt=ON&encrypt_key=" + url.QueryEscape(encKey)) }, "notplain"},
		{"dsn-aes-gcm", func() (driver.Conn, error) {
			return store.Open(dsnBase + "&encrypt=aes-gcm&encrypt_key=" + url.QueryEscape(encKey))
		}, "notplain"},
		{"dsn-true", func() (driver.Conn, error) { return store.Open(dsnBase + "&encrypt=true&encrypt_key=" + url.QueryEscape(encKey)) }, "notplain"},
		{"dsn-1-nokey", func() (driver.Conn, error) { return store.Open(dsnBase + "&encrypt=1") }, "notplain"},
	}
	for i, c := range cfgs {
		conn, err := c.open()
		if err != nil || conn == nil {
			e.emit("S\tCFG\t%s\t%s\tfail", c.name, c.want)
			continue
		}
		k := "cfg-" + strconv.Itoa(i)
		v := bytes.Repeat([]byte("PLAINTEXT-MARKER-"+strconv.Itoa(i)+"-"), 8)
		_ = conn.Set(k, v)
		leak := false
		for _, b := range e.readAllFiles() {
			if containsFragment(b, v) {
				leak = true
			}
		}
		got := "enc"
		if leak {
			got = "plain"
		}
		e.emit("S\tCFG\t%s\t%s\t%s", c.name, c.want, got)
		_ = conn.Delete(k)
	}
	// the wiring model (Lean: C17.fromURL / C17.withEncryption) against fscache.fromURL on a grid of
	// encrypt spellings × DSN key class × environment key class; the model says what each open must yield
	keyOf := func(class string, n int) string {
		switch class {
		case "good":
			return encKey
		case "bad":
			switch n % 3 {
			case 0:
				return "!!!"
			case 1:
				return "QUJD"
			}
			// 48 bytes: longer than any AES key (not usable — and not to be cut down to one that is)
			return "AAECAwQFBgcICQoLDA0ODxAREhMUFRYXGBkaGxwdHh8gISIjJCUmJygpKissLS4v"
		}
		return ""
	}
	dash := func(s string) string {
		if s == "" {
			return "-"
		}
		return s
	}
	observe := func(i int, conn driver.Conn, err error) string {
		if err != nil || conn == nil {
			return "fail"
		}
		k := "cfgm-" + strconv.Itoa(i)
		v := bytes.Repeat([]byte("PLAINTEXT-GRID-"+strconv.Itoa(i)+"-"), 8)
		_ = conn.Set(k, v)
		got := "enc"
		for _, b := range e.readAllFiles() {
			if containsFragment(b, v) {
				got = "plain"
			}
		}
		_ = conn.Delete(k)
		return got
	}
	n := 0
	for _, sp := range []string{"", "off", "on", "aesgcm", "ON", "On", "true", "1", "aes-gcm", "no", "yes", "AESGCM", "offf"} {
		for _, dk := range []string{"", "good", "bad"} {
			for _, ek := range []string{"", "good", "bad"} {
				n++
				dsn := dsnBase
				shown := sp
				switch {
				case sp != "":
					dsn += "&encrypt=" + url.QueryEscape(sp)
				case n%3 == 0:
					dsn += "&encrypt=" // present, no value
					shown = "(empty)"
				case n%3 == 1:
					dsn += "&encrypt" // a bare flag: present, no value
					shown = "(empty)"
				default:
					shown = "-" // absent
				}
				if dk != "" || n%3 == 0 {
					dsn += "&encrypt_key=" + url.QueryEscape(keyOf(dk, n))
				}
				if ek != "" {
					os.Setenv("FSCACHE_ENCRYPT_KEY", keyOf(ek, n))
				} else {
					os.Unsetenv("FSCACHE_ENCRYPT_KEY")
				}
				conn, err := store.Open(dsn)
				os.Unsetenv("FSCACHE_ENCRYPT_KEY")
				e.emit("S\tCFGM\tdsn\t%s\t%s\t%s\t%s", shown, dash(dk), dash(ek), observe(n, conn, err))
			}
		}
	}
	// a query that url.ParseQuery rejects (a ";" in a pair, a bad escape): nothing of such a DSN may be guessed at —
	// Query() drops the offending pair silently, and with it the request for encryption
	for _, bad := range []string{"&encrypt=on;encrypt_key=" + url.QueryEscape(encKey), "&encrypt=aesgcm;&encrypt_key=" + url.QueryEscape(encKey),
		"&encrypt=on%&encrypt_key=" + url.QueryEscape(encKey), "&encrypt=on%zz&encrypt_key=" + url.QueryEscape(encKey), "&encrypt=on&encrypt_key=" + url.QueryEscape(encKey) + ";x=1"} {
		n++
		conn, err := store.Open(dsnBase + bad)
		e.emit("S\tCFGM\tdsnbad\t%s\t%s\t%s\t%s", "on", "good", "-", observe(n, conn, err))
	}
	for _, kc := range []string{"", "good", "bad"} {
		for _, ek := range []string{"", "good"} { // the option never consults the environment
			n++
			if ek != "" {
				os.Setenv("FSCACHE_ENCRYPT_KEY", keyOf(ek, n))
			}
			conn, err := fscache.Open("verif", fscache.WithBaseDir(e.dir), fscache.WithEncryption(keyOf(kc, n)))
			os.Unsetenv("FSCACHE_ENCRYPT_KEY")
			e.emit("S\tCFGM\toption\t-\t%s\t%s\t%s", dash(kc), dash(ek), observe(n, conn, err))
		}
	}
	// values: no plaintext fragment in any file; same value twice → different ciphertexts
	conn, err := fscache.Open("verif", fscache.WithBaseDir(e.dir), fscache.WithEncryption(encKey))
	if err != nil {
		e.emit("S\tFATAL\t%s", hx(err.Error()))
		e.emit("E\t%s", id)
		return
	}
	root := filepath.Join(e.dir, "verif")
	for i := 0; i < 6; i++ {
		k := "v" + strconv.Itoa(i)
		v := e.genVal(tier)
		if len(v) < 16 {
			v = bytes.Repeat([]byte{byte('a' + i)}, 32+e.r.Intn(100))
		}
		_ = conn.Set(k, v)
		leak := false
		for _, b := range e.readAllFiles() {
			if containsFragment(b, v) {
				leak = true
			}
		}
		e.emit("S\tSCAN\t%s\t%t", hx(k), leak)
		before := e.readAllFiles()
		_ = conn.Set(k, v)
		after := e.readAllFiles()
		same := false
		for f, b := range before {
			if a, ok := after[f]; ok && bytes.Equal(a, b) && len(b) > 0 {
				// the file of this key must have changed; other keys' files are unchanged by design
				if got, _ := conn.Get(k); got != nil {
					_ = got
				}
				if strings.Contains(f, "") && fileIsFor(root, f, before, after, k) {
					same = true
				}
			}
		}
		e.emit("S\tSAMECT\t%s\t%t", hx(k), same)
	}
	// … also when the clock does not move between the two writes (a coarse clock, two writes in one tick): inside a
	// synctest bubble time stands still, so a nonce derived from the time of day repeats
	if e.t != nil {
		synctest.Test(e.t, func(*testing.T) {
			c2, err := fscache.Open("verif", fscache.WithBaseDir(e.dir), fscache.WithEncryption(encKey))
			if err != nil {
				return
			}
			const fk = "frozen"
			v := bytes.Repeat([]byte("same-instant-value-"), 8)
			_ = c2.Set(fk, v)
			before := e.readAllFiles()
			_ = c2.Set(fk, v)
			after := e.readAllFiles()
			same := false
			for f, b := range before {
				if a, ok := after[f]; ok && len(b) > 0 && bytes.Equal(a, b) && fileIsFor(root, f, before, after, fk) {
					same = true
				}
			}
			e.emit("S\tSAMECT\t%s\t%t", hx(fk), same)
			_ = c2.Delete(fk)
		})
	}
	// tampering: every single-byte modification of a small entry, truncations, extensions
	k := "tamper"
	v := []byte("small secret value 0123456789")
	_ = conn.Set(k, v)
	var target string
	for f := range e.readAllFiles() {
		_ = f
	}
	files := e.readAllFiles()
	// find the file that belongs to key "tamper": the one that disappears when it is deleted
	_ = conn.Delete(k)
	afterDel := e.readAllFiles()
	for f := range files {
		if _, ok := afterDel[f]; !ok {
			target = f
		}
	}
	_ = conn.Set(k, v)
	if target != "" {
		orig, _ := os.ReadFile(filepath.Join(root, target))
		accepted, total := 0, 0
		try := func(mod []byte) {
			total++
			_ = os.WriteFile(filepath.Join(root, target), mod, 0o644)
			got, err := conn.Get(k)
			if err == nil {
				accepted++
				e.emit("S\tTAMPER\taccepted\t%d\t%s", len(mod), valRepr(got))
			}
		}
		for pos := 0; pos < len(orig); pos++ {
			for _, x := range []byte{0x01, 0x80, 0xff} {
				mod := append([]byte(nil), orig...)
				mod[pos] ^= x
				try(mod)
			}
		}
		for n := 0; n < len(orig); n++ {
			try(orig[:n])
		}
		try(append(append([]byte(nil), orig...), 0))
		try(append(append([]byte(nil), orig...), orig...))
		// substitution: the authentic ciphertext that was written for ANOTHER key, as the bytes of this key's
		// file (a multi-byte modification that needs no key): it must be rejected like any other alteration
		{
			pre := e.readAllFiles()
			k2 := "tamper-other-key"
			if err := conn.Set(k2, []byte("the value that belongs to another key, 0123456789")); err == nil {
				for f2, b2 := range e.readAllFiles() {
					if _, ok := pre[f2]; !ok && f2 != target {
						try(b2)
					}
				}
				_ = conn.Delete(k2)
			}
		}
		_ = os.WriteFile(filepath.Join(root, target), orig, 0o644)
		// … the same between two LONG keys with a long common beginning (the index key of a long URL and the keys of
		// its responses differ only at the very end): the whole key binds the file to its entry, not a prefix of it
		{
			common := "http://example.com/" + strings.Repeat("a", 300+e.r.Intn(600))
			ka, kb := common+"#1", common+"#2"
			fa, fb := e.fileOfLongKey(conn, ka, []byte("value of the first long key")), e.fileOfLongKey(conn, kb, []byte("value of the second long key"))
			if fa != "" && fb != "" && fa != fb {
				ba, _ := os.ReadFile(filepath.Join(root, fa))
				total++
				_ = os.WriteFile(filepath.Join(root, fb), ba, 0o644)
				if got, err := conn.Get(kb); err == nil {
					accepted++
					e.emit("S\tTAMPER\taccepted\t%d\t%s", len(ba), valRepr(got))
				}
			}
			_ = conn.Delete(ka)
			_ = conn.Delete(kb)
		}
		// large values: truncation at every length of a structural kind (block, segment and record
		// boundaries of any power-of-two size with the usual nonce/tag overheads), a random sample of
		// other lengths, and byte flips near those boundaries
		sizes := []int{65537, 150000, 196613}
		if bigTamperDone {
			sizes = nil // once per run (more random lengths in the thorough tier)
		}
		bigTamperDone = true
		for _, size := range sizes {
			bk := "big" + strconv.Itoa(size)
			bv := make([]byte, size)
			for i := range bv {
				bv[i] = byte('A' + (i*7+i/251)%26)
			}
			pre := e.readAllFiles()
			if err := conn.Set(bk, bv); err != nil {
				continue
			}
			var bt string
			for f := range e.readAllFiles() {
				if _, ok := pre[f]; !ok {
					bt = f
				}
			}
			if bt == "" {
				continue
			}
			borig, _ := os.ReadFile(filepath.Join(root, bt))
			lens := map[int]bool{}
			for _, a := range []int{0, 12, 16, 28} {
				for _, b := range []int{0, 12, 16, 28} {
					for j := 9; j <= 18; j++ {
						for kk := 1; a+kk*((1<<j)+b) < len(borig) && kk <= 400; kk++ {
							lens[a+kk*((1<<j)+b)] = true
						}
					}
				}
			}
			nrand := 200
			if tier == "thorough" {
				nrand = 3000
			}
			for i := 0; i < nrand; i++ {
				lens[e.r.Intn(len(borig))] = true
			}
			tryBig := func(mod []byte) {
				total++
				_ = os.WriteFile(filepath.Join(root, bt), mod, 0o644)
				got, err := conn.Get(bk)
				if err == nil {
					accepted++
					e.emit("S\tTAMPER\taccepted\t%d\t%s", len(mod), valRepr(got))
				}
			}
			n := 0
			for l := range lens {
				tryBig(borig[:l])
				if n%40 == 0 && l > 0 {
					mod := append([]byte(nil), borig...)
					mod[l-1] ^= 0x01
					tryBig(mod)
				}
				n++
			}
			_ = conn.Delete(bk)
		}
		e.emit("S\tTAMPERSUM\t%d\t%d", total, accepted)
		// wrong key never yields data
		other, err := fscache.Open("verif", fscache.WithBaseDir(e.dir), fscache.WithEncryption(encKey2))
		if err == nil {
			got, gerr := other.Get(k)
			e.emit("S\tWRONGKEY\t%s\t%s", cls(gerr), valRepr(got))
		}
		// no key at all: the raw bytes come back, they must not be the plaintext
		plain, err := fscache.Open("verif", fscache.WithBaseDir(e.dir))
		if err == nil {
			got, _ := plain.Get(k)
			e.emit("S\tNOKEY\t%t", bytes.Equal(got, v) || containsFragment(got, v))
		}
	}
	// nonces under concurrency: overlapping writes of one value must all produce different files
	if !nonceRunDone {
		nonceRunDone = true
		writers, per := 8, 300
		if tier == "thorough" {
			per = 2000
		}
		val := bytes.Repeat([]byte("same value "), 6)
		var wg sync.WaitGroup
		var pmu sync.Mutex
		panics := 0
		// the nonce of EVERY write, not only of the files left at the end: each writer owns its keys, so the
		// file it reads back after its own Set is the one that Set wrote
		root := filepath.Join(e.dir, "verif")
		nonces := make([][]string, writers)
		for w := 0; w < writers; w++ {
			wg.Add(1)
			go func(w int) {
				defer wg.Done()
				defer func() {
					if r := recover(); r != nil {
						pmu.Lock()
						panics++
						pmu.Unlock()
					}
				}()
				for i := 0; i < per; i++ {
					k := "nonce-" + strconv.Itoa(w) + "-" + strconv.Itoa(i%50)
					if conn.Set(k, val) == nil {
						if b, err := os.ReadFile(filepath.Join(root, b64url(k))); err == nil && len(b) >= 12 {
							nonces[w] = append(nonces[w], string(b[:12]))
						}
					}
				}
			}(w)
		}
		wg.Wait()
		seen := map[string]int{}
		dups := 0
		for _, ns := range nonces {
			for _, n := range ns {
				seen[n]++
				if seen[n] == 2 {
					dups++
				}
			}
		}
		e.emit("S\tNONCES\t%d\t%d\t%d", writers*per, dups, panics)
		for w := 0; w < writers; w++ {
			for i := 0; i < 50; i++ {
				_ = conn.Delete("nonce-" + strconv.Itoa(w) + "-" + strconv.Itoa(i))
			}
		}
	}
	e.emit("E\t%s", id)
}

// fileOfLongKey: Set the key and return the (relative) file that appeared for it
func (e *env) fileOfLongKey(conn driver.Conn, k string, v []byte) string {
	pre := e.readAllFiles()
	if conn.Set(k, v) != nil {
		return ""
	}
	for f := range e.readAllFiles() {
		if _, ok := pre[f]; !ok {
			return f
		}
	}
	return ""
}

func fileIsFor(root, f string, before, after map[string][]byte, key string) bool {
	// heuristic-free: the harness uses distinct keys v0..v5 and 'cfg-*' only; a file whose content did not
	// change across the second Set of key k belongs to k only if deleting k removes it. The caller checks
	// equality first, so here we only need the ownership test, done by name: single-file keys are
	// base64url(key).
	return f == b64url(key)
}

func b64url(s string) string {
	const abc = "ABCDEFGHIJKLMNOPQRSTUVWXYZabcdefghijklmnopqrstuvwxyz0123456789-_"
	var sb strings.Builder
	b := []byte(s)
	for i := 0; i < len(b); i += 3 {
		var n uint32
		rem := len(b) - i
		switch {
		case rem >= 3:
			n = uint32(b[i])<<16 | uint32(b[i+1])<<8 | uint32(b[i+2])
			sb.WriteByte(abc[n>>18&63])
			sb.WriteByte(abc[n>>12&63])
			sb.WriteByte(abc[n>>6&63])
			sb.WriteByte(abc[n&63])
		case rem == 2:
			n = uint32(b[i])<<16 | uint32(b[i+1])<<8
			sb.WriteByte(abc[n>>18&63])
			sb.WriteByte(abc[n>>12&63])
			sb.WriteByte(abc[n>>6&63])
		default:
			n = uint32(b[i]) << 16
			sb.WriteByte(abc[n>>18&63])
			sb.WriteByte(abc[n>>12&63])
		}
	}
	return sb.String()
}

/* ------------------------------- atomicity (C15) ------------------------------- */

// child process: one Set with a file-size limit that cuts the write at byte k
func childCut() {
	dir := os.Getenv("VERIF_CUT_DIR")
	limit, _ := strconv.Atoi(os.Getenv("VERIF_CUT_LIMIT"))
	n, _ := strconv.Atoi(os.Getenv("VERIF_CUT_LEN"))
	enc := os.Getenv("VERIF_CUT_ENC") == "1"
	kill := os.Getenv("VERIF_CUT_KILL") == "1"
	opts := []fscache.Option{fscache.WithBaseDir(dir)}
	if enc {
		opts = append(opts, fscache.WithEncryption(encKey))
	}
	c, err := fscache.Open("verif", opts...)
	if err != nil {
		os.Exit(3)
	}
	if !kill {
		_ = syscall.Setrlimit(syscall.RLIMIT_FSIZE, &syscall.Rlimit{Cur: uint64(limit), Max: uint64(limit)})
	}
	v := bytes.Repeat([]byte("N"), n)
	if kill {
		// die in the middle of many writes
		go func() {
			time.Sleep(time.Duration(limit) * time.Microsecond)
			syscall.Kill(os.Getpid(), syscall.SIGKILL)
		}()
		for {
			_ = c.Set("cut", v)
		}
	}
	if err := c.Set("cut", v); err != nil {
		os.Exit(1)
	}
	os.Exit(0)
}

func (e *env) runCut(id string, self string, enc bool) {
	tag := "fs"
	if enc {
		tag = "fsenc"
	}
	e.emit("H\t%s\tC15\tcut-%s", id, tag)
	opts := []fscache.Option{fscache.WithBaseDir(e.dir)}
	if enc {
		opts = append(opts, fscache.WithEncryption(encKey))
	}
	c, err := fscache.Open("verif", opts...)
	if err != nil {
		e.emit("S\tFATAL\t%s", hx(err.Error()))
		e.emit("E\t%s", id)
		return
	}
	n := 64 + e.r.Intn(200)
	for _, withPrev := range []bool{false, true} {
		cuts := []int{0, 1, n / 2, n - 1, n, n + 5}
		for i := 0; i < 6; i++ {
			cuts = append(cuts, e.r.Intn(n+40))
		}
		for _, k := range cuts {
			_ = c.Delete("cut")
			prev := []byte(nil)
			if withPrev {
				prev = bytes.Repeat([]byte("O"), 50+e.r.Intn(300))
				_ = c.Set("cut", prev)
			}
			cmd := exec.Command(self, "-test.run", "TestStoreChild")
			cmd.Env = append(os.Environ(), "VERIF_CHILD=cut", "VERIF_CUT_DIR="+e.dir, "VERIF_CUT_LIMIT="+strconv.Itoa(k),
				"VERIF_CUT_LEN="+strconv.Itoa(n), "VERIF_CUT_ENC="+map[bool]string{true: "1", false: "0"}[enc])
			_ = cmd.Run()
			setOK := cmd.ProcessState != nil && cmd.ProcessState.ExitCode() == 0
			got, gerr := c.Get("cut")
			res := "other"
			switch {
			case gerr != nil && errors.Is(gerr, driver.ErrNotExist):
				res = "absent"
			case gerr != nil:
				res = "geterr"
			case bytes.Equal(got, bytes.Repeat([]byte("N"), n)):
				res = "new"
			case withPrev && bytes.Equal(got, prev):
				res = "prev"
			}
			e.emit("S\tCUT\t%d\t%d\t%t\t%t\t%s\t%d", k, n, withPrev, setOK, res, len(got))
		}
	}
	// SIGKILL of a writer in the middle of a stream of Sets over a previous value
	for i := 0; i < 4; i++ {
		prev := bytes.Repeat([]byte("O"), 100)
		_ = c.Set("cut", prev)
		cmd := exec.Command(self, "-test.run", "TestStoreChild")
		cmd.Env = append(os.Environ(), "VERIF_CHILD=cut", "VERIF_CUT_DIR="+e.dir, "VERIF_CUT_LIMIT="+strconv.Itoa(200+e.r.Intn(3000)),
			"VERIF_CUT_LEN=100000", "VERIF_CUT_KILL=1", "VERIF_CUT_ENC="+map[bool]string{true: "1", false: "0"}[enc])
		_ = cmd.Run()
		got, gerr := c.Get("cut")
		res := "other"
		switch {
		case gerr != nil && errors.Is(gerr, driver.ErrNotExist):
			res = "absent"
		case gerr != nil:
			res = "geterr"
		case bytes.Equal(got, bytes.Repeat([]byte("N"), 100000)):
			res = "new"
		case bytes.Equal(got, prev):
			res = "prev"
		}
		e.emit("S\tKILL\t%s\t%d", res, len(got))
	}
	// a value past every plausible buffer or limit size (64 MiB and one byte), set and read back whole
	{
		bigv := append(bytes.Repeat([]byte("0123456789abcdef"), (64<<20)/16), 'Z')
		_ = c.Delete("cut")
		serr := c.Set("cut", bigv)
		got, gerr := c.Get("cut")
		res := "other"
		switch {
		case gerr != nil && errors.Is(gerr, driver.ErrNotExist):
			res = "absent"
		case gerr != nil:
			res = "geterr"
		case bytes.Equal(got, bigv):
			res = "new"
		}
		e.emit("S\tCUT\t%d\t%d\t%t\t%t\t%s\t%d", 0, len(bigv), false, serr == nil, res, len(got))
		_ = c.Delete("cut")
	}
	// a Set cut short by the backend's own operation timeout (WithTimeout / timeout=): a second handle on the same
	// directory with a timeout far below what a large Set needs. Whatever that Set returns, a Get through the first
	// handle returns the complete new value, or what was there before — never a part of the new value.
	big := bytes.Repeat([]byte("T0123456789abcdef"), (6<<20)/17)
	for i, d := range []time.Duration{1, 1000, 20 * time.Microsecond, 200 * time.Microsecond, time.Millisecond, 3 * time.Millisecond, 8 * time.Millisecond, 20 * time.Millisecond} {
		withPrev := i%2 == 0
		_ = c.Delete("cut")
		prev := []byte(nil)
		if withPrev {
			prev = bytes.Repeat([]byte("O"), 300)
			_ = c.Set("cut", prev)
		}
		ct, err := fscache.Open("verif", append(append([]fscache.Option{}, opts...), fscache.WithTimeout(d))...)
		if err != nil {
			continue
		}
		serr := ct.Set("cut", big)
		// a Set that returned its timeout error goes on in the background and may land later: the key is watched until
		// it has landed (or for a second), and EVERY state seen on the way is judged
		res, glen := "", 0
		for w := 0; w < 200; w++ {
			got, gerr := c.Get("cut")
			r := "other"
			switch {
			case gerr != nil && errors.Is(gerr, driver.ErrNotExist):
				r = "absent"
			case gerr != nil:
				r = "geterr"
			case bytes.Equal(got, big):
				r = "new"
			case withPrev && bytes.Equal(got, prev):
				r = "prev"
			}
			if res == "" || r == "other" || r == "geterr" || (withPrev && r == "absent") {
				res, glen = r, len(got)
			}
			if serr == nil || r == "new" || r == "other" || r == "geterr" {
				break
			}
			time.Sleep(5 * time.Millisecond)
		}
		e.emit("S\tCUT\t%d\t%d\t%t\t%t\t%s\t%d", int(d), len(big), withPrev, serr == nil, res, glen)
	}
	e.emit("E\t%s", id)
}

func (e *env) runConc(id string, enc bool, dur time.Duration) {
	tag := "fs"
	if enc {
		tag = "fsenc"
	}
	if e.backend == "mem" {
		tag = "mem"
	}
	e.emit("H\t%s\tC15\tconc-%s", id, tag)
	// every second concurrent history with update_mtime=on: a Get then also touches the file it has read,
	// which a concurrent Delete may have removed meanwhile
	e.mtime = e.r.Intn(2) == 0
	if err := e.open(); err != nil {
		e.emit("S\tFATAL\t%s", hx(err.Error()))
		e.emit("E\t%s", id)
		return
	}
	c := e.conn
	var mu sync.Mutex
	var lines []string
	start := time.Now()
	now := func() int64 { return int64(time.Since(start)) }
	var wg sync.WaitGroup
	stop := make(chan struct{})
	size := []int{100, 4096, 65536}[e.r.Intn(3)]
	// values of very different lengths replace each other: a reader that sizes its buffer from one
	// version and reads another shows as a value of the wrong length
	lenOf := func(tok int) int { return []int{size, size/2 + 7, size*3 + 200}[tok%3] }
	val := func(tok int) []byte {
		b := make([]byte, lenOf(tok))
		s := fmt.Sprintf("<%08d>", tok)
		for i := 0; i < len(b); i += len(s) {
			copy(b[i:], s)
		}
		return b
	}
	tokOf := func(b []byte) string {
		if len(b) < 10 {
			return "torn-len" + strconv.Itoa(len(b))
		}
		first := string(b[:10])
		t, err := strconv.Atoi(strings.Trim(first, "<>"))
		if err != nil || first[0] != '<' || first[9] != '>' {
			return "torn-mixed"
		}
		if len(b) != lenOf(t) {
			return "torn-len" + strconv.Itoa(len(b))
		}
		for i := 0; i < len(b); i += 10 {
			if string(b[i:min(i+10, len(b))]) != first[:min(10, len(b)-i)] {
				return "torn-mixed"
			}
		}
		return strings.Trim(first, "<>")
	}
	var tokMu sync.Mutex
	next := 0
	for w := 0; w < 2; w++ {
		wg.Add(1)
		go func() {
			defer wg.Done()
			for n := 0; n < 250; n++ {
				select {
				case <-stop:
					return
				default:
				}
				tokMu.Lock()
				next++
				t := next
				tokMu.Unlock()
				t0 := now()
				var err error
				op := "W"
				if t%7 == 0 {
					op = "D"
					err = c.Delete("reg")
				} else {
					err = c.Set("reg", val(t))
				}
				t1 := now()
				mu.Lock()
				lines = append(lines, fmt.Sprintf("C\t%s\t%d\t%d\t%d\t%s", op, t, t0, t1, cls(err)))
				mu.Unlock()
			}
		}()
	}
	for r := 0; r < 3; r++ {
		wg.Add(1)
		go func() {
			defer wg.Done()
			// what a Get returned belongs to the caller: it is kept across the next Get and must still be the value it was
			var held []byte
			heldTok := ""
			for n := 0; n < 500; n++ {
				select {
				case <-stop:
					return
				default:
				}
				t0 := now()
				b, err := c.Get("reg")
				t1 := now()
				res := cls(err)
				tok := "-"
				if err == nil {
					tok = tokOf(b)
				}
				if held != nil && tokOf(held) != heldTok {
					mu.Lock()
					lines = append(lines, "S\tHELD\tchanged\t"+hx("reg"))
					mu.Unlock()
				}
				if err == nil && !strings.HasPrefix(tok, "torn") {
					held, heldTok = b, tok
				}
				mu.Lock()
				lines = append(lines, fmt.Sprintf("C\tR\t%s\t%d\t%d\t%s", tok, t0, t1, res))
				mu.Unlock()
			}
		}()
	}
	time.Sleep(dur)
	close(stop)
	wg.Wait()
	for _, l := range lines {
		e.emit("%s", l)
	}
	e.emit("E\t%s", id)
}

// runConcKeys: DIFFERENT keys set for the first time at the same moment. Long keys are spread over fragment
// directories; keys with a common beginning share directories that do not exist yet, and each Set creates
// them. A map stores every one of them: after the Sets have returned, the sequence is replayed against the
// model as if they had run one after the other (the keys are distinct, so the order does not matter).
func (e *env) runConcKeys(id string) {
	e.emit("H\t%s\tC14\t%s", id, e.backend)
	if err := e.open(); err != nil {
		e.emit("S\tFATAL\t%s", hx(err.Error()))
		e.emit("E\t%s", id)
		return
	}
	c := e.conn
	n := 8 + e.r.Intn(24)
	prefix := "http://example.com/" + strconv.Itoa(e.r.Intn(1000000)) + "/" + strings.Repeat("p", 60+e.r.Intn(300)) + "/"
	keys := make([]string, n)
	vals := make([][]byte, n)
	for i := range keys {
		keys[i] = prefix + strconv.Itoa(i) + "/" + strings.Repeat("q", e.r.Intn(120))
		vals[i] = []byte("value-" + strconv.Itoa(i))
	}
	if e.r.Intn(4) == 0 {
		keys[1] = keys[0] // the same long key twice
		vals[1] = vals[0]
	}
	res := make([]error, n)
	var wg sync.WaitGroup
	startc := make(chan struct{})
	for i := range keys {
		wg.Add(1)
		go func(i int) {
			defer wg.Done()
			<-startc
			res[i] = c.Set(keys[i], vals[i])
		}(i)
	}
	close(startc)
	wg.Wait()
	e.emit("S\tNOTE\tconckeys")
	for i := range keys {
		e.emit("S\tSET\t%s\t%s\t%s", hx(keys[i]), hx(string(vals[i])), cls(res[i]))
	}
	for i := range keys {
		b, err := c.Get(keys[i])
		e.emit("S\tGET\t%s\t%s\t%s", hx(keys[i]), cls(err), hx(string(b)))
	}
	e.emit("E\t%s", id)
}

/* ------------------------------- entry points ------------------------------- */

func TestStoreChild(t *testing.T) {
	if os.Getenv("VERIF_CHILD") == "cut" {
		childCut()
	}
}

func TestVerif(t *testing.T) {
	mode := os.Getenv("VERIF_MODE")
	if mode == "" {
		t.Skip()
	}
	out, err := os.Create(os.Getenv("VERIF_OUT"))
	if err != nil {
		t.Fatal(err)
	}
	defer out.Close()
	w := bufio.NewWriterSize(out, 1<<20)
	defer w.Flush()
	seed, _ := strconv.ParseInt(os.Getenv("VERIF_SEED"), 10, 64)
	count, _ := strconv.Atoi(os.Getenv("VERIF_COUNT"))
	tier := os.Getenv("VERIF_TIER")
	prop := os.Getenv("VERIF_PROP")
	r := rand.New(rand.NewSource(seed))
	self, _ := os.Executable()
	for i := 0; i < count; i++ {
		dir, err := os.MkdirTemp("", "verif-store-")
		if err != nil {
			t.Fatal(err)
		}
		e := &env{w: w, r: r, dir: dir, t: t}
		id := fmt.Sprintf("%s-%d", prop, i+1)
		switch prop {
		case "C14":
			e.backend = []string{"mem", "fs", "fsenc"}[i%3]
			if i%10 == 9 {
				e.runExpapi(id)
			} else if i%10 == 7 {
				e.backend = []string{"fs", "fsenc", "mem"}[(i/10)%3]
				e.runConcKeys(id)
			} else {
				n := 40
				if tier == "thorough" {
					n = 150
				}
				e.runSeq(id, tier, n)
			}
		case "C17":
			e.backend = "fsenc"
			e.runEnc(id, tier)
		case "C15":
			switch i % 4 {
			case 0:
				e.backend = "fs"
				e.runCut(id, self, false)
			case 1:
				e.backend = "fsenc"
				e.runCut(id, self, true)
			case 2:
				e.backend = "fs"
				d := 150 * time.Millisecond
				if tier == "thorough" {
					d = 2 * time.Second
				}
				e.runConc(id, false, d)
			default:
				e.backend = []string{"fsenc", "mem"}[(i/4)%2]
				d := 150 * time.Millisecond
				if tier == "thorough" {
					d = 2 * time.Second
				}
				e.runConc(id, e.backend == "fsenc", d)
			}
		}
		w.Flush()
		os.RemoveAll(dir)
	}
}
