import Httpcache.Core.Basic
import Httpcache.Model.Types
import Httpcache.Model.Directives
