import Httpcache.Model.RoundTrip
/-
Executions of an interaction tree against an ARBITRARY environment: `Run p tr r` holds when the
program `p`, receiving the answers recorded in `tr`, ends with result `r`. Nothing is assumed
about the answers: the store may return anything, fail at any operation, the origin may answer
anything at any time. A theorem `∀ tr r, Run (roundTrip …) tr r → …` therefore holds at any
position of any history and under any interleaving with other users of the store.
-/
namespace Httpcache

inductive Step where
  | getRefs (key : Str) (a : Option (List Ref))
  | getEntry (id : Str) (a : Option Entry)
  | setEntry (id : Str) (e : Entry) (ok : Bool)
  | setRefs (key : Str) (refs : List Ref) (ok : Bool)
  | delete (key : Str)
  | origin (method : Str) (hdr : Header) (deadline : Option Int) (a : OriginAns)
  | spawn (bg : Prog)

inductive Run : Prog → List Step → Result → Prop where
  | ret (r : Result) : Run (.ret r) [] r
  | getRefs {key k tr r} (a : Option (List Ref)) : Run (k a) tr r → Run (.getRefs key k) (.getRefs key a :: tr) r
  | getEntry {id k tr r} (a : Option Entry) : Run (k a) tr r → Run (.getEntry id k) (.getEntry id a :: tr) r
  | setEntry {id e k tr r} (ok : Bool) : Run (k ok) tr r → Run (.setEntry id e k) (.setEntry id e ok :: tr) r
  | setRefs {key refs k tr r} (ok : Bool) : Run (k ok) tr r → Run (.setRefs key refs k) (.setRefs key refs ok :: tr) r
  | delete {key k tr r} : Run k tr r → Run (.delete key k) (.delete key :: tr) r
  | origin {m h d k tr r} (a : OriginAns) : Run (k a) tr r → Run (.origin m h d k) (.origin m h d a :: tr) r
  | spawn {bg k tr r} : Run k tr r → Run (.spawn bg k) (.spawn bg :: tr) r

def Step.isOrigin : Step → Bool
  | .origin _ _ _ _ => true
  | _ => false

def Step.isSpawn : Step → Bool
  | .spawn _ => true
  | _ => false

def Step.isWrite : Step → Bool
  | .setEntry _ _ _ => true
  | .setRefs _ _ _ => true
  | _ => false

/-- the exchange contacted the origin (in the foreground) -/
def contacted (tr : List Step) : Bool := tr.any Step.isOrigin
def spawned (tr : List Step) : Bool := tr.any Step.isSpawn
def wrote (tr : List Step) : Bool := tr.any Step.isWrite

end Httpcache
