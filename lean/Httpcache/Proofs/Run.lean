import Httpcache.Model.RoundTrip
/-
Executions of an interaction tree against an ARBITRARY environment: `Run p tr r` holds when the
program `p`, receiving the answers recorded in `tr`, ends with result `r`. Nothing is assumed
about the answers: the store may return anything, fail at any operation, the origin may answer
anything at any time. A theorem `∀ tr r, Run (roundTrip …) tr r → …` therefore holds at any
position of any history and under any interleaving with other users of the store.
-/
namespace Httpcache

inductive Step where
  | getRefs (key : Str) (a : Option (List Ref))
  | getEntry (id : Str) (a : Option Entry)
  | setEntry (id : Str) (e : Entry) (ok : Bool)
  | setRefs (key : Str) (refs : List Ref) (ok : Bool)
  | delete (key : Str)
  | origin (method : Str) (hdr : Header) (deadline : Option Int) (a : OriginAns)
  | spawn (bg : Prog)

inductive Run : Prog → List Step → Result → Prop where
  | ret (r : Result) : Run (.ret r) [] r
  | getRefs {key k tr r} (a : Option (List Ref)) : Run (k a) tr r → Run (.getRefs key k) (.getRefs key a :: tr) r
  | getEntry {id k tr r} (a : Option Entry) : Run (k a) tr r → Run (.getEntry id k) (.getEntry id a :: tr) r
  | setEntry {id e k tr r} (ok : Bool) : Run (k ok) tr r → Run (.setEntry id e k) (.setEntry id e ok :: tr) r
  | setRefs {key refs k tr r} (ok : Bool) : Run (k ok) tr r → Run (.setRefs key refs k) (.setRefs key refs ok :: tr) r
  | delete {key k tr r} : Run k tr r → Run (.delete key k) (.delete key :: tr) r
  | origin {m h d k tr r} (a : OriginAns) : Run (k a) tr r → Run (.origin m h d k) (.origin m h d a :: tr) r
  | spawn {bg k tr r} : Run k tr r → Run (.spawn bg k) (.spawn bg :: tr) r

def Step.isOrigin : Step → Bool
  | .origin _ _ _ _ => true
  | _ => false

def Step.isSpawn : Step → Bool
  | .spawn _ => true
  | _ => false

def Step.isWrite : Step → Bool
  | .setEntry _ _ _ => true
  | .setRefs _ _ _ => true
  | _ => false

/-- the exchange contacted the origin (in the foreground) -/
def contacted (tr : List Step) : Bool := tr.any Step.isOrigin
def spawned (tr : List Step) : Bool := tr.any Step.isSpawn
def wrote (tr : List Step) : Bool := tr.any Step.isWrite

/-- an environment: how the outside world answers each operation (any functions at all) -/
structure Env where
  refs : Str → Option (List Ref)
  entry : Str → Option Entry
  setEntry : Str → Entry → Bool
  setRefs : Str → List Ref → Bool
  origin : Str → Header → Option Int → OriginAns

/-- the execution of a program against an environment, by structural recursion on the tree: its
    mere definability is the termination ("no hang in the logic") argument -/
def exec (env : Env) : Prog → List Step × Result
  | .ret r => ([], r)
  | .getRefs k f => let a := env.refs k; let (t, r) := exec env (f a); (.getRefs k a :: t, r)
  | .getEntry i f => let a := env.entry i; let (t, r) := exec env (f a); (.getEntry i a :: t, r)
  | .setEntry i e f => let a := env.setEntry i e; let (t, r) := exec env (f a); (.setEntry i e a :: t, r)
  | .setRefs k l f => let a := env.setRefs k l; let (t, r) := exec env (f a); (.setRefs k l a :: t, r)
  | .delete k f => let (t, r) := exec env f; (.delete k :: t, r)
  | .origin m h d f => let a := env.origin m h d; let (t, r) := exec env (f a); (.origin m h d a :: t, r)
  | .spawn bg f => let (t, r) := exec env f; (.spawn bg :: t, r)

/-- Totality: for every program and every environment there is a (finite) execution. -/
theorem exec_runs (env : Env) (p : Prog) : Run p (exec env p).1 (exec env p).2 := by
  induction p with
  | ret r => exact Run.ret r
  | getRefs k f ih => exact Run.getRefs _ (ih _)
  | getEntry i f ih => exact Run.getEntry _ (ih _)
  | setEntry i e f ih => exact Run.setEntry _ (ih _)
  | setRefs k l f ih => exact Run.setRefs _ (ih _)
  | delete k f ih => exact Run.delete ih
  | origin m h d f ih => exact Run.origin _ (ih _)
  | spawn bg f _ ih => exact Run.spawn ih


end Httpcache
