import Httpcache.Model.FsOps
namespace Httpcache

/-- the invariant of the file-system backend -/
structure FsInv (s : Fs) : Prop where
  /-- every inode that was ever published holds, in full, a value passed to a Set -/
  pubComplete : ∀ i ∈ s.published, ∃ k v, (k, v) ∈ s.written ∧ s.content i = v
  /-- a final name points to a published inode that holds a value passed to a Set for THAT key -/
  finalOk : ∀ k i, s.final k = some i → i ∈ s.published ∧ ∃ v, (k, v) ∈ s.written ∧ s.content i = v
  /-- writers work on private, unpublished inodes -/
  writerPrivate : ∀ w ∈ s.writers, w.ino ∉ s.published ∧ w.ino < s.nextIno ∧ (w.key, w.value) ∈ s.written
  pubBound : ∀ i ∈ s.published, i < s.nextIno
  writerDistinct : ∀ w1 ∈ s.writers, ∀ w2 ∈ s.writers, w1.ino = w2.ino → w1 = w2

theorem FsInv.init : FsInv Fs.init := by
  constructor <;> intros <;> simp_all [Fs.init]

theorem FsInv.step {s s' : Fs} (h : FsInv s) (st : FsStep s s') : FsInv s' := by
  cases st with
  | beginSet k v =>
    constructor
    · intro i hi
      obtain ⟨k', v', hw, hc⟩ := h.pubComplete i hi
      have : i ≠ s.nextIno := by have := h.pubBound i hi; omega
      exact ⟨k', v', List.mem_cons_of_mem _ hw, by simp [setContent, this, hc]⟩
    · intro k' i hf
      obtain ⟨hp, v', hw, hc⟩ := h.finalOk k' i hf
      have : i ≠ s.nextIno := by have := h.pubBound i hp; omega
      exact ⟨hp, v', List.mem_cons_of_mem _ hw, by simp [setContent, this, hc]⟩
    · intro w hw
      simp only [List.mem_cons] at hw
      rcases hw with hw | hw
      · subst hw
        refine ⟨fun hp => ?_, by simp, by simp⟩
        have := h.pubBound _ hp; simp at this
      · obtain ⟨h1, h2, h3⟩ := h.writerPrivate w hw
        exact ⟨h1, by simp; omega, List.mem_cons_of_mem _ h3⟩
    · intro i hi; have := h.pubBound i hi; simp; omega
    · intro w1 h1 w2 h2 he
      simp only [List.mem_cons] at h1 h2
      rcases h1 with h1 | h1 <;> rcases h2 with h2 | h2
      · rw [h1, h2]
      · subst h1; have := (h.writerPrivate w2 h2).2.1; simp at he; omega
      · subst h2; have := (h.writerPrivate w1 h1).2.1; simp at he; omega
      · exact h.writerDistinct w1 h1 w2 h2 he
  | write w n hw =>
    have hpriv := h.writerPrivate w hw
    constructor
    · intro i hi
      obtain ⟨k', v', hw', hc⟩ := h.pubComplete i hi
      have : i ≠ w.ino := fun he => hpriv.1 (he ▸ hi)
      exact ⟨k', v', hw', by simp [setContent, this, hc]⟩
    · intro k' i hf
      obtain ⟨hp, v', hw', hc⟩ := h.finalOk k' i hf
      have : i ≠ w.ino := fun he => hpriv.1 (he ▸ hp)
      exact ⟨hp, v', hw', by simp [setContent, this, hc]⟩
    · exact h.writerPrivate
    · exact h.pubBound
    · exact h.writerDistinct
  | abandon w hw =>
    constructor
    · exact h.pubComplete
    · exact h.finalOk
    · intro w' hw'; exact h.writerPrivate w' ((List.mem_filter.mp hw').1)
    · exact h.pubBound
    · intro w1 h1 w2 h2; exact h.writerDistinct w1 ((List.mem_filter.mp h1).1) w2 ((List.mem_filter.mp h2).1)
  | commit w hw hc =>
    have hpriv := h.writerPrivate w hw
    constructor
    · intro i hi
      simp only [List.mem_cons] at hi
      rcases hi with hi | hi
      · subst hi; exact ⟨w.key, w.value, hpriv.2.2, hc⟩
      · exact h.pubComplete i hi
    · intro k' i hf
      simp only [setFinal] at hf
      split at hf
      · rename_i hk
        cases hf
        exact ⟨List.mem_cons_self, w.value, by rw [hk]; exact hpriv.2.2, hc⟩
      · obtain ⟨hp, rest⟩ := h.finalOk k' i hf
        exact ⟨List.mem_cons_of_mem _ hp, rest⟩
    · intro w' hw'
      have hw'' := (List.mem_filter.mp hw').1
      have hne : w' ≠ w := by simpa using (List.mem_filter.mp hw').2
      obtain ⟨h1, h2, h3⟩ := h.writerPrivate w' hw''
      refine ⟨fun hp => ?_, h2, h3⟩
      simp only [List.mem_cons] at hp
      rcases hp with hp | hp
      · exact hne (h.writerDistinct w' hw'' w hw hp)
      · exact h1 hp
    · intro i hi
      simp only [List.mem_cons] at hi
      rcases hi with hi | hi
      · subst hi; exact hpriv.2.1
      · exact h.pubBound i hi
    · intro w1 h1 w2 h2; exact h.writerDistinct w1 ((List.mem_filter.mp h1).1) w2 ((List.mem_filter.mp h2).1)
  | delete k =>
    constructor
    · exact h.pubComplete
    · intro k' i hf
      simp only [setFinal] at hf
      split at hf
      · cases hf
      · exact h.finalOk k' i hf
    · exact h.writerPrivate
    · exact h.pubBound
    · exact h.writerDistinct

theorem FsInv.steps {s s' : Fs} (h : FsInv s) (st : FsSteps s s') : FsInv s' := by
  induction st with
  | refl => exact h
  | step _ st ih => exact ih.step st

/-- the bytes of a published inode never change again, whatever happens afterwards -/
theorem published_stable {s s' : Fs} (h : FsInv s) (st : FsStep s s') (i : Nat) (hi : i ∈ s.published) :
    s'.content i = s.content i ∧ i ∈ s'.published := by
  cases st with
  | beginSet k v =>
    have : i ≠ s.nextIno := by have := h.pubBound i hi; omega
    exact ⟨by simp [setContent, this], hi⟩
  | write w n hw =>
    have : i ≠ w.ino := fun he => (h.writerPrivate w hw).1 (he ▸ hi)
    exact ⟨by simp [setContent, this], hi⟩
  | abandon w hw => exact ⟨rfl, hi⟩
  | commit w hw hc => exact ⟨rfl, List.mem_cons_of_mem _ hi⟩
  | delete k => exact ⟨rfl, hi⟩

theorem published_stable_steps {s s' : Fs} (h : FsInv s) (st : FsSteps s s') (i : Nat) (hi : i ∈ s.published) :
    s'.content i = s.content i ∧ i ∈ s'.published := by
  induction st with
  | refl => exact ⟨rfl, hi⟩
  | step st1 st2 ih =>
    have hinv := h.steps st1
    obtain ⟨hc, hp⟩ := ih
    obtain ⟨hc2, hp2⟩ := published_stable hinv st2 i hp
    exact ⟨hc2.trans hc, hp2⟩

theorem written_mono {s s' : Fs} (st : FsSteps s s') : ∀ p ∈ s.written, p ∈ s'.written := by
  induction st with
  | refl => intro p hp; exact hp
  | step _ st2 ih =>
    intro p hp
    have := ih p hp
    cases st2 <;> simp_all

end Httpcache
