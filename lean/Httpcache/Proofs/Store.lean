import Httpcache.Proofs.Validation
/- Variant matching, index maintenance and invalidation: lemmas for C04, C07, C08, C09, C19. -/
namespace Httpcache

/-! ### the variant matcher -/

theorem match_sound (normQ : Str → Str → Str) (refs sorted : List Ref) (reqH : Header) (i : Nat)
    (h : varyHeadersMatch normQ refs reqH = (sorted, some i)) :
    ∃ r, sorted[i]? = some r ∧ varyHasWildcard r.vary = false ∧ ∀ p ∈ r.resolved, reqValue normQ reqH p.1 = p.2 := by
  unfold varyHeadersMatch at h
  simp only [Prod.mk.injEq] at h
  obtain ⟨hs, hf⟩ := h
  subst hs
  rw [List.findIdx?_eq_some_iff_getElem] at hf
  obtain ⟨hlt, hp, _⟩ := hf
  refine ⟨(sortRefs refs)[i], by simp [hlt], ?_, ?_⟩
  · unfold varyMatchOne at hp
    simp only [Bool.and_eq_true, Bool.not_eq_true'] at hp
    exact hp.1
  · unfold varyMatchOne at hp
    simp only [Bool.and_eq_true, List.all_eq_true, decide_eq_true_eq] at hp
    exact hp.2

theorem mem_insertBy {α} (le : α → α → Bool) (x y : α) (l : List α) : y ∈ insertBy le x l ↔ y = x ∨ y ∈ l := by
  induction l with
  | nil => simp [insertBy]
  | cons z zs ih =>
    unfold insertBy
    split
    · simp
    · simp only [List.mem_cons, ih]
      constructor
      · rintro (h | h | h)
        · right; left; exact h
        · left; exact h
        · right; right; exact h
      · rintro (h | h | h)
        · right; left; exact h
        · left; exact h
        · right; right; exact h

theorem mem_sortBy {α} (le : α → α → Bool) (y : α) (l : List α) : y ∈ sortBy le l ↔ y ∈ l := by
  unfold sortBy
  induction l with
  | nil => simp
  | cons x xs ih => simp only [List.foldr_cons, mem_insertBy, ih, List.mem_cons]

theorem mem_ainsert {β} (k : Str) (v : β) (m : List (Str × β)) (p : Str × β) (h : p ∈ ainsert k v m) :
    p = (k, v) ∨ p ∈ m := by
  induction m with
  | nil => simp [ainsert] at h; exact Or.inl h
  | cons q qs ih =>
    unfold ainsert at h
    split at h
    · simp only [List.mem_cons] at h
      rcases h with h | h
      · exact Or.inl h
      · exact Or.inr (List.mem_cons_of_mem _ h)
    · simp only [List.mem_cons] at h
      rcases h with h | h
      · exact Or.inr (by rw [h]; exact List.mem_cons_self)
      · rcases ih h with h' | h'
        · exact Or.inl h'
        · exact Or.inr (List.mem_cons_of_mem _ h')

/-- every (field, value) pair recorded for a stored response is the storing request's normalised
    value of that field -/
theorem normalizeVary_records_request (normQ : Str → Str → Str) (vary : Str) (reqH : Header) :
    ∀ p ∈ normalizeVary normQ vary reqH, p.2 = reqValue normQ reqH p.1 := by
  intro p hp
  unfold normalizeVary at hp
  rw [mem_sortBy] at hp
  have gen : ∀ (names : List Str) (m : List (Str × Str)), (∀ q ∈ m, q.2 = reqValue normQ reqH q.1) →
      ∀ q ∈ names.foldl (fun m n => ainsert n (reqValue normQ reqH n) m) m, q.2 = reqValue normQ reqH q.1 := by
    intro names
    induction names with
    | nil => intro m hm q hq; exact hm q hq
    | cons n ns ih =>
      intro m hm q hq
      simp only [List.foldl_cons] at hq
      apply ih _ _ q hq
      intro q' hq'
      rcases mem_ainsert _ _ _ _ hq' with h | h
      · rw [h]
      · exact hm q' h
  exact gen _ [] (by intro q hq; cases hq) p hp

/-- Variant isolation for one reference: if a request matches a reference written for an earlier
    request, both requests have the same normalised value for every nominated field -/
theorem match_means_same_selecting_values (normQ : Str → Str → Str) (vary : Str) (reqA reqB : Header) (r : Ref)
    (hr : r.resolved = normalizeVary normQ vary reqA) (hm : varyMatchOne normQ r reqB = true) :
    ∀ p ∈ r.resolved, reqValue normQ reqB p.1 = reqValue normQ reqA p.1 := by
  intro p hp
  unfold varyMatchOne at hm
  simp only [Bool.and_eq_true, List.all_eq_true, decide_eq_true_eq] at hm
  rw [hm.2 p hp]
  rw [hr] at hp
  exact normalizeVary_records_request normQ vary reqA p hp


/-! ### what the invalidator deletes -/

/-- a trace accounts for a `deleted` set: everything in it that was not deleted before has a delete step -/
def Accounts (before after : List Str) (tr : List Step) : Prop :=
  (∀ x ∈ before, x ∈ after) ∧ (∀ x ∈ after, x ∈ before ∨ Step.delete x ∈ tr)

theorem delOnce_acc (deleted : List Str) (k : Str) (cont : List Str → Prog) (tr : List Step) (r : Result)
    (h : Run (delOnce deleted k cont) tr r) :
    ∃ tr1 tr2 d, tr = tr1 ++ tr2 ∧ Run (cont d) tr2 r ∧ Accounts deleted d tr1 ∧ k ∈ d := by
  unfold delOnce at h
  split at h
  · rename_i hk
    exact ⟨[], tr, deleted, rfl, h, ⟨fun x hx => hx, fun x hx => Or.inl hx⟩, by simpa using hk⟩
  · cases h with
    | delete h1 =>
      refine ⟨[Step.delete k], _, k :: deleted, rfl, h1, ⟨fun x hx => List.mem_cons_of_mem _ hx, ?_⟩, List.mem_cons_self⟩
      intro x hx
      simp only [List.mem_cons] at hx
      rcases hx with hx | hx
      · right; rw [hx]; exact List.mem_cons_self
      · left; exact hx

theorem accounts_trans {a b c : List Str} {t1 t2 : List Step} (h1 : Accounts a b t1) (h2 : Accounts b c t2) :
    Accounts a c (t1 ++ t2) := by
  refine ⟨fun x hx => h2.1 x (h1.1 x hx), ?_⟩
  intro x hx
  rcases h2.2 x hx with h | h
  · rcases h1.2 x h with h' | h'
    · exact Or.inl h'
    · exact Or.inr (List.mem_append_left _ h')
  · exact Or.inr (List.mem_append_right _ h)

theorem delMany_acc (ks : List Str) : ∀ (deleted : List Str) (cont : List Str → Prog) (tr : List Step) (r : Result),
    Run (delMany deleted ks cont) tr r →
    ∃ tr1 tr2 d, tr = tr1 ++ tr2 ∧ Run (cont d) tr2 r ∧ Accounts deleted d tr1 ∧ ∀ k ∈ ks, k ∈ d := by
  induction ks with
  | nil =>
    intro deleted cont tr r h
    exact ⟨[], tr, deleted, rfl, h, ⟨fun x hx => hx, fun x hx => Or.inl hx⟩, by intro k hk; cases hk⟩
  | cons k ks ih =>
    intro deleted cont tr r h
    unfold delMany at h
    obtain ⟨a1, a2, d1, ha, hrun1, hacc1, hk1⟩ := delOnce_acc _ _ _ _ _ h
    obtain ⟨b1, b2, d2, hb, hrun2, hacc2, hk2⟩ := ih _ _ _ _ hrun1
    refine ⟨a1 ++ b1, b2, d2, by rw [ha, hb, List.append_assoc], hrun2, accounts_trans hacc1 hacc2, ?_⟩
    intro x hx
    simp only [List.mem_cons] at hx
    rcases hx with hx | hx
    · rw [hx]; exact hacc2.1 _ hk1
    · exact hk2 x hx

theorem invalidateLocation_acc (cfg : Cfg) (req : Req) (respH : Header) (hdr : Str) (deleted : List Str)
    (cont : List Str → Prog) (tr : List Step) (r : Result)
    (h : Run (invalidateLocation cfg req respH hdr deleted cont) tr r) :
    ∃ tr1 tr2 d, tr = tr1 ++ tr2 ∧ Run (cont d) tr2 r ∧ Accounts deleted d tr1 := by
  unfold invalidateLocation at h
  split at h
  · exact ⟨[], tr, deleted, rfl, h, ⟨fun x hx => hx, fun x hx => Or.inl hx⟩⟩
  · split at h
    · exact ⟨[], tr, deleted, rfl, h, ⟨fun x hx => hx, fun x hx => Or.inl hx⟩⟩
    · split at h
      · rename_i g _ _
        cases h with
        | getRefs a h1 =>
          obtain ⟨a1, a2, d1, ha, hrun1, hacc1, _⟩ := delMany_acc _ _ _ _ _ h1
          obtain ⟨b1, b2, d2, hb, hrun2, hacc2, _⟩ := delOnce_acc _ _ _ _ _ hrun1
          subst ha; subst hb
          refine ⟨Step.getRefs (resolveLoc req g).key a :: (a1 ++ b1), b2, d2,
            by simp [List.append_assoc], hrun2, ?_⟩
          have := accounts_trans hacc1 hacc2
          refine ⟨this.1, fun x hx => ?_⟩
          rcases this.2 x hx with h' | h'
          · exact Or.inl h'
          · exact Or.inr (List.mem_cons_of_mem _ h')
      · exact ⟨[], tr, deleted, rfl, h, ⟨fun x hx => hx, fun x hx => Or.inl hx⟩⟩

/-- InvalidateCache deletes the index key and the id of every reference it was given -/
theorem invalidateCache_deletes (cfg : Cfg) (req : Req) (respH : Header) (refs : List Ref) (key : Str) (k : Prog)
    (tr : List Step) (r : Result) (h : Run (invalidateCache cfg req respH refs key k) tr r) :
    Step.delete key ∈ tr ∧ ∀ ref ∈ refs, Step.delete ref.id ∈ tr := by
  unfold invalidateCache at h
  obtain ⟨a1, a2, d1, ha, h1, acc1, hk1⟩ := delMany_acc _ _ _ _ _ h
  obtain ⟨b1, b2, d2, hb, h2, acc2⟩ := invalidateLocation_acc _ _ _ _ _ _ _ _ h1
  obtain ⟨c1, c2, d3, hc, h3, acc3⟩ := invalidateLocation_acc _ _ _ _ _ _ _ _ h2
  obtain ⟨e1, e2, d4, he, h4, acc4, hk4⟩ := delOnce_acc _ _ _ _ _ h3
  have acc := accounts_trans (accounts_trans (accounts_trans acc1 acc2) acc3) acc4
  have htr : tr = (a1 ++ b1 ++ c1 ++ e1) ++ e2 := by rw [ha, hb, hc, he]; simp [List.append_assoc]
  have key_del : ∀ x ∈ d4, Step.delete x ∈ tr := by
    intro x hx
    rcases acc.2 x hx with h' | h'
    · cases h'
    · rw [htr]; exact List.mem_append_left _ h'
  refine ⟨key_del key hk4, ?_⟩
  intro ref href
  apply key_del
  apply acc4.1; apply acc3.1; apply acc2.1
  exact hk1 ref.id (List.mem_map.mpr ⟨ref, href, rfl⟩)


/-! ### index maintenance -/

/-- replacing / appending a reference keeps every other reference, except exact duplicates of the new one -/
theorem store_keeps_other_variants (refs : List Ref) (ri : Option Nat) (ref : Ref) (r : Ref) (j : Nat)
    (hj : refs[j]? = some r) (hne : ∀ i, ri = some i → i < refs.length → j ≠ i) :
    r ∈ dedupeRefs (placeRef refs ri ref).1 (placeRef refs ri ref).2 ref ∨ sameVariant r ref = true := by
  by_cases hsv : sameVariant r ref = true
  · exact Or.inr hsv
  · left
    unfold dedupeRefs
    rw [List.mem_map]
    -- r still sits at position j of the placed list
    have hplace : (placeRef refs ri ref).1[j]? = some r := by
      unfold placeRef
      split
      · rename_i i
        split
        · rename_i hlt
          have := hne i rfl hlt
          simp only [List.getElem?_set]
          simp [Ne.symm this, hj]
        · rw [List.getElem?_append_left]; exact hj
          exact (List.getElem?_eq_some_iff.mp hj).1
      · rw [List.getElem?_append_left]; exact hj
        exact (List.getElem?_eq_some_iff.mp hj).1
    refine ⟨(r, j), ?_, rfl⟩
    rw [List.mem_filter]
    refine ⟨?_, by simp [hsv]⟩
    rw [List.mem_zipIdx_iff_getElem?]
    simpa using hplace

/-- after the de-duplication the new reference occurs exactly where it was placed: no other
    position holds the same variant -/
theorem dedupe_unique (refs : List Ref) (idx : Nat) (ref : Ref) (p : Ref × Nat)
    (hp : p ∈ (refs.zipIdx.filter (fun p => p.2 = idx || !sameVariant p.1 ref))) (hsv : sameVariant p.1 ref = true) :
    p.2 = idx := by
  rw [List.mem_filter] at hp
  simpa [hsv] using hp.2

theorem dedupe_length_le (refs : List Ref) (idx : Nat) (ref : Ref) : (dedupeRefs refs idx ref).length ≤ refs.length := by
  unfold dedupeRefs
  rw [List.length_map]
  calc (refs.zipIdx.filter _).length ≤ refs.zipIdx.length := List.length_filter_le _ _
    _ = refs.length := by simp

/-- an index grows by at most one reference per stored response -/
theorem index_growth (refs : List Ref) (ri : Option Nat) (ref : Ref) :
    (dedupeRefs (placeRef refs ri ref).1 (placeRef refs ri ref).2 ref).length ≤ refs.length + 1 := by
  refine Nat.le_trans (dedupe_length_le _ _ _) ?_
  unfold placeRef
  split
  · split <;> simp
  · simp


/-- after a 304 the entry is written back under its id: merged fields, unchanged status and body,
    timestamps of the validation exchange -/
theorem freshen_persists (cfg : Cfg) (reqH : Header) (key : Str) (stored : Entry) (refs : List Ref) (ri : Option Nat)
    (f : Freshness) (ccReq : Directives) (mv : Bool) (start t1 : Int) (r : Resp) (b : Bool) (tr : List Step) (res : Result)
    (h304 : r.status = 304) (hval : clientPreconditionForwarded reqH stored.resp.header = false) (hid : stored.id ≠ [])
    (hns : ccReq.noStore = false) (hns' : (parseCC r.header).noStore = false)
    (hcs : canStoreResponse (respWith stored.resp (updateStoredHeaders (Header.del stored.resp.header sAge) r.header)) ccReq
             (parseCC (updateStoredHeaders (Header.del stored.resp.header sAge) r.header)) = true)
    (hvary : joinWith [',', ' '] (Header.values (updateStoredHeaders (Header.del stored.resp.header sAge) r.header) sVary) =
             joinWith [',', ' '] (Header.values stored.resp.header sVary))
    (h : Run (handleValidation cfg sGET reqH key stored refs ri f ccReq mv start (.resp r t1 b) (fun r => .ret r)) tr res) :
    ∃ ok, tr = [Step.setEntry stored.id
        { stored with requestedAt := start, receivedAt := t1,
                      resp := respWith stored.resp (updateStoredHeaders (Header.del stored.resp.header sAge) r.header) } ok] ∧
      res = .resp (respWith stored.resp (applyStatus .revalidated (updateStoredHeaders (Header.del stored.resp.header sAge) r.header))) := by
  unfold handleValidation at h
  simp only [h304, hval, decide_true, Bool.and_self, Bool.not_false, ↓reduceIte] at h
  have hne : stored.id.isEmpty = false := by cases hs : stored.id with
    | nil => exact absurd hs hid
    | cons c cs => rfl
  simp only [hne, hns, hns', hcs, Bool.not_true, Bool.or_self, Bool.false_eq_true, ↓reduceIte, hvary, ne_eq, not_true_eq_false] at h
  cases h with
  | setEntry ok h1 => cases h1; exact ⟨ok, rfl, rfl⟩

/-- with no request directives the calculator says "fresh" exactly when the age is below the
    response's own lifetime -/
theorem calc_no_req_cc (g : Glue) (now : Int) (e : Entry) (resCC : Directives) :
    (calculateFreshness g now e [] resCC).isStale = decide (currentAge g now e ≥ responseLifetime g e resCC) := by
  unfold calculateFreshness
  have h1 : Directives.maxAge [] = none := rfl
  have h2 : minFreshStale [] (requestLifetime (responseLifetime g e resCC) []) (currentAge g now e) = false := rfl
  have h3 : requestLifetime (responseLifetime g e resCC) [] = responseLifetime g e resCC := rfl
  have h4 : maxStaleOf [] = 0 := rfl
  have h2' : minFreshStale [] (responseLifetime g e resCC) (currentAge g now e) = false := rfl
  simp only [h1, h3, h4, reduceCtorEq, ↓reduceIte, staleAfterMaxStale, h2', Bool.false_eq_true]
  simp

/-- C09 core (liveness): a plain GET without Cache-Control whose index lookup matches a reference
    and whose entry read succeeds is answered from the store without contacting the origin, when
    the stored response has an explicit max-age that its RFC age is below and carries neither an
    unqualified no-cache nor (irrelevant when fresh) anything else demanding validation. -/
theorem fresh_match_hits (cfg : Cfg) (t0 : Int) (req : Req) (e : Entry) (key : Str) (refs : List Ref) (i : Nat)
    (hcc : parseCC req.header = []) (hT : TimesOK e)
    (n : Int) (hma : (parseCC e.resp.header).maxAge = some n) (hpres : (parseCC e.resp.header).maxAgePresent = true)
    (hncu : (parseCC e.resp.header).noCacheUnqualified = false)
    (hfresh : Spec.currentAge cfg.glue.parseTime (Spec.storedOfEntry e) t0 < n)
    (tr : List Step) (r : Result) (h : Run (handleCacheHit cfg t0 req e key refs i) tr r) :
    tr = [] ∧ ∃ f, r = .resp (serveFromCache f t0 e (parseCC e.resp.header)) := by
  have hlife : responseLifetime cfg.glue e (parseCC e.resp.header) = n := by
    unfold responseLifetime; simp [hpres, hma]
  have hst : (calculateFreshness cfg.glue t0 e [] (parseCC e.resp.header)).isStale = false := by
    rw [calc_no_req_cc, hlife, age_eq cfg.glue t0 e hT]
    simp; omega
  unfold handleCacheHit at h
  rw [hcc] at h
  have htf : transportFreshness cfg.glue t0 e [] (parseCC e.resp.header) =
      (calculateFreshness cfg.glue t0 e [] (parseCC e.resp.header), false) := rfl
  simp only [htf] at h
  have hmv : mustValidateOf (calculateFreshness cfg.glue t0 e [] (parseCC e.resp.header)) [] (parseCC e.resp.header) = false := by
    unfold mustValidateOf
    rw [hst, hncu]; rfl
  simp only [hmv, Bool.or_self, Bool.false_eq_true, ↓reduceIte, hst, Bool.not_false, Bool.true_and] at h
  have hnc : Directives.noCache [] = false := rfl
  have hoic : Directives.onlyIfCached [] = false := rfl
  simp only [hnc, hoic, Bool.not_false, Bool.and_true, Bool.or_true, ↓reduceIte] at h
  split at h <;> (cases h; exact ⟨rfl, _, rfl⟩)


/-- HandleValidationResponse with any continuation: it only performs store writes, then hands one
    result to the continuation -/
theorem handleValidation_k (cfg : Cfg) (method : Str) (reqH : Header) (key : Str) (stored : Entry) (refs : List Ref)
    (ri : Option Nat) (f : Freshness) (ccReq : Directives) (mv : Bool) (start : Int) (ans : OriginAns)
    (k : Result → Prog) (tr : List Step) (res : Result)
    (h : Run (handleValidation cfg method reqH key stored refs ri f ccReq mv start ans k) tr res) :
    ∃ tr1 tr2 r', tr = tr1 ++ tr2 ∧ contacted tr1 = false ∧ spawned tr1 = false ∧ Run (k r') tr2 res := by
  unfold handleValidation at h
  simp only [] at h
  split at h
  · split at h <;> exact ⟨[], tr, _, rfl, rfl, rfl, h⟩
  · split at h
    · split at h
      · exact ⟨[], tr, _, rfl, rfl, rfl, h⟩
      · split at h
        · obtain ⟨t1, t2, ht, hc, hs, hk⟩ := storeResponse_run _ _ _ _ _ _ _ _ _ _ _ _ h
          exact ⟨t1, t2, _, ht, hc, hs, hk⟩
        · cases h with
          | setEntry ok h1 => exact ⟨[_], _, _, rfl, rfl, rfl, h1⟩
    · split at h
      · exact ⟨[], tr, _, rfl, rfl, rfl, h⟩
      · split at h
        · obtain ⟨t1, t2, ht, hc, hs, hk⟩ := storeResponse_run _ _ _ _ _ _ _ _ _ _ _ _ h
          exact ⟨t1, t2, _, ht, hc, hs, hk⟩
        · exact ⟨[], tr, _, rfl, rfl, rfl, h⟩


end Httpcache
