import Httpcache.Model.Backend
import Httpcache.Proofs.Csv
/- Backends: map laws, and the file-name function of the file-system backend. -/
namespace Httpcache

/-! ### map laws (what every backend must refine) -/
theorem kv_get_set_same (m : KV) (k v : Str) : kvGet (kvSet m k v) k = some v := by
  unfold kvGet kvSet; rw [alookup_ainsert]; simp

theorem kv_get_set_other (m : KV) (k k' v : Str) (h : k ≠ k') : kvGet (kvSet m k v) k' = kvGet m k' := by
  unfold kvGet kvSet; rw [alookup_ainsert]; simp [h]

theorem alookup_filter_ne (m : KV) (k k' : Str) :
    alookup k' (m.filter (fun p => p.1 ≠ k)) = if k = k' then none else alookup k' m := by
  induction m with
  | nil => simp [alookup]
  | cons p ps ih =>
    rw [List.filter_cons]
    by_cases hp : p.1 = k
    · have h1 : decide (p.1 ≠ k) = false := by simp [hp]
      rw [h1]
      simp only [Bool.false_eq_true, ↓reduceIte]
      rw [ih]
      by_cases hk : k = k'
      · simp [hk]
      · have : ¬ p.1 = k' := fun h' => hk (hp.symm.trans h')
        simp [hk, alookup, this]
    · have h1 : decide (p.1 ≠ k) = true := by simp [hp]
      rw [h1]
      simp only [↓reduceIte, alookup]
      by_cases hp' : p.1 = k'
      · have : ¬ k = k' := fun h' => hp (hp'.trans h'.symm)
        simp [hp', this]
      · simp only [hp', ↓reduceIte, ih]

theorem kv_get_del_same (m : KV) (k : Str) : kvGet (kvDel m k) k = none := by
  unfold kvGet kvDel; rw [alookup_filter_ne]; simp

theorem kv_get_del_other (m : KV) (k k' : Str) (h : k ≠ k') : kvGet (kvDel m k) k' = kvGet m k' := by
  unfold kvGet kvDel; rw [alookup_filter_ne]; simp [h]


theorem chunks_flatten (n : Nat) : ∀ (m : Nat) (s : Str), s.length ≤ m → (chunks n s).flatten = s := by
  intro m
  induction m with
  | zero =>
    intro s hs
    have hs0 : s = [] := by
      cases s with
      | nil => rfl
      | cons c cs => simp at hs
    subst hs0
    unfold chunks
    simp
  | succ m ih =>
    intro s hs
    unfold chunks
    split
    · simp
    · rename_i hc
      simp only [not_or, Nat.not_le] at hc
      simp only [List.flatten_cons]
      rw [ih (s.drop n) (by simp only [List.length_drop]; omega)]
      exact List.take_append_drop n s

theorem chunks_ne_nil (n : Nat) (s : Str) : chunks n s ≠ [] := by unfold chunks; split <;> simp

/-- every chunk but the last has exactly n characters -/
theorem chunks_init_length (n : Nat) : ∀ (m : Nat) (s : Str), s.length ≤ m → ∀ c ∈ (chunks n s).dropLast, c.length = n := by
  intro m
  induction m with
  | zero =>
    intro s hs c hc
    have hs0 : s = [] := by
      cases s with
      | nil => rfl
      | cons c cs => simp at hs
    subst hs0
    unfold chunks at hc
    simp at hc
  | succ m ih =>
    intro s hs c hc
    unfold chunks at hc
    split at hc
    · simp at hc
    · rename_i hcond
      simp only [not_or, Nat.not_le] at hcond
      rw [List.dropLast_cons_of_ne_nil (chunks_ne_nil n _)] at hc
      simp only [List.mem_cons] at hc
      rcases hc with h1 | h2
      · rw [h1, List.length_take]; omega
      · exact ih (s.drop n) (by simp only [List.length_drop]; omega) c h2


theorem dirMarker_eq : dirMarker = ['+'] := by decide
theorem fragmentSize_eq : fragmentSize = 48 := by decide

theorem filter_flatten_map_marker (l : List Str) :
    ((l.map (· ++ ['+'])).flatten).filter (· ≠ '+') = (l.flatten).filter (· ≠ '+') := by
  induction l with
  | nil => rfl
  | cons x xs ih =>
    simp only [List.map_cons, List.flatten_cons, List.filter_append, ih]
    have : List.filter (fun c => decide (c ≠ '+')) ['+'] = [] := by decide
    rw [this, List.append_nil]

theorem dropLast_append_last (l : List Str) (h : l ≠ []) : l.dropLast ++ l.getLast?.toList = l := by
  rw [List.getLast?_eq_some_getLast h]
  exact List.dropLast_concat_getLast h

/-- the encoded key can be read off the path: concatenate the components and drop the markers -/
theorem path_determines_encoding (enc : Str → Str) (key : Str) (hplus : '+' ∉ enc key) (chunksFlat : ∀ n s, (chunks n s).flatten = s)
    (chunksNe : ∀ n s, chunks n s ≠ []) :
    ((fileNameWith enc key).flatten).filter (· ≠ '+') = enc key := by
  have hfilter : (enc key).filter (· ≠ '+') = enc key := by
    rw [List.filter_eq_self]
    intro c hc
    simp only [ne_eq, decide_not, Bool.not_eq_eq_eq_not, Bool.not_true, decide_eq_false_iff_not]
    intro h'; rw [h'] at hc; exact hplus hc
  unfold fileNameWith
  simp only [dirMarker_eq]
  split
  · rename_i he
    have : enc key = [] := by simpa using he
    simp [this]
  · split
    · simp only [List.flatten_cons, List.flatten_nil, List.append_nil]; exact hfilter
    · rw [List.flatten_append, List.filter_append, filter_flatten_map_marker, ← List.filter_append, ← List.flatten_append,
          dropLast_append_last _ (chunksNe _ _), chunksFlat, hfilter]

/-- C14: distinct keys never share a file — for any injective encoding whose output has no '+' -/
theorem fileName_injective (enc : Str → Str) (hinj : ∀ a b, enc a = enc b → a = b) (hplus : ∀ k, '+' ∉ enc k)
    (chunksFlat : ∀ n s, (chunks n s).flatten = s) (chunksNe : ∀ n s, chunks n s ≠ [])
    (k1 k2 : Str) (h : fileNameWith enc k1 = fileNameWith enc k2) : k1 = k2 := by
  apply hinj
  rw [← path_determines_encoding enc k1 (hplus k1) chunksFlat chunksNe,
      ← path_determines_encoding enc k2 (hplus k2) chunksFlat chunksNe, h]


/-- every directory component of a path is 47 encoded characters followed by the marker -/
theorem dirs_have_marker (enc : Str → Str) (key : Str)
    (chunksLen : ∀ n s, ∀ c ∈ (chunks n s).dropLast, c.length = n) (chunksNe : ∀ n s, chunks n s ≠ []) :
    ∀ x ∈ (fileNameWith enc key).dropLast, ∃ c, x = c ++ ['+'] ∧ c.length = 47 := by
  intro x hx
  unfold fileNameWith at hx
  simp only [dirMarker_eq, fragmentSize_eq] at hx
  split at hx
  · simp at hx
  · split at hx
    · simp at hx
    · have hne := chunksNe (48 - ['+'].length) (enc key)
      rw [List.getLast?_eq_some_getLast hne] at hx
      simp only [Option.toList_some] at hx
      rw [List.dropLast_append_of_ne_nil (by simp)] at hx
      simp only [List.dropLast_singleton, List.append_nil, List.mem_map] at hx
      obtain ⟨c, hc, rfl⟩ := hx
      exact ⟨c, rfl, chunksLen _ _ c hc⟩

/-- the leaf component is the bare marker (empty key) or contains no marker -/
theorem leaf_marker_free (enc : Str → Str) (key : Str) (hplus : '+' ∉ enc key)
    (chunksFlat : ∀ n s, (chunks n s).flatten = s) (chunksNe : ∀ n s, chunks n s ≠ []) :
    ∀ x, (fileNameWith enc key).getLast? = some x → x = ['+'] ∨ '+' ∉ x := by
  intro x hx
  unfold fileNameWith at hx
  simp only [dirMarker_eq, fragmentSize_eq] at hx
  split at hx
  · simp at hx; exact Or.inl hx.symm
  · split at hx
    · simp at hx; right; rw [← hx]; exact hplus
    · have hne := chunksNe (48 - ['+'].length) (enc key)
      rw [List.getLast?_eq_some_getLast hne] at hx
      simp only [Option.toList_some, List.getLast?_append, List.getLast?_singleton, Option.some_or] at hx
      right
      have hx' : x = (chunks (48 - ['+'].length) (enc key)).getLast hne := by simpa using hx.symm
      intro hin
      apply hplus
      rw [← chunksFlat (48 - ['+'].length) (enc key)]
      rw [List.mem_flatten]
      exact ⟨x, by rw [hx']; exact List.getLast_mem hne, hin⟩

/-- C14: no key's file is a directory another key needs: a path is never a proper prefix of another -/
theorem fileName_prefix_free (enc : Str → Str) (hplus : ∀ k, '+' ∉ enc k)
    (chunksFlat : ∀ n s, (chunks n s).flatten = s) (chunksNe : ∀ n s, chunks n s ≠ [])
    (chunksLen : ∀ n s, ∀ c ∈ (chunks n s).dropLast, c.length = n)
    (k1 k2 : Str) (rest : List Str) (hrest : rest ≠ []) :
    fileNameWith enc k2 ≠ fileNameWith enc k1 ++ rest := by
  intro h
  -- the last component of k1's path is a directory component of k2's path
  have hp1ne : fileNameWith enc k1 ≠ [] := by
    unfold fileNameWith
    simp only []
    split
    · simp
    · split
      · simp
      · have := chunksNe (fragmentSize - dirMarker.length) (enc k1)
        rw [List.getLast?_eq_some_getLast this]; simp
  obtain ⟨l1, hl1⟩ : ∃ l, (fileNameWith enc k1).getLast? = some l := ⟨_, List.getLast?_eq_some_getLast hp1ne⟩
  have hmem : l1 ∈ (fileNameWith enc k2).dropLast := by
    rw [h, List.dropLast_append_of_ne_nil hrest]
    exact List.mem_append_left _ (List.mem_of_getLast? hl1)
  obtain ⟨c, hc, hlen⟩ := dirs_have_marker enc k2 chunksLen chunksNe l1 hmem
  rcases leaf_marker_free enc k1 (hplus k1) chunksFlat chunksNe l1 hl1 with h1 | h2
  · rw [h1] at hc
    have := congrArg List.length hc
    simp only [List.length_cons, List.length_nil, List.length_append] at this
    omega
  · apply h2; rw [hc]; simp


end Httpcache
