import Httpcache.Model.Directives
import Httpcache.Spec.Defs
import Httpcache.Proofs.Arith
namespace Httpcache

theorem isDigit_minus : isDigit '-' = false := by decide
theorem isDigit_plus : isDigit '+' = false := by decide

theorem parseInt64_unsigned (s : Str) (hp : ∀ r, s ≠ '+' :: r) (hm : ∀ r, s ≠ '-' :: r) :
    parseInt64 s = if s.isEmpty || !s.all isDigit then .syntaxErr
                   else if ((natOfDigits s : Nat) : Int) > maxI64 then .rangeErr false
                   else .ok (natOfDigits s) := by
  unfold parseInt64
  split
  · rename_i r heq
    split at heq
    · exact absurd rfl (hp _)
    · exact absurd rfl (hm _)
    · cases heq; simp

/-- the model's delta-seconds reader (ParseInt based) computes the RFC reading (1*DIGIT,
    saturating) on EVERY byte string -/
theorem parseDeltaSeconds_eq_spec (s : Str) : parseDeltaSeconds s = Spec.deltaSeconds s := by
  unfold parseDeltaSeconds Spec.deltaSeconds
  split
  · simp
  · simp [List.all_cons, isDigit_minus]
  · simp [List.all_cons, isDigit_plus]
  · rename_i h1 h2 h3
    rw [parseInt64_unsigned s (fun r h => h3 r h) (fun r h => h2 r h)]
    by_cases hd : (s.isEmpty || !s.all isDigit) = true
    · simp [hd]
    · simp only [hd, Bool.false_eq_true, ↓reduceIte]
      by_cases hbig : ((natOfDigits s : Nat) : Int) > maxI64
      · simp only [hbig, ↓reduceIte]
        congr 1
        have : min ((natOfDigits s : Nat) : Int) maxDeltaSeconds = maxDeltaSeconds := by
          unfold maxI64 at hbig; unfold maxDeltaSeconds; omega
        rw [this]
      · simp only [hbig, ↓reduceIte]

end Httpcache
