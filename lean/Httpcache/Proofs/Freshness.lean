import Httpcache.Model.RoundTrip
import Httpcache.Proofs.Parse
/-
The model's freshness computation against the RFC-level definitions of Spec/Defs.lean.
-/
namespace Httpcache

/-- the model's reading of Cache-Control, as a Spec.Reader -/
def modelReader : Spec.Reader :=
  ⟨fun h name => (alookup name (parseCC h)).map (fun v => if v.isEmpty then none else some (parseQuotedString v))⟩

theorem parseQuotedString_nil : parseQuotedString [] = [] := by
  simp [parseQuotedString, parseQuotedStringE]

theorem has_eq (h : Header) (n : Str) : Spec.hasDirective modelReader h n = (parseCC h).has n := by
  simp [Spec.hasDirective, modelReader, Directives.has]

theorem seconds_eq (h : Header) (n : Str) : Spec.directiveSeconds modelReader h n = (parseCC h).dur n := by
  simp only [Spec.directiveSeconds, Spec.directiveArg, modelReader, Directives.dur]
  cases hl : alookup n (parseCC h) with
  | none => simp
  | some v =>
    simp only [Option.map_some, Option.bind_some, deltaSeconds]
    by_cases hv : v.isEmpty = true
    · simp only [hv, ↓reduceIte]
      have : v = [] := by simpa using hv
      subst this
      simp [parseQuotedString_nil, parseDeltaSeconds]
    · simp only [hv, Bool.false_eq_true, ↓reduceIte]
      exact (parseDeltaSeconds_eq_spec _).symm

theorem timeOf_eq (g : Glue) (h : Header) (n : Str) : timeOf g (Header.get h n) = Spec.httpTime g.parseTime h n := by
  simp [timeOf, Spec.httpTime]

/-- timestamps representable as UnixNano (what a decoded entry carries) -/
def TimesOK (e : Entry) : Prop := minI64 ≤ e.receivedAt

theorem age_eq (g : Glue) (now : Int) (e : Entry) (hT : TimesOK e) :
    currentAge g now e = Spec.currentAge g.parseTime (Spec.storedOfEntry e) now := by
  unfold currentAge Spec.currentAge Spec.storedOfEntry dateHeader
  simp only [timeOf_eq, parseDeltaSeconds_eq_spec, satAdd, satSub]
  cases hd : Spec.httpTime g.parseTime e.resp.header sDate with
  | some d => simp [Int.max_comm]
  | none =>
    simp only [Option.getD_none]
    have h1 : sat (e.receivedAt - zeroTimeNs) = maxI64 := by
      apply sat_of_ge_max
      unfold TimesOK minI64 at hT
      unfold zeroTimeNs nsPerSec maxI64; omega
    rw [h1]
    have : max maxI64 0 = maxI64 := by unfold maxI64; omega
    rw [this]
    simp [Int.max_comm]

theorem heuristic_table_sub : ∀ c ∈ Generated.heuristicStatus, c = 304 ∨ c ∈ Spec.heuristicallyCacheable := by
  decide

theorem life_le (g : Glue) (e : Entry) (hs : e.resp.status ≠ 304) (d : Int)
    (hd : Spec.httpTime g.parseTime e.resp.header sDate = some d) :
    responseLifetime g e (parseCC e.resp.header) ≤
      Spec.freshnessLifetime modelReader g.parseTime (Spec.storedOfEntry e) := by
  unfold responseLifetime Spec.freshnessLifetime
  simp only [Spec.storedOfEntry, has_eq, seconds_eq, Directives.maxAgePresent, Directives.maxAge]
  by_cases hm : (parseCC e.resp.header).has (str% "max-age") = true
  · simp [hm]
  · simp only [hm, Bool.false_eq_true, ↓reduceIte]
    by_cases he : Header.has e.resp.header sExpires = true
    · simp only [he, Bool.not_true, Bool.false_eq_true, ↓reduceIte, timeOf_eq, hd]
      cases hx : Spec.httpTime g.parseTime e.resp.header sExpires with
      | none => simp
      | some t =>
        simp only [dateHeader, timeOf_eq, hd, Option.getD_some, satSub]
        split <;> omega
    · simp only [he, Bool.not_false, ↓reduceIte, Bool.false_eq_true]
      by_cases hh : (isHeuristicStatus e.resp.status || (parseCC e.resp.header).isPublic) = true
      · have hspec : (Spec.heuristicallyCacheable.contains e.resp.status || (parseCC e.resp.header).has (str% "public")) = true := by
          simp only [Bool.or_eq_true] at hh ⊢
          cases hh with
          | inl h =>
            left
            have := heuristic_table_sub e.resp.status (by simpa [isHeuristicStatus] using h)
            cases this with
            | inl h304 => exact absurd h304 hs
            | inr hin => simpa using hin
          | inr h => right; simpa [Directives.isPublic] using h
        simp only [hh, hspec, ↓reduceIte, heuristicFreshness, timeOf_eq, dateHeader, hd, Option.getD_some, satSub]
        cases hl : Spec.httpTime g.parseTime e.resp.header sLastModified with
        | none => simp
        | some lm =>
          simp only []
          split
          · rename_i hlt
            have : 0 ≤ sat (d - lm) := sat_nonneg (by omega)
            have h2 : max 0 (sat (d - lm)) = sat (d - lm) := by omega
            rw [h2]; exact Int.le_refl _
          · have : 0 ≤ max 0 (sat (d - lm)) / 10 := Int.ediv_nonneg (by omega) (by omega)
            exact this
      · simp only [hh, Bool.false_eq_true, ↓reduceIte]
        split
        · split <;> (try exact Int.le_refl _)
          exact Int.ediv_nonneg (by omega) (by omega)
        · exact Int.le_refl _

theorem spec_delta_bounds (s : Str) (d : Int) (h : Spec.deltaSeconds s = some d) :
    0 ≤ d ∧ d ≤ maxDeltaSeconds * nsPerSec := by
  unfold Spec.deltaSeconds at h
  split at h
  · cases h
  · cases h
    unfold maxDeltaSeconds nsPerSec
    constructor <;> omega

theorem dur_bounds (cc : Directives) (n : Str) (d : Int) (h : cc.dur n = some d) :
    0 ≤ d ∧ d ≤ maxDeltaSeconds * nsPerSec := by
  unfold Directives.dur at h
  cases hl : alookup n cc with
  | none => simp [hl] at h
  | some v =>
    simp only [hl, Option.bind_some, deltaSeconds, parseDeltaSeconds_eq_spec] at h
    exact spec_delta_bounds _ _ h

theorem responseLifetime_bounds (g : Glue) (e : Entry) (cc : Directives) :
    0 ≤ responseLifetime g e cc ∧ responseLifetime g e cc ≤ maxI64 := by
  unfold responseLifetime
  simp only []
  split
  · cases hm : cc.maxAge with
    | none => simp [maxI64]
    | some d =>
      have := dur_bounds cc _ d hm
      simp only [Option.getD_some]
      unfold maxDeltaSeconds nsPerSec at this; unfold maxI64; omega
  · split
    · split
      · unfold heuristicFreshness
        split
        · simp [maxI64]
        · split
          · rename_i lm hlm hlt
            have h1 := sat_le_max (dateHeader g e.resp.header - lm)
            have h2 : 0 ≤ sat (dateHeader g e.resp.header - lm) := sat_nonneg (by omega)
            unfold satSub
            constructor
            · exact Int.ediv_nonneg h2 (by omega)
            · have : sat (dateHeader g e.resp.header - lm) / 10 ≤ sat (dateHeader g e.resp.header - lm) :=
                Int.ediv_le_self _ h2
              omega
          · simp [maxI64]
      · simp [maxI64]
    · split
      · split
        · rename_i t ht hgt
          unfold satSub
          exact ⟨sat_nonneg (by omega), sat_le_max _⟩
        · simp [maxI64]
      · simp [maxI64]


theorem age_max_of_no_date (g : Glue) (now : Int) (e : Entry) (hT : TimesOK e)
    (hd : Spec.httpTime g.parseTime e.resp.header sDate = none) : currentAge g now e = maxI64 := by
  rw [age_eq g now e hT]
  unfold Spec.currentAge
  simp only [Spec.storedOfEntry, hd]
  have h0 : sat (((Spec.deltaSeconds (firstListMember (Header.values e.resp.header sAge))).getD 0) + max 0 (sat (e.receivedAt - e.requestedAt))) ≤ maxI64 := sat_le_max _
  have h1 : max maxI64 (sat (((Spec.deltaSeconds (firstListMember (Header.values e.resp.header sAge))).getD 0) + max 0 (sat (e.receivedAt - e.requestedAt)))) = maxI64 := by omega
  rw [h1]
  apply sat_of_ge_max
  have : 0 ≤ max 0 (sat (now - e.receivedAt)) := by omega
  omega

theorem requestLifetime_le (life0 : Int) (cc : Directives) : requestLifetime life0 cc ≤ life0 := by
  unfold requestLifetime; split
  · split <;> omega
  · omega

/-- when max-stale un-stales a response in the model, the RFC-level max-stale reading covers it -/
theorem maxStale_sound (reqH : Header) (age life specLife : Int) (hle : life ≤ specLife)
    (hpos : maxStaleOf (parseCC reqH) > 0) (hlt : age < satAdd life (maxStaleOf (parseCC reqH))) :
    Spec.maxStaleCovers modelReader reqH age specLife = true := by
  unfold Spec.maxStaleCovers Spec.directiveArg modelReader
  simp only []
  unfold maxStaleOf Directives.maxStaleRaw at hpos hlt
  cases hl : alookup (str% "max-stale") (parseCC reqH) with
  | none => simp [hl] at hpos
  | some v =>
    simp only [hl, Option.map_some] at hpos hlt ⊢
    cases v with
    | nil => simp
    | cons c cs =>
      simp only [List.isEmpty_cons, Bool.false_eq_true, ↓reduceIte]
      by_cases ha : (parseQuotedString (c :: cs)).isEmpty = true
      · simp [ha]
      · simp only [ha, Bool.false_eq_true, ↓reduceIte]
        simp only [deltaSeconds, parseDeltaSeconds_eq_spec] at hpos hlt
        cases hds : Spec.deltaSeconds (parseQuotedString (c :: cs)) with
        | none => simp [hds] at hpos
        | some dd =>
          simp only [hds] at hpos hlt ⊢
          split at hpos
          · rename_i hge
            simp only [hge, ↓reduceIte] at hlt
            simp only [decide_eq_true_eq]
            have : satAdd life dd ≤ sat (specLife + dd) := by
              unfold satAdd; exact sat_mono (by omega)
            omega
          · omega

/-- C01 core: when the model's calculator reports "not stale", the stored response is fresh by
    the RFC definitions, or the request's max-stale covers its staleness. -/
theorem fresh_sound (g : Glue) (now : Int) (e : Entry) (reqH : Header)
    (hs : e.resp.status ≠ 304) (hT : TimesOK e)
    (h : (calculateFreshness g now e (parseCC reqH) (parseCC e.resp.header)).isStale = false) :
    Spec.isFresh modelReader g.parseTime (Spec.storedOfEntry e) now = true ∨
    Spec.maxStaleCovers modelReader reqH (Spec.currentAge g.parseTime (Spec.storedOfEntry e) now)
      (Spec.freshnessLifetime modelReader g.parseTime (Spec.storedOfEntry e)) = true := by
  unfold calculateFreshness at h
  split at h
  · simp at h
  · split at h
    · simp at h
    · simp only [] at h
      have hb := responseLifetime_bounds g e (parseCC e.resp.header)
      have hrl := requestLifetime_le (responseLifetime g e (parseCC e.resp.header)) (parseCC reqH)
      generalize requestLifetime (responseLifetime g e (parseCC e.resp.header)) (parseCC reqH) = life at h hrl
      unfold staleAfterMaxStale at h
      cases hd : Spec.httpTime g.parseTime e.resp.header sDate with
      | none =>
        exfalso
        have ha := age_max_of_no_date g now e hT hd
        rw [ha] at h
        have h2 : satAdd life (maxStaleOf (parseCC reqH)) ≤ maxI64 := sat_le_max _
        have h3 : decide (maxI64 ≥ life) = true := by simp; omega
        have h4 : decide (maxI64 < satAdd life (maxStaleOf (parseCC reqH))) = false := by simp; omega
        simp [h3, h4] at h
      | some d =>
        have hage := age_eq g now e hT
        have hle := life_le g e hs d hd
        split at h
        · rename_i hc
          right
          simp only [Bool.and_eq_true, decide_eq_true_eq, Bool.not_eq_true'] at hc
          obtain ⟨⟨⟨_, hpos⟩, _⟩, hlt⟩ := hc
          rw [← hage]
          exact maxStale_sound reqH _ life _ (by omega) hpos hlt
        · left
          unfold Spec.isFresh
          simp only [decide_eq_false_iff_not] at h
          simp only [decide_eq_true_eq]
          rw [← hage]; omega

end Httpcache
