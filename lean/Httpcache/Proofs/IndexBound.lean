import Httpcache.Proofs.VaryKey
import Httpcache.Model.IndexJson
import Httpcache.Proofs.Backend
/- The variant index: no two references of an index describe the same variant (invariant of StoreResponse),
   hence every index reachable in any history is bounded by the number of distinct variants. -/
namespace Httpcache

/-- what identifies a reference inside an index: the identifier of the stored response and the nominated fields with
    their values — not the spelling of the Vary value -/
def variantOf (r : Ref) : Str × List (Str × Str) := (r.id, r.resolved)

theorem sameVariant_iff (a b : Ref) : sameVariant a b = true ↔ variantOf a = variantOf b := by
  unfold sameVariant variantOf
  simp only [Bool.and_eq_true, decide_eq_true_eq, Prod.mk.injEq]

/-- filtering an indexed list by "this position, or the predicate": beyond the position only the predicate counts -/
theorem filter_zipIdx_gt {α} (q : α → Bool) (idx : Nat) : ∀ (l : List α) (k : Nat), idx < k →
    ((l.zipIdx k).filter (fun p => p.2 = idx || q p.1)).map (·.1) = l.filter q
  | [], _, _ => rfl
  | a :: l, k, hk => by
    have ih := filter_zipIdx_gt q idx l (k + 1) (by omega)
    have hne : ¬ (k = idx) := by omega
    simp only [List.zipIdx_cons, List.filter_cons, hne, decide_false, Bool.false_or]
    by_cases hq : q a = true
    · simp only [hq, ↓reduceIte, List.map_cons, ih]
    · simp only [hq, Bool.false_eq_true, ↓reduceIte, ih]

theorem filter_zipIdx_le {α} (q : α → Bool) (idx : Nat) : ∀ (l : List α) (k : Nat), k ≤ idx → (h : idx - k < l.length) →
    ((l.zipIdx k).filter (fun p => p.2 = idx || q p.1)).map (·.1) =
      (l.take (idx - k)).filter q ++ l[idx - k] :: (l.drop (idx - k + 1)).filter q
  | [], _, _, h => by simp at h
  | a :: l, k, hk, h => by
    by_cases he : k = idx
    · subst he
      have := filter_zipIdx_gt q k l (k + 1) (by omega)
      simp only [List.zipIdx_cons, List.filter_cons, decide_true, Bool.true_or, ↓reduceIte, List.map_cons, this,
        Nat.sub_self, List.take_zero, List.filter_nil, List.nil_append, List.getElem_cons_zero, Nat.zero_add, List.drop_succ_cons, List.drop_zero]
    · have hlt : k < idx := by omega
      have hsub : idx - k = (idx - (k + 1)) + 1 := by omega
      have h' : idx - (k + 1) < l.length := by simp only [List.length_cons] at h; omega
      have ih := filter_zipIdx_le q idx l (k + 1) (by omega) h'
      have hne : ¬ (k = idx) := he
      simp only [List.zipIdx_cons, List.filter_cons, hne, decide_false, Bool.false_or]
      by_cases hq : q a = true
      · simp only [hq, ↓reduceIte, List.map_cons, ih]
        simp only [hsub, List.take_succ_cons, List.filter_cons, hq, ↓reduceIte, List.cons_append, List.getElem_cons_succ, List.drop_succ_cons]
      · simp only [hq, Bool.false_eq_true, ↓reduceIte, ih]
        simp only [hsub, List.take_succ_cons, List.filter_cons, hq, Bool.false_eq_true, ↓reduceIte, List.getElem_cons_succ, List.drop_succ_cons]

/-- dedupeRefs, written out: everything before and after the position that is not the same variant,
    and the reference at the position -/
theorem dedupe_eq (L : List Ref) (idx : Nat) (ref : Ref) (h : idx < L.length) :
    dedupeRefs L idx ref = (L.take idx).filter (fun x => !sameVariant x ref) ++ L[idx] :: (L.drop (idx + 1)).filter (fun x => !sameVariant x ref) := by
  unfold dedupeRefs
  have := filter_zipIdx_le (fun x => !sameVariant x ref) idx L 0 (by omega) (by simpa using h)
  simpa using this

theorem nodup_core (X Y : List Ref) (ref : Ref) (h : ((X ++ Y).map variantOf).Nodup) :
    ((X.filter (fun x => !sameVariant x ref) ++ ref :: Y.filter (fun x => !sameVariant x ref)).map variantOf).Nodup := by
  rw [List.map_append, List.nodup_append] at h
  obtain ⟨hX, hY, hXY⟩ := h
  have fne : ∀ (Z : List Ref), ∀ v ∈ (Z.filter (fun x => !sameVariant x ref)).map variantOf, v ≠ variantOf ref := by
    intro Z v hv
    obtain ⟨x, hx, e⟩ := List.mem_map.mp hv
    have hq := (List.mem_filter.mp hx).2
    intro hv'
    have : sameVariant x ref = true := (sameVariant_iff x ref).mpr (by rw [e, hv'])
    simp [this] at hq
  have subX : ((X.filter (fun x => !sameVariant x ref)).map variantOf).Sublist (X.map variantOf) := List.Sublist.map _ List.filter_sublist
  have subY : ((Y.filter (fun x => !sameVariant x ref)).map variantOf).Sublist (Y.map variantOf) := List.Sublist.map _ List.filter_sublist
  rw [List.map_append, List.map_cons, List.nodup_append]
  refine ⟨hX.sublist subX, ?_, ?_⟩
  · rw [List.nodup_cons]
    exact ⟨fun hm => fne Y _ hm rfl, hY.sublist subY⟩
  · intro a ha b hb
    rcases List.mem_cons.mp hb with hb | hb
    · rw [hb]; exact fne X a ha
    · exact hXY a (subX.subset ha) b (subY.subset hb)

/-- INVARIANT of every index: no two references describe the same variant (id, Vary value, recorded
    selecting values). StoreResponse preserves it, whatever position it was told to replace. -/
theorem store_keeps_variants_distinct (refs : List Ref) (ri : Option Nat) (ref : Ref) (hnd : (refs.map variantOf).Nodup) :
    ((dedupeRefs (placeRef refs ri ref).1 (placeRef refs ri ref).2 ref).map variantOf).Nodup := by
  have app : ((dedupeRefs (refs ++ [ref]) refs.length ref).map variantOf).Nodup := by
    rw [dedupe_eq _ _ _ (by simp)]
    have h1 : (refs ++ [ref]).take refs.length = refs := by simp
    have h2 : (refs ++ [ref])[refs.length]'(by simp) = ref := by simp
    have h3 : (refs ++ [ref]).drop (refs.length + 1) = [] := by simp
    rw [h1, h2, h3]
    have := nodup_core refs [] ref (by simpa using hnd)
    simpa using this
  unfold placeRef
  split
  · rename_i i
    split
    · rename_i hlt
      simp only []
      rw [dedupe_eq _ _ _ (by simpa using hlt)]
      have h1 : (refs.set i ref).take i = refs.take i := by simp [List.take_set_of_le]
      have h2 : (refs.set i ref)[i]'(by simpa using hlt) = ref := by simp
      have h3 : (refs.set i ref).drop (i + 1) = refs.drop (i + 1) := by simp [List.drop_set_of_lt]
      rw [h1, h2, h3]
      apply nodup_core
      have hsub : (refs.take i ++ refs.drop (i + 1)).Sublist refs := by
        have e : refs = refs.take i ++ refs.drop i := (List.take_append_drop i refs).symm
        conv => rhs; rw [e]
        exact List.Sublist.append (List.Sublist.refl _) (List.drop_sublist_drop_left refs (by omega))
      exact hnd.sublist (List.Sublist.map _ hsub)
    · exact app
  · exact app

/-- the size of an index is bounded by the number of distinct variants that can occur: if every
    reference describes a variant of the finite list `T`, the index has at most `T.length` references —
    independent of how many requests were made -/
theorem index_size_bounded (T : List (Str × List (Str × Str))) (refs : List Ref)
    (hnd : (refs.map variantOf).Nodup) (hT : ∀ r ∈ refs, variantOf r ∈ T) : refs.length ≤ T.length := by
  have := List.Nodup.length_le_of_subset hnd (by
    intro v hv
    obtain ⟨r, hr, e⟩ := List.mem_map.mp hv
    rw [← e]; exact hT r hr)
  simpa using this

/-- the indexes a URI can have in ANY history of exchanges whose stored variants are drawn from `T`:
    empty at first and after an invalidation, re-read in any order (VaryHeadersMatch sorts what it
    read), and rewritten by StoreResponse at whatever position it was given -/
inductive ReachableIndex (T : List (Str × List (Str × Str))) : List Ref → Prop where
  | empty : ReachableIndex T []
  | reordered {a b : List Ref} : ReachableIndex T a → a.Perm b → ReachableIndex T b
  | stored {refs : List Ref} (ri : Option Nat) (ref : Ref) : ReachableIndex T refs → variantOf ref ∈ T →
      ReachableIndex T (dedupeRefs (placeRef refs ri ref).1 (placeRef refs ri ref).2 ref)

theorem reachable_inv (T : List (Str × List (Str × Str))) (refs : List Ref) (h : ReachableIndex T refs) :
    (refs.map variantOf).Nodup ∧ ∀ r ∈ refs, variantOf r ∈ T := by
  induction h with
  | empty => exact ⟨List.nodup_nil, fun _ hr => by cases hr⟩
  | reordered _ hp ih =>
    exact ⟨(List.Perm.nodup_iff (hp.map variantOf)).mp ih.1, fun r hr => ih.2 r (hp.symm.subset hr)⟩
  | stored ri ref _ hT ih =>
    refine ⟨store_keeps_variants_distinct _ ri ref ih.1, ?_⟩
    intro r hr
    rcases mem_placeRef _ _ _ _ (mem_dedupe _ _ _ _ hr) with h | h
    · exact ih.2 r h
    · rw [h]; exact hT

/-- C19, index part, for every history: however many requests are made, every index a URI can reach
    holds at most as many references as there are distinct variants -/
theorem reachable_index_bounded (T : List (Str × List (Str × Str))) (refs : List Ref) (h : ReachableIndex T refs) :
    refs.length ≤ T.length :=
  let ⟨hnd, hT⟩ := reachable_inv T refs h
  index_size_bounded T refs hnd hT

/-! ### the strings of a reference through the JSON index -/

/-- the marker of the model is the constant of internal/entry.go (regenerated table) -/
theorem jsonOpaquePrefix_is_the_codes : jsonOpaquePrefix.map Char.toNat = Generated.indexOpaquePrefix := by decide

theorem stripPrefix_append (p s : Str) : stripPrefix p (p ++ s) = some s := by
  induction p with
  | nil => rfl
  | cons c cs ih => simp [stripPrefix, ih]

/-- every string — valid UTF-8 or not, looking like an escaped one or not — comes back from the index
    exactly as it was written, given that JSON carries valid UTF-8 unchanged and base64 decodes what it
    encoded -/
theorem index_string_roundtrip (validUtf8 : Str → Bool) (b64 : Str → Str) (unb64 : Str → Option Str)
    (hb : ∀ x, unb64 (b64 x) = some x) (s : Str) :
    jsonOriginalString unb64 (jsonSafeString validUtf8 b64 s) = s := by
  unfold jsonSafeString
  by_cases h : (validUtf8 s && (stripPrefix jsonOpaquePrefix s).isNone) = true
  · simp only [h, ↓reduceIte]
    simp only [Bool.and_eq_true, Option.isNone_iff_eq_none] at h
    unfold jsonOriginalString
    rw [h.2]
  · simp only [h, Bool.false_eq_true, ↓reduceIte]
    unfold jsonOriginalString
    rw [stripPrefix_append]
    simp only [hb, Option.getD_some]

/-- and what is written is always something JSON carries unchanged: the string itself when it is valid
    UTF-8, else ASCII (prefix and base64 alphabet), given that base64 output and the prefix are valid -/
theorem index_string_is_json_safe (validUtf8 : Str → Bool) (b64 : Str → Str)
    (hv : ∀ x, validUtf8 (jsonOpaquePrefix ++ b64 x) = true) (s : Str) :
    validUtf8 (jsonSafeString validUtf8 b64 s) = true := by
  unfold jsonSafeString
  by_cases h : (validUtf8 s && (stripPrefix jsonOpaquePrefix s).isNone) = true
  · simp only [h, ↓reduceIte]
    simp only [Bool.and_eq_true] at h
    exact h.1
  · simp only [h, Bool.false_eq_true, ↓reduceIte]
    exact hv s

/-! ### the number of keys in the backing store -/

theorem keys_ainsert (k v : Str) (m : KV) : ∀ x ∈ (ainsert k v m).map (·.1), x = k ∨ x ∈ m.map (·.1) := by
  induction m with
  | nil => intro x hx; simp [ainsert] at hx; exact Or.inl hx
  | cons p ps ih =>
    intro x hx
    unfold ainsert at hx
    split at hx
    · rename_i hp
      simp only [List.map_cons, List.mem_cons] at hx ⊢
      rcases hx with hx | hx
      · exact Or.inl hx
      · exact Or.inr (Or.inr hx)
    · simp only [List.map_cons, List.mem_cons] at hx ⊢
      rcases hx with hx | hx
      · exact Or.inr (Or.inl hx)
      · rcases ih x hx with h | h
        · exact Or.inl h
        · exact Or.inr (Or.inr h)

theorem nodup_ainsert (k v : Str) (m : KV) (h : (m.map (·.1)).Nodup) : ((ainsert k v m).map (·.1)).Nodup := by
  induction m with
  | nil => simp [ainsert]
  | cons p ps ih =>
    simp only [List.map_cons, List.nodup_cons] at h
    unfold ainsert
    split
    · rename_i hp
      simp only [List.map_cons, List.nodup_cons]
      exact ⟨by rw [← hp]; exact h.1, h.2⟩
    · rename_i hp
      simp only [List.map_cons, List.nodup_cons]
      refine ⟨?_, ih h.2⟩
      intro hm
      rcases keys_ainsert k v ps _ hm with e | e
      · exact hp e
      · exact h.1 e

/-- one write or delete the backing store receives -/
inductive StoreOp where
  | set (k v : Str)
  | del (k : Str)

def applyOp (m : KV) : StoreOp → KV
  | .set k v => kvSet m k v
  | .del k => kvDel m k

theorem applyOps_inv (K : List Str) (ops : List StoreOp) (hK : ∀ k v, StoreOp.set k v ∈ ops → k ∈ K) :
    ∀ (m : KV), (m.map (·.1)).Nodup → (∀ x ∈ m.map (·.1), x ∈ K) →
      ((ops.foldl applyOp m).map (·.1)).Nodup ∧ ∀ x ∈ (ops.foldl applyOp m).map (·.1), x ∈ K := by
  induction ops with
  | nil => intro m h1 h2; exact ⟨h1, h2⟩
  | cons op rest ih =>
    intro m h1 h2
    simp only [List.foldl_cons]
    apply ih (fun k v hm => hK k v (List.mem_cons_of_mem _ hm))
    · cases op with
      | set k v => exact nodup_ainsert k v m h1
      | del k =>
        simp only [applyOp, kvDel]
        exact h1.sublist (List.Sublist.map _ List.filter_sublist)
    · intro x hx
      cases op with
      | set k v =>
        rcases keys_ainsert k v m x hx with e | e
        · rw [e]; exact hK k v List.mem_cons_self
        · exact h2 x e
      | del k =>
        simp only [applyOp, kvDel] at hx
        obtain ⟨p, hp, e⟩ := List.mem_map.mp hx
        exact h2 x (List.mem_map.mpr ⟨p, (List.mem_filter.mp hp).1, e⟩)

/-- C19, key part, for EVERY history: if every key the store is ever asked to write belongs to the
    finite set `K` (the URL keys and variant ids of the request alphabet — `written_keys_determined`),
    the store never holds more than |K| keys, however many writes and deletes it receives -/
theorem store_keys_bounded (K : List Str) (ops : List StoreOp) (hK : ∀ k v, StoreOp.set k v ∈ ops → k ∈ K) :
    (kvKeys (ops.foldl applyOp []) []).length ≤ K.length := by
  obtain ⟨hnd, hsub⟩ := applyOps_inv K ops hK [] List.nodup_nil (fun x hx => by cases hx)
  have hall : kvKeys (ops.foldl applyOp []) [] = (ops.foldl applyOp []).map (·.1) := by
    unfold kvKeys
    apply List.filter_eq_self.mpr
    intro a _
    simp [isPrefixOf]
  rw [hall]
  exact List.Nodup.length_le_of_subset hnd (fun x hx => hsub x hx)


/-! ### which request a validation result is stored for -/

/-- what a validation writes: the freshened entry under the id it already had, or a full reply — or the
    stored response freshened by a 304 that changed its Vary field — under the variant id made of the URL
    key and the selecting values of `reqH`: the header list the handler was given, which is the CLIENT's
    (the conditional request only goes upstream) -/
theorem validation_store_ids (cfg : Cfg) (reqH : Header) (key : Str) (stored : Entry) (refs : List Ref)
    (ri : Option Nat) (f : Freshness) (ccReq : Directives) (mv : Bool) (start : Int) (ans : OriginAns)
    (tr : List Step) (res : Result)
    (h : Run (handleValidation cfg sGET reqH key stored refs ri f ccReq mv start ans (fun r => .ret r)) tr res) :
    ∀ id en ok, Step.setEntry id en ok ∈ tr →
      id = stored.id ∨ ∃ r t1 b, ans = .resp r t1 b ∧
        (id = makeVaryKey key (storedSelecting cfg reqH r) ∨
         id = makeVaryKey key (storedSelecting cfg reqH
                (respWith stored.resp (updateStoredHeaders (Header.del stored.resp.header sAge) r.header)))) := by
  intro id en ok hm
  unfold handleValidation at h
  simp only [] at h
  split at h
  · split at h <;> (cases h; cases hm)
  · rename_i r t1 bodyOk
    split at h
    · split at h
      · cases h; cases hm
      · split at h
        · obtain ⟨t1', t2', ht, hw, hk⟩ := storeResponse_names _ _ _ _ _ _ _ _ _ _ _ _ h
          cases hk
          simp only [List.append_nil] at ht
          subst ht
          right
          refine ⟨r, t1, bodyOk, rfl, Or.inr ?_⟩
          rcases hw with hw | ⟨en', hw⟩ | ⟨en', rs, ok', post, hw, _, _, hpost⟩
          · subst hw; cases hm
          · subst hw
            simp only [List.mem_cons, Step.setEntry.injEq, List.not_mem_nil, or_false] at hm
            exact hm.1
          · subst hw
            rcases hpost with hp | ⟨old, hp, _⟩ <;> subst hp <;>
              simp only [List.cons_append, List.nil_append, List.mem_cons, Step.setEntry.injEq, reduceCtorEq, List.not_mem_nil, or_false] at hm <;>
              exact hm.1
        · cases h with
          | setEntry ok' h1 =>
            cases h1
            simp only [List.mem_cons, Step.setEntry.injEq, List.not_mem_nil, or_false] at hm
            exact Or.inl hm.1
    · split at h
      · cases h; cases hm
      · split at h
        · obtain ⟨t1', t2', ht, hw, hk⟩ := storeResponse_names _ _ _ _ _ _ _ _ _ _ _ _ h
          cases hk
          simp only [List.append_nil] at ht
          subst ht
          right
          refine ⟨r, t1, bodyOk, rfl, Or.inl ?_⟩
          rcases hw with hw | ⟨en', hw⟩ | ⟨en', rs, ok', post, hw, _, _, hpost⟩
          · subst hw; cases hm
          · subst hw
            simp only [List.mem_cons, Step.setEntry.injEq, List.not_mem_nil, or_false] at hm
            exact hm.1
          · subst hw
            rcases hpost with hp | ⟨old, hp, _⟩ <;> subst hp <;>
              simp only [List.cons_append, List.nil_append, List.mem_cons, Step.setEntry.injEq, reduceCtorEq, List.not_mem_nil, or_false] at hm <;>
              exact hm.1
        · cases h; cases hm

/-! ### no stored response is left behind by a store -/

/-- a reference of the old index is still in the list after `placeRef`, or it is the one that was overwritten -/
theorem mem_refs_placeRef (refs : List Ref) (ri : Option Nat) (ref x : Ref) (hx : x ∈ refs) :
    x ∈ (placeRef refs ri ref).1 ∨ replacedId refs ri = some x.id := by
  unfold placeRef replacedId
  cases ri with
  | none => left; simp [hx]
  | some i =>
    simp only
    by_cases hi : i < refs.length
    · simp only [hi, ↓reduceIte]
      obtain ⟨j, hj, e⟩ := List.getElem_of_mem hx
      by_cases hji : j = i
      · right
        subst hji
        rw [List.getElem?_eq_getElem hj, e]; rfl
      · left
        rw [List.mem_iff_getElem]
        refine ⟨j, by simpa using hj, ?_⟩
        rw [List.getElem_set_ne (fun h => hji h.symm)]
        exact e
    · left; simp [hi, hx]

/-- a reference that `dedupeRefs` drops describes the new reference's variant: the new reference, which stays,
    names the same stored response -/
theorem mem_dedupe_or_same (refs : List Ref) (idx : Nat) (ref x : Ref) (hx : x ∈ refs) :
    x ∈ dedupeRefs refs idx ref ∨ sameVariant x ref = true := by
  by_cases hs : sameVariant x ref = true
  · exact Or.inr hs
  · left
    unfold dedupeRefs
    obtain ⟨j, hj, e⟩ := List.getElem_of_mem hx
    rw [List.mem_map]
    refine ⟨(x, j), ?_, rfl⟩
    rw [List.mem_filter]
    refine ⟨?_, by simp [hs]⟩
    rw [List.mem_zipIdx_iff_getElem?]
    simp [List.getElem?_eq_getElem hj, e]

/-- a reference of the old index: its response is named by the new index, or it was the overwritten reference
    and nothing in the new index names its response -/
theorem named_or_replaced (refs : List Ref) (ri : Option Nat) (ref x : Ref) (hx : x ∈ refs) :
    (∃ y ∈ dedupeRefs (placeRef refs ri ref).1 (placeRef refs ri ref).2 ref, y.id = x.id) ∨
    (replacedId refs ri = some x.id ∧ ∀ y ∈ dedupeRefs (placeRef refs ri ref).1 (placeRef refs ri ref).2 ref, y.id ≠ x.id) := by
  by_cases hex : ∃ y ∈ dedupeRefs (placeRef refs ri ref).1 (placeRef refs ri ref).2 ref, y.id = x.id
  · exact Or.inl hex
  · right
    have hall : ∀ y ∈ dedupeRefs (placeRef refs ri ref).1 (placeRef refs ri ref).2 ref, y.id ≠ x.id :=
      fun y hy e => hex ⟨y, hy, e⟩
    refine ⟨?_, hall⟩
    rcases mem_refs_placeRef refs ri ref x hx with hp | hp
    · exfalso
      rcases mem_dedupe_or_same _ (placeRef refs ri ref).2 ref x hp with hd | hd
      · exact hall x hd rfl
      · have hself := mem_dedupe_self _ _ _ (placeRef_get refs ri ref)
        unfold sameVariant at hd
        simp only [Bool.and_eq_true, decide_eq_true_eq] at hd
        exact hall _ hself hd.1.symm
    · exact hp

/-- the clean-up deletes the overwritten reference's response when the index write succeeded and nothing names it -/
theorem dropReplaced_deletes (refs nr : List Ref) (ri : Option Nat) (k : Prog) (tr : List Step) (res : Result) (old : Str)
    (hrep : replacedId refs ri = some old) (hne : old ≠ []) (hall : ∀ y ∈ nr, y.id ≠ old)
    (h : Run (dropReplaced refs nr ri true k) tr res) : ∃ tr', tr = Step.delete old :: tr' := by
  unfold dropReplaced at h
  rw [hrep] at h
  simp only at h
  have h1 : old.isEmpty = false := by cases hxi : old with
    | nil => exact absurd hxi hne
    | cons c cs => rfl
  have h2' : (nr.any fun y => decide (y.id = old)) = false := by
    rw [List.any_eq_false]; intro y hy; simpa using hall y hy
  simp only [h1, h2', Bool.not_false, Bool.and_self, ↓reduceIte] at h
  cases h with
  | delete h3 => exact ⟨_, rfl⟩

/-- StoreResponse leaves no stored response behind. When the entry write and the index write both succeed,
    every response the OLD index named (by a non-empty identifier) is named by the NEW index or is deleted in
    the same call: the overwritten reference's response, once no reference names it, is removed. Together
    with `invalidate_complete` this is what keeps every entry key reachable from its index. -/
theorem store_leaves_no_orphan (cfg : Cfg) (reqH : Header) (r : Resp) (b : Bool) (key : Str)
    (refs : List Ref) (t1 t2 : Int) (ri : Option Nat) (tr : List Step) (res : Result)
    (h : Run (storeResponse cfg reqH r b key refs t1 t2 ri (fun r => .ret (.resp r))) tr res)
    (k' : Str) (rs : List Ref) (hR : Step.setRefs k' rs true ∈ tr) :
    ∀ x ∈ refs, x.id ≠ [] → (∃ y ∈ rs, y.id = x.id) ∨ Step.delete x.id ∈ tr := by
  intro x hx hne
  unfold storeResponse at h
  simp only [] at h
  split at h
  · cases h; cases hR
  · cases h with
    | setEntry ok h1 =>
      dsimp only at h1
      split at h1
      · cases h1; simp at hR
      · cases h1 with
        | setRefs ok2 h2 =>
          dsimp only at h2
          generalize hrf : (Ref.mk _ _ _ _) = rf at h2 hR
          -- the index written, and its success flag, are the ones of the only setRefs step
          have hrs : rs = dedupeRefs (placeRef refs ri rf).1 (placeRef refs ri rf).2 rf ∧ true = ok2 := by
            rcases dropReplaced_run _ _ _ _ _ _ _ h2 with hk | ⟨old, tr', e, hk, _⟩
            · cases hk; simp at hR; exact ⟨hR.2.1, hR.2.2.symm⟩
            · subst e; cases hk; simp at hR; exact ⟨hR.2.1, hR.2.2.symm⟩
          obtain ⟨hrs1, hok⟩ := hrs
          subst hok
          rcases named_or_replaced refs ri rf x hx with hn | ⟨hrep, hall⟩
          · left; rw [hrs1]; exact hn
          · right
            obtain ⟨tr', e⟩ := dropReplaced_deletes _ _ _ _ _ _ _ hrep hne hall h2
            rw [e]; simp

end Httpcache
