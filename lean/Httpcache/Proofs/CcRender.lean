import Httpcache.Proofs.Csv
/- The composed statement for Cache-Control spellings: `parseCC (ccHeader lines) = dInsertAll [] (pairs of the directives)`
   for every way of writing the directives (letter case of names, optional white space, empty elements,
   token / quoted-string arguments, any split into field lines). -/
namespace Httpcache


/-- bytes allowed in a (spelled) directive name or an unquoted argument here: no list / quoting / argument
    syntax and no white space -/
def wordChar (c : Char) : Bool := plainChar c && c ≠ '=' && !isTextprotoSpace c

theorem trimLeft_all (p : Char → Bool) (pre rest : Str) (h : pre.all p = true) : trimLeft p (pre ++ rest) = trimLeft p rest := by
  induction pre with
  | nil => rfl
  | cons c cs ih =>
    simp only [List.all_cons, Bool.and_eq_true] at h
    simp [trimLeft, h.1, ih h.2]

theorem trimLeft_head (p : Char → Bool) (c : Char) (r : Str) (h : p c = false) : trimLeft p (c :: r) = c :: r := by
  simp [trimLeft, h]

/-- white space around a body that neither starts nor ends with white space is trimmed exactly -/
theorem trimString_wrap (pre post body : Str) (hpre : pre.all isTextprotoSpace = true) (hpost : post.all isTextprotoSpace = true)
    (hne : body ≠ []) (hh : ∀ c r, body = c :: r → isTextprotoSpace c = false)
    (hl : ∀ c r, body.reverse = c :: r → isTextprotoSpace c = false) :
    trimString (pre ++ body ++ post) = body := by
  unfold trimString trimBoth
  rw [List.append_assoc, trimLeft_all _ _ _ hpre]
  cases hb : body with
  | nil => exact absurd hb hne
  | cons c r =>
    rw [List.cons_append, trimLeft_head _ c _ (hh c r hb)]
    have hrev : (c :: (r ++ post)).reverse = post.reverse ++ (c :: r).reverse := by simp
    rw [hrev, trimLeft_all _ _ _ (by simpa using hpost)]
    cases hr : (c :: r).reverse with
    | nil => simp at hr
    | cons c' r' =>
      rw [trimLeft_head _ c' _ (hl c' r' (by rw [hb]; exact hr)), ← hr]
      simp

theorem trimString_ows (s : Str) (h : s.all isTextprotoSpace = true) : trimString s = [] := by
  unfold trimString trimBoth
  have : trimLeft isTextprotoSpace s = [] := by
    have := trimLeft_all isTextprotoSpace s [] h
    simpa [trimLeft] using this
  rw [this]; rfl

theorem qscanAll_append (q : Bool × Bool) (x y : Str) :
    qscanAll q (x ++ y) = (qscanAll q x).bind (fun q' => qscanAll q' y) := by
  induction x generalizing q with
  | nil => simp [qscanAll]
  | cons c cs ih =>
    simp only [List.cons_append, qscanAll]
    cases qscan q c with
    | none => rfl
    | some q1 => exact ih q1

theorem qscanAll_plain (b : Bool) (s : Str) (h : s.all plainChar = true) : qscanAll (b, false) s = some (b, false) := by
  induction s with
  | nil => rfl
  | cons c cs ih =>
    simp only [List.all_cons, Bool.and_eq_true] at h
    have hc := h.1
    unfold plainChar at hc
    simp only [Bool.and_eq_true, decide_eq_true_eq] at hc
    obtain ⟨⟨h1, h2⟩, h3⟩ := hc
    simp [qscanAll, qscan, h1, h2, h3, ih h.2]

theorem ows_plain (s : Str) (h : s.all isTextprotoSpace = true) : s.all plainChar = true := by
  apply List.all_eq_true.mpr
  intro c hc
  have := List.all_eq_true.mp h c hc
  unfold isTextprotoSpace at this
  unfold plainChar
  simp only [Bool.or_eq_true, decide_eq_true_eq] at this
  rcases this with ((h | h) | h) | h <;> subst h <;> decide

theorem word_plain (s : Str) (h : s.all wordChar = true) : s.all plainChar = true := by
  apply List.all_eq_true.mpr
  intro c hc
  have := List.all_eq_true.mp h c hc
  unfold wordChar at this
  simp only [Bool.and_eq_true] at this
  exact this.1.1

/-- a canonical directive: lower-case name, optional argument -/
structure Dir where
  name : Str
  arg : Option Str

/-- one spelling of it: the name in any letter case, optional white space around the element, the
    argument as a token or as a quoted-string -/
structure Sp where
  name' : Str
  pre : Str
  post : Str
  quoted : Bool

def argText (d : Dir) (sp : Sp) : Str :=
  match d.arg with
  | none => []
  | some a => if sp.quoted then '"' :: a ++ ['"'] else a

def bodyOf (d : Dir) (sp : Sp) : Str :=
  match d.arg with
  | none => sp.name'
  | some _ => sp.name' ++ '=' :: argText d sp

def renderDir (d : Dir) (sp : Sp) : Str := sp.pre ++ bodyOf d sp ++ sp.post

structure SpOK (d : Dir) (sp : Sp) : Prop where
  case : lowerASCII sp.name' = d.name
  nameWord : sp.name'.all wordChar = true
  nameNe : sp.name' ≠ []
  argWord : ∀ a, d.arg = some a → a.all wordChar = true
  pre : sp.pre.all isTextprotoSpace = true
  post : sp.post.all isTextprotoSpace = true

theorem argText_plain_or_quoted (d : Dir) (sp : Sp) (ok : SpOK d sp) (a : Str) (ha : d.arg = some a) :
    qscanAll (false, false) (argText d sp) = some (false, false) := by
  unfold argText
  rw [ha]
  have hp := word_plain a (ok.argWord a ha)
  by_cases hq : sp.quoted = true
  · simp only [hq, ↓reduceIte]
    have e : ('"' :: a ++ ['"']) = ['"'] ++ (a ++ ['"']) := by simp
    rw [e, qscanAll_append]
    have h1 : qscanAll (false, false) ['"'] = some (true, false) := by decide
    rw [h1]
    simp only [Option.bind_some]
    rw [qscanAll_append, qscanAll_plain true a hp]
    simp only [Option.bind_some]
    decide
  · simp only [hq, Bool.false_eq_true, ↓reduceIte]
    exact qscanAll_plain false a hp

theorem renderDir_closed (d : Dir) (sp : Sp) (ok : SpOK d sp) : closedElem (renderDir d sp) = true := by
  unfold closedElem renderDir
  have hpre := qscanAll_plain false sp.pre (ows_plain _ ok.pre)
  have hpost := qscanAll_plain false sp.post (ows_plain _ ok.post)
  have hname := qscanAll_plain false sp.name' (word_plain _ ok.nameWord)
  have hbody : qscanAll (false, false) (bodyOf d sp) = some (false, false) := by
    unfold bodyOf
    cases ha : d.arg with
    | none => exact hname
    | some a =>
      simp only []
      rw [qscanAll_append, hname]
      simp only [Option.bind_some]
      have e : ('=' :: argText d sp) = ['='] ++ argText d sp := rfl
      rw [e, qscanAll_append]
      have : qscanAll (false, false) ['='] = some (false, false) := by decide
      rw [this]
      simp only [Option.bind_some]
      exact argText_plain_or_quoted d sp ok a ha
  have : qscanAll (false, false) (sp.pre ++ bodyOf d sp ++ sp.post) = some (false, false) := by
    rw [qscanAll_append, qscanAll_append, hpre]
    simp only [Option.bind_some]
    rw [hbody]
    simp only [Option.bind_some]
    exact hpost
  rw [this]; simp

theorem word_not_space (c : Char) (h : wordChar c = true) : isTextprotoSpace c = false := by
  unfold wordChar at h
  simp only [Bool.and_eq_true, Bool.not_eq_true'] at h
  exact h.2

theorem word_not_eq (s : Str) (h : s.all wordChar = true) : '=' ∉ s := by
  intro hm
  have := List.all_eq_true.mp h _ hm
  revert this; decide

/-- a string whose first and last bytes are not white space is left alone by TrimString -/
theorem trimString_id (s : Str) (hh : ∀ c r, s = c :: r → isTextprotoSpace c = false)
    (hl : ∀ c r, s.reverse = c :: r → isTextprotoSpace c = false) : trimString s = s := by
  cases hs : s with
  | nil => rfl
  | cons c r =>
    have := trimString_wrap [] [] s rfl rfl (by rw [hs]; simp) hh hl
    simpa [hs] using this

theorem argText_ends (d : Dir) (sp : Sp) (ok : SpOK d sp) :
    (∀ c r, argText d sp = c :: r → isTextprotoSpace c = false) ∧
    (∀ c r, (argText d sp).reverse = c :: r → isTextprotoSpace c = false) := by
  unfold argText
  cases ha : d.arg with
  | none => exact ⟨(fun c r h => by simp at h), (fun c r h => by simp at h)⟩
  | some a =>
    have hw := ok.argWord a ha
    by_cases hq : sp.quoted = true
    · simp only [hq, ↓reduceIte]
      constructor
      · intro c r h; simp only [List.cons_append, List.cons.injEq] at h; rw [← h.1]; decide
      · intro c r h; simp only [List.cons_append, List.reverse_cons, List.reverse_append, List.reverse_nil, List.nil_append,
          List.cons_append, List.cons.injEq] at h; rw [← h.1]; decide
    · simp only [hq, Bool.false_eq_true, ↓reduceIte]
      constructor
      · intro c r h
        exact word_not_space c (List.all_eq_true.mp hw c (by rw [h]; exact List.mem_cons_self))
      · intro c r h
        have : c ∈ a := by
          have : c ∈ a.reverse := by rw [h]; exact List.mem_cons_self
          simpa using this
        exact word_not_space c (List.all_eq_true.mp hw c this)

theorem body_ends (d : Dir) (sp : Sp) (ok : SpOK d sp) :
    bodyOf d sp ≠ [] ∧ (∀ c r, bodyOf d sp = c :: r → isTextprotoSpace c = false) ∧
    (∀ c r, (bodyOf d sp).reverse = c :: r → isTextprotoSpace c = false) := by
  have hn := ok.nameWord
  have nameHead : ∀ c r, sp.name' = c :: r → isTextprotoSpace c = false := fun c r h =>
    word_not_space c (List.all_eq_true.mp hn c (by rw [h]; exact List.mem_cons_self))
  have nameLast : ∀ c r, sp.name'.reverse = c :: r → isTextprotoSpace c = false := fun c r h =>
    word_not_space c (List.all_eq_true.mp hn c (by
      have : c ∈ sp.name'.reverse := by rw [h]; exact List.mem_cons_self
      simpa using this))
  unfold bodyOf
  cases ha : d.arg with
  | none => exact ⟨ok.nameNe, nameHead, nameLast⟩
  | some a =>
    simp only []
    refine ⟨?_, ?_, ?_⟩
    · cases hx : sp.name' with
      | nil => exact absurd hx ok.nameNe
      | cons c r => simp
    · intro c r h
      cases hx : sp.name' with
      | nil => exact absurd hx ok.nameNe
      | cons c' r' =>
        rw [hx] at h
        simp only [List.cons_append, List.cons.injEq] at h
        rw [← h.1]; exact nameHead c' r' hx
    · intro c r h
      simp only [List.reverse_append, List.reverse_cons, List.append_assoc] at h
      cases hx : (argText d sp).reverse with
      | nil =>
        rw [hx] at h
        simp only [List.nil_append, List.singleton_append, List.cons.injEq] at h
        rw [← h.1]; decide
      | cons c' r' =>
        rw [hx] at h
        simp only [List.cons_append, List.cons.injEq] at h
        rw [← h.1]
        exact (argText_ends d sp ok).2 c' r' hx

/-- the element as the tokenizer hands it to the directive reader -/
theorem trim_render (d : Dir) (sp : Sp) (ok : SpOK d sp) : trimString (renderDir d sp) = bodyOf d sp := by
  obtain ⟨hne, hh, hl⟩ := body_ends d sp ok
  exact trimString_wrap sp.pre sp.post (bodyOf d sp) ok.pre ok.post hne hh hl

/-- and what the directive reader makes of it: the canonical name and the argument text -/
theorem directive_of_body (d : Dir) (sp : Sp) (ok : SpOK d sp) :
    directiveOfPart (bodyOf d sp) = some (d.name, argText d sp) := by
  have hneq := word_not_eq sp.name' ok.nameWord
  obtain ⟨_, hh, hl⟩ := body_ends d sp ok
  cases ha : d.arg with
  | none =>
    have hb : bodyOf d sp = sp.name' := by unfold bodyOf; rw [ha]
    have ht : trimString sp.name' = sp.name' := by rw [← hb]; exact trimString_id _ hh hl
    rw [hb, directive_without_arg sp.name' hneq (by rw [ht]; exact ok.nameNe), ht, ok.case]
    unfold argText; rw [ha]
  | some a =>
    have hb : bodyOf d sp = sp.name' ++ '=' :: argText d sp := by unfold bodyOf; rw [ha]
    rw [hb, directive_with_arg sp.name' _ hneq ok.nameNe, ok.case]
    have := argText_ends d sp ok
    rw [trimString_id _ this.1 this.2]

/-- an element of the list as written: only optional white space (an empty element), or a directive -/
inductive Elem where
  | empty (ows : Str)
  | dir (d : Dir) (sp : Sp)

def Elem.render : Elem → Str
  | .empty o => o
  | .dir d sp => renderDir d sp

def Elem.OK : Elem → Prop
  | .empty o => o.all isTextprotoSpace = true
  | .dir d sp => SpOK d sp

/-- what the element means: nothing, or (canonical name, argument text) -/
def Elem.pair? : Elem → Option (Str × Str)
  | .empty _ => none
  | .dir d sp => some (d.name, argText d sp)

theorem elem_closed (e : Elem) (ok : e.OK) : closedElem e.render = true := by
  cases e with
  | empty o => exact plain_closed o (ows_plain o ok)
  | dir d sp => exact renderDir_closed d sp ok

theorem elems_read (elems : List Elem) (ok : ∀ e ∈ elems, e.OK) :
    (((elems.map Elem.render).map trimString).filter (fun p => !p.isEmpty)).filterMap directiveOfPart =
      elems.filterMap Elem.pair? := by
  induction elems with
  | nil => rfl
  | cons e rest ih =>
    have ihr := ih (fun x hx => ok x (List.mem_cons_of_mem _ hx))
    have hok := ok e List.mem_cons_self
    cases e with
    | empty o =>
      have : trimString o = [] := trimString_ows o hok
      simp only [List.map_cons, Elem.render, this, List.filter_cons, List.isEmpty_nil, Bool.not_true, Bool.false_eq_true,
        ↓reduceIte, List.filterMap_cons, Elem.pair?]
      exact ihr
    | dir d sp =>
      have ht := trim_render d sp hok
      have hne := (body_ends d sp hok).1
      have hemp : (bodyOf d sp).isEmpty = false := by
        cases hb : bodyOf d sp with
        | nil => exact absurd hb hne
        | cons _ _ => rfl
      simp only [List.map_cons, Elem.render, ht, List.filter_cons, hemp, Bool.not_false, ↓reduceIte, List.filterMap_cons,
        directive_of_body d sp hok, Elem.pair?]
      rw [ihr]

/-- ONE field line: its directives, in order, as (canonical name, argument text) -/
theorem line_read (elems : List Elem) (ok : ∀ e ∈ elems, e.OK) :
    (trimmedCSV (joinWith [','] (elems.map Elem.render))).filterMap directiveOfPart = elems.filterMap Elem.pair? := by
  rw [trimmedCSV_join_closed _ (by
    intro s hs
    obtain ⟨e, he, rfl⟩ := List.mem_map.mp hs
    exact elem_closed e (ok e he))]
  exact elems_read elems ok

/-- a header made of Cache-Control field lines only (other fields play no role in `parseCC`) -/
def ccHeader (lines : List (List Elem)) : Header :=
  lines.map fun l => (sCacheControl, joinWith [','] (l.map Elem.render))

theorem values_ccHeader (lines : List (List Elem)) :
    Header.values (ccHeader lines) sCacheControl = lines.map fun l => joinWith [','] (l.map Elem.render) := by
  unfold Header.values ccHeader
  induction lines with
  | nil => rfl
  | cons l rest ih => simp [ih]

theorem joinWith_lines (ls : List (List Str)) (hne : ∀ l ∈ ls, l ≠ []) :
    joinWith [','] (ls.map (joinWith [','])) = joinWith [','] ls.flatten := by
  induction ls with
  | nil => rfl
  | cons l rest ih =>
    have ihr := ih (fun x hx => hne x (List.mem_cons_of_mem _ hx))
    have hl := hne l List.mem_cons_self
    cases rest with
    | nil => simp [joinWith]
    | cons l2 rest2 =>
      simp only [List.map_cons, joinWith, List.flatten_cons] at ihr ⊢
      rw [ihr]
      have hl2 := hne l2 (List.mem_cons_of_mem _ List.mem_cons_self)
      have app : ∀ (a b : List Str), a ≠ [] → b ≠ [] → joinWith [','] (a ++ b) = joinWith [','] a ++ [','] ++ joinWith [','] b := by
        intro a
        induction a with
        | nil => intro b h; exact absurd rfl h
        | cons x xs iha =>
          intro b _ hb
          cases xs with
          | nil =>
            cases b with
            | nil => exact absurd rfl hb
            | cons y ys => simp [joinWith]
          | cons x2 xs2 =>
            have := iha b (by simp) hb
            simp only [List.cons_append, joinWith] at this ⊢
            rw [this]; simp [List.append_assoc]
      have hrest : (l2 ++ rest2.flatten) ≠ [] := by
        cases l2 with
        | nil => exact absurd rfl hl2
        | cons _ _ => simp
      exact (app l (l2 ++ rest2.flatten) hl hrest).symm

/-- THE COMPOSED STATEMENT: a Cache-Control value written as any number of field lines, each a list
    of elements — directives with names in any letter case, optional white space around every
    element, empty elements, arguments as token or quoted-string — is read as the insertion, in order,
    of (canonical lower-case name, argument text) of its directives, and of nothing else. -/
theorem parse_render (lines : List (List Elem)) (hne : ∀ l ∈ lines, l ≠ []) (ok : ∀ l ∈ lines, ∀ e ∈ l, e.OK) :
    parseCC (ccHeader lines) = dInsertAll [] (lines.flatten.filterMap Elem.pair?) := by
  have hv : joinWith [','] (Header.values (ccHeader lines) sCacheControl) =
      joinWith [','] (lines.flatten.map Elem.render) := by
    rw [values_ccHeader]
    have := joinWith_lines (lines.map (List.map Elem.render)) (by
      intro l hl
      obtain ⟨l0, h0, rfl⟩ := List.mem_map.mp hl
      intro he
      exact hne l0 h0 (by simpa using he))
    rw [List.map_map] at this
    rw [show (lines.map fun l => joinWith [','] (l.map Elem.render)) = lines.map (joinWith [','] ∘ List.map Elem.render) from rfl, this]
    congr 1
    simp [List.map_flatten]
  unfold parseCC
  simp only [hv]
  have hread := line_read lines.flatten (by
    intro e he
    obtain ⟨l, hl, hel⟩ := List.mem_flatten.mp he
    exact ok l hl e hel)
  split
  · rename_i hemp
    have : joinWith [','] (lines.flatten.map Elem.render) = [] := by simpa using hemp
    rw [this] at hread
    have h0 : trimmedCSV [] = [] := by decide
    rw [h0] at hread
    simp only [List.filterMap_nil] at hread
    rw [← hread]; rfl
  · rename_i hnonempty
    rw [values_ccHeader, parseLines_pairs]
    congr 1
    clear hv hread hne hnonempty
    induction lines with
    | nil => rfl
    | cons l ls ih =>
      simp only [List.map_cons, List.flatMap_cons, List.flatten_cons, List.filterMap_append]
      rw [line_read l (fun e he => ok l List.mem_cons_self e he)]
      rw [ih (fun l' hl' e he => ok l' (List.mem_cons_of_mem _ hl') e he)]

end Httpcache
