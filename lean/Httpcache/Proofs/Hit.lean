import Httpcache.Proofs.Freshness
import Httpcache.Proofs.Run
/-
Hit-path lemmas: which executions of handleCacheHit / handleCacheMiss end without contacting
the origin, and what then holds of the stored response (used by C01, C11, C18).
-/
namespace Httpcache

/-- what C01 allows for an answer from the store without origin contact -/
def C01Allowed (g : Glue) (reqH : Header) (e : Entry) (now : Int) (bgSpawned : Bool) : Prop :=
  Spec.isFresh modelReader g.parseTime (Spec.storedOfEntry e) now = true ∨
  Spec.hasDirective modelReader reqH (str% "only-if-cached") = true ∨
  Spec.maxStaleCovers modelReader reqH (Spec.currentAge g.parseTime (Spec.storedOfEntry e) now)
    (Spec.freshnessLifetime modelReader g.parseTime (Spec.storedOfEntry e)) = true ∨
  (bgSpawned = true ∧ ∃ w, Spec.directiveSeconds modelReader e.resp.header (str% "stale-while-revalidate") = some w ∧
     Spec.withinWindow modelReader g.parseTime (Spec.storedOfEntry e) now w = true)

theorem miss_no_contact (cfg : Cfg) (t0 : Int) (req : Req) (key : Str) (refs : List Ref) (ri : Option Nat)
    (tr : List Step) (r : Result) (h : Run (handleCacheMiss cfg t0 req key refs ri) tr r)
    (hc : contacted tr = false) : r = .resp make504 ∧ tr = [] := by
  unfold handleCacheMiss at h
  simp only [] at h
  split at h
  · cases h; exact ⟨rfl, rfl⟩
  · cases h; simp [contacted, Step.isOrigin] at hc

theorem revalidate_contacts (cfg : Cfg) (t0 : Int) (req : Req) (e : Entry) (key : Str) (refs : List Ref)
    (i : Nat) (f : Freshness) (cc : Directives) (mv : Bool) (tr : List Step) (r : Result)
    (h : Run (revalidateProg cfg t0 req e key refs i f cc mv) tr r) : contacted tr = true := by
  unfold revalidateProg at h
  cases h; simp [contacted, Step.isOrigin]

/-- the calculator's fields outside the request max-age=0 short cut -/
theorem calc_fields (g : Glue) (now : Int) (e : Entry) (reqCC resCC : Directives) (h0 : reqCC.maxAge ≠ some 0) :
    (calculateFreshness g now e reqCC resCC).ageValue = currentAge g now e ∧
    (calculateFreshness g now e reqCC resCC).ageTimestamp = now ∧
    (calculateFreshness g now e reqCC resCC).usefulLife = requestLifetime (responseLifetime g e resCC) reqCC := by
  unfold calculateFreshness
  simp only [h0, ↓reduceIte]
  split <;> exact ⟨rfl, rfl, rfl⟩

/-- when the request's max-age is not exceeded, the transport works with the calculator's result -/
theorem transport_not_exceeded (g : Glue) (now : Int) (e : Entry) (reqCC resCC : Directives)
    (h : (transportFreshness g now e reqCC resCC).2 = false) :
    (transportFreshness g now e reqCC resCC).1 = calculateFreshness g now e reqCC resCC ∧ reqCC.maxAge ≠ some 0 := by
  unfold transportFreshness at h ⊢
  cases hm : reqCC.maxAge with
  | none => simp
  | some m =>
    simp only [hm] at h ⊢
    split at h
    · rename_i hc
      simp only [hc, ↓reduceIte, true_and]
      intro h0
      cases h0
      simp at hc
    · cases h

theorem currentAge_le_max (g : Glue) (now : Int) (e : Entry) : currentAge g now e ≤ maxI64 := by
  unfold currentAge satAdd; exact sat_le_max _

theorem currentAge_ge_min (g : Glue) (now : Int) (e : Entry) : minI64 ≤ currentAge g now e := by
  unfold currentAge satAdd; exact sat_ge_min _

theorem swr_sound (g : Glue) (t0 : Int) (e : Entry) (reqH : Header) (swr : Int)
    (hs : e.resp.status ≠ 304) (hT : TimesOK e)
    (h0 : (parseCC reqH).maxAge ≠ some 0)
    (hw : inSwrWindow (calculateFreshness g t0 e (parseCC reqH) (parseCC e.resp.header)) t0 swr = true) :
    Spec.withinWindow modelReader g.parseTime (Spec.storedOfEntry e) t0 swr = true := by
  obtain ⟨ha, hts, hl⟩ := calc_fields g t0 e (parseCC reqH) (parseCC e.resp.header) h0
  unfold inSwrWindow at hw
  rw [ha, hts, hl] at hw
  simp only [Bool.and_eq_true, decide_eq_true_eq] at hw
  obtain ⟨⟨_, _⟩, hlt⟩ := hw
  have hsub : satSub t0 t0 = 0 := by unfold satSub sat maxI64 minI64; simp
  rw [hsub] at hlt
  have hid : satAdd (currentAge g t0 e) 0 = currentAge g t0 e := by
    unfold satAdd; rw [Int.add_zero]; exact sat_id (currentAge_ge_min _ _ _) (currentAge_le_max _ _ _)
  rw [hid] at hlt
  have hrl := requestLifetime_le (responseLifetime g e (parseCC e.resp.header)) (parseCC reqH)
  unfold Spec.withinWindow
  simp only [decide_eq_true_eq]
  cases hd : Spec.httpTime g.parseTime e.resp.header sDate with
  | none =>
    exfalso
    have := age_max_of_no_date g t0 e hT hd
    have h2 : satAdd (requestLifetime (responseLifetime g e (parseCC e.resp.header)) (parseCC reqH)) swr ≤ maxI64 := sat_le_max _
    omega
  | some d =>
    have hle := life_le g e hs d hd
    rw [← age_eq g t0 e hT]
    have : satAdd (requestLifetime (responseLifetime g e (parseCC e.resp.header)) (parseCC reqH)) swr ≤
        sat (Spec.freshnessLifetime modelReader g.parseTime (Spec.storedOfEntry e) + swr) := by
      unfold satAdd; exact sat_mono (by omega)
    omega

theorem hit_no_contact (cfg : Cfg) (t0 : Int) (req : Req) (e : Entry) (key : Str) (refs : List Ref) (i : Nat)
    (hs : e.resp.status ≠ 304) (hT : TimesOK e)
    (tr : List Step) (r : Result) (h : Run (handleCacheHit cfg t0 req e key refs i) tr r)
    (hc : contacted tr = false) :
    r = .resp make504 ∨ (∃ x, r = .resp x ∧ C01Allowed cfg.glue req.header e t0 (spawned tr)) := by
  unfold handleCacheHit at h
  simp only [] at h
  split at h
  · split at h
    · cases h; left; rfl
    · rw [revalidate_contacts _ _ _ _ _ _ _ _ _ _ _ _ h] at hc; cases hc
  · rename_i hmv
    simp only [Bool.or_eq_true, not_or, Bool.not_eq_true] at hmv
    obtain ⟨_, hex⟩ := hmv
    obtain ⟨htf, h0⟩ := transport_not_exceeded _ _ _ _ _ hex
    rw [htf] at h
    have fresh_case : (calculateFreshness cfg.glue t0 e (parseCC req.header) (parseCC e.resp.header)).isStale = false →
        C01Allowed cfg.glue req.header e t0 (spawned tr) := by
      intro hf
      cases fresh_sound cfg.glue t0 e req.header hs hT hf with
      | inl h1 => exact Or.inl h1
      | inr h1 => exact Or.inr (Or.inr (Or.inl h1))
    split at h
    · rename_i hc1
      cases h; right
      refine ⟨_, rfl, fresh_case ?_⟩
      simp only [Bool.and_eq_true, Bool.not_eq_true'] at hc1
      exact hc1.1.1
    · split at h
      · rename_i hc2
        cases h; right
        refine ⟨_, rfl, ?_⟩
        simp only [Bool.or_eq_true, Bool.and_eq_true, Bool.not_eq_true'] at hc2
        cases hc2 with
        | inl hoic => right; left; rw [has_eq]; exact hoic
        | inr hf => exact fresh_case hf.1
      · split at h
        · rename_i swr hswr
          split at h
          · rename_i hwin
            cases h with
            | spawn h' =>
              cases h'; right
              refine ⟨_, rfl, ?_⟩
              right; right; right
              refine ⟨by simp [spawned, Step.isSpawn], swr, ?_, ?_⟩
              · rw [seconds_eq]; exact hswr
              · exact swr_sound cfg.glue t0 e req.header swr hs hT h0 hwin
          · rw [revalidate_contacts _ _ _ _ _ _ _ _ _ _ _ _ h] at hc; cases hc
        · rw [revalidate_contacts _ _ _ _ _ _ _ _ _ _ _ _ h] at hc; cases hc


theorem ncu_eq (h : Header) : Spec.noCacheUnqualified modelReader h = (parseCC h).noCacheUnqualified := by
  unfold Spec.noCacheUnqualified modelReader Directives.noCacheUnqualified Directives.respNoCache
  simp only []
  cases hl : alookup (str% "no-cache") (parseCC h) with
  | none => simp
  | some v =>
    simp only [Option.map_some]
    by_cases hv : v.isEmpty = true
    · have : v = [] := by simpa using hv
      subst this
      simp [parseQuotedString_nil]
    · simp only [hv, Bool.false_eq_true, ↓reduceIte]
      by_cases ha : (parseQuotedString v).isEmpty = true <;> simp [ha]

/-- with must-revalidate the calculator's "not stale" means fresh by the RFC definitions:
    max-stale is not applied -/
theorem fresh_sound_must_revalidate (g : Glue) (now : Int) (e : Entry) (reqCC : Directives)
    (hs : e.resp.status ≠ 304) (hT : TimesOK e)
    (hmr : (parseCC e.resp.header).mustRevalidate = true)
    (h : (calculateFreshness g now e reqCC (parseCC e.resp.header)).isStale = false) :
    Spec.isFresh modelReader g.parseTime (Spec.storedOfEntry e) now = true := by
  unfold calculateFreshness at h
  split at h
  · simp at h
  · split at h
    · simp at h
    · simp only [] at h
      have hrl := requestLifetime_le (responseLifetime g e (parseCC e.resp.header)) reqCC
      generalize requestLifetime (responseLifetime g e (parseCC e.resp.header)) reqCC = life at h hrl
      unfold staleAfterMaxStale at h
      simp only [hmr, Bool.not_true, Bool.and_false, Bool.false_and, Bool.false_eq_true, ↓reduceIte,
        decide_eq_false_iff_not] at h
      cases hd : Spec.httpTime g.parseTime e.resp.header sDate with
      | none =>
        exfalso
        have ha := age_max_of_no_date g now e hT hd
        have hb := responseLifetime_bounds g e (parseCC e.resp.header)
        omega
      | some d =>
        have hle := life_le g e hs d hd
        unfold Spec.isFresh
        simp only [decide_eq_true_eq]
        rw [← age_eq g now e hT]; omega

/-- the model's "must validate" is false only when the RFC-level strict validation conditions
    are all false -/
theorem not_mv_not_strict (g : Glue) (now : Int) (e : Entry) (reqH : Header)
    (hs : e.resp.status ≠ 304) (hT : TimesOK e)
    (h : mustValidateOf (calculateFreshness g now e (parseCC reqH) (parseCC e.resp.header)) (parseCC reqH) (parseCC e.resp.header) = false) :
    Spec.strictValidate modelReader g.parseTime reqH (Spec.storedOfEntry e) now = false := by
  unfold mustValidateOf at h
  simp only [Bool.or_eq_false_iff, Bool.and_eq_false_iff] at h
  obtain ⟨⟨hnc, hsm⟩, hncu⟩ := h
  unfold Spec.strictValidate
  simp only [Bool.or_eq_false_iff, Bool.and_eq_false_iff, Bool.not_eq_false']
  refine ⟨⟨?_, ?_⟩, ?_⟩
  · rw [show (Spec.storedOfEntry e).header = e.resp.header from rfl, ncu_eq]; exact hncu
  · rw [show (Spec.storedOfEntry e).header = e.resp.header from rfl, has_eq]
    cases hsm with
    | inl hf =>
      by_cases hmr : (parseCC e.resp.header).mustRevalidate = true
      · left; exact fresh_sound_must_revalidate g now e (parseCC reqH) hs hT hmr hf
      · right; simpa [Directives.mustRevalidate] using hmr
    | inr hmr => right; simpa [Directives.mustRevalidate] using hmr
  · rw [has_eq]; simpa [Directives.noCache] using hnc


end Httpcache
