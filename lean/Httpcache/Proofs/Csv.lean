import Httpcache.Proofs.Parse
import Httpcache.Proofs.Url
/- The list tokenizer (TrimmedCSVSeq) and the directive parser on all spellings. -/
namespace Httpcache

/-- bytes that are neither a list separator nor quoting syntax -/
def plainChar (c : Char) : Bool := c ≠ ',' && c ≠ '"' && c ≠ '\\'

def csvRun (st : CsvSt) (s : Str) : CsvSt := s.foldl csvStep st
def csvFinish (st : CsvSt) : List Str := (if st.part.isEmpty then st else csvEmit st).out.reverse

theorem trimmedCSV_eq (s : Str) : trimmedCSV s = csvFinish (csvRun {} s) := rfl

theorem csvRun_plain (e : Str) (he : e.all plainChar = true) : ∀ (st : CsvSt), st.inQuotes = false → st.escape = false →
    csvRun st e = { st with part := e.reverse ++ st.part } := by
  induction e with
  | nil => intro st _ _; simp [csvRun]
  | cons c cs ih =>
    intro st hq hesc
    simp only [List.all_cons, Bool.and_eq_true] at he
    have hc := he.1
    unfold plainChar at hc
    simp only [Bool.and_eq_true, decide_eq_true_eq] at hc
    obtain ⟨⟨h1, h2⟩, h3⟩ := hc
    have hstep : csvStep st c = { st with part := c :: st.part } := by
      unfold csvStep
      simp [hesc, h1, h2, h3]
    unfold csvRun
    simp only [List.foldl_cons, hstep]
    have := ih he.2 { st with part := c :: st.part } hq hesc
    unfold csvRun at this
    rw [this]
    simp

theorem csv_join (elems : List Str) (hp : ∀ e ∈ elems, e.all plainChar = true) : ∀ (o : List Str),
    csvFinish (csvRun { part := [], inQuotes := false, escape := false, out := o } (joinWith [','] elems)) =
      o.reverse ++ (elems.map trimString).filter (fun p => !p.isEmpty) := by
  induction elems with
  | nil => intro o; simp [joinWith, csvRun, csvFinish]
  | cons e rest ih =>
    intro o
    have he := hp e List.mem_cons_self
    cases rest with
    | nil =>
      simp only [joinWith]
      rw [csvRun_plain e he _ rfl rfl]
      unfold csvFinish
      simp only [List.append_nil]
      by_cases hemp : e = []
      · subst hemp; simp [trimString, trimBoth, trimLeft]
      · have : e.reverse.isEmpty = false := by simpa using hemp
        simp only [this, Bool.false_eq_true, ↓reduceIte, csvEmit, List.reverse_reverse]
        by_cases ht : (trimString e).isEmpty = true
        · simp [ht]
        · simp [ht]
    | cons e2 rest2 =>
      simp only [joinWith]
      have hrun : csvRun { part := [], inQuotes := false, escape := false, out := o } (e ++ [','] ++ joinWith [','] (e2 :: rest2)) =
          csvRun (csvEmit { part := e.reverse, inQuotes := false, escape := false, out := o }) (joinWith [','] (e2 :: rest2)) := by
        unfold csvRun
        rw [List.foldl_append, List.foldl_append]
        have h1 := csvRun_plain e he { part := [], inQuotes := false, escape := false, out := o } rfl rfl
        unfold csvRun at h1
        rw [h1]
        simp only [List.append_nil, List.foldl_cons, List.foldl_nil]
        congr 1
      rw [hrun]
      have hemit : csvEmit { part := e.reverse, inQuotes := false, escape := false, out := o } =
          { part := [], inQuotes := false, escape := false, out := if (trimString e).isEmpty then o else trimString e :: o } := by
        simp [csvEmit]
      rw [hemit]
      rw [ih (fun x hx => hp x (List.mem_cons_of_mem _ hx))]
      by_cases ht : (trimString e).isEmpty = true
      · simp [ht]
      · simp [ht]

/-- C12 (list syntax): for EVERY list of elements free of quoting syntax, with arbitrary optional
    white space around them and arbitrarily many empty elements, the tokenizer yields exactly the
    trimmed non-empty elements, in order. -/
theorem trimmedCSV_join (elems : List Str) (hp : ∀ e ∈ elems, e.all plainChar = true) :
    trimmedCSV (joinWith [','] elems) = (elems.map trimString).filter (fun p => !p.isEmpty) := by
  rw [trimmedCSV_eq]
  have := csv_join elems hp []
  simpa using this


theorem cutAt_append (sep : Char) (n a : Str) (hn : sep ∉ n) : cutAt sep (n ++ sep :: a) = some (n, a) := by
  induction n with
  | nil => simp [cutAt]
  | cons c cs ih =>
    have hc : c ≠ sep := fun h => hn (by rw [h]; exact List.mem_cons_self)
    have hcs : sep ∉ cs := fun h => hn (List.mem_cons_of_mem _ h)
    simp only [List.cons_append, cutAt, hc, ↓reduceIte, ih hcs]

theorem cutAt_none (sep : Char) (n : Str) (hn : sep ∉ n) : cutAt sep n = none := by
  induction n with
  | nil => rfl
  | cons c cs ih =>
    have hc : c ≠ sep := fun h => hn (by rw [h]; exact List.mem_cons_self)
    have hcs : sep ∉ cs := fun h => hn (List.mem_cons_of_mem _ h)
    simp only [cutAt, hc, ↓reduceIte, ih hcs]

/-- a directive with an argument: name (any case) '=' argument -/
theorem directive_with_arg (n a : Str) (hn : '=' ∉ n) (hne : n ≠ []) :
    directiveOfPart (n ++ '=' :: a) = some (lowerASCII n, trimString a) := by
  unfold directiveOfPart
  rw [cutAt_append '=' n a hn]
  have : n.isEmpty = false := by cases n with
    | nil => exact absurd rfl hne
    | cons _ _ => rfl
  simp [this]

/-- a directive without argument -/
theorem directive_without_arg (n : Str) (hn : '=' ∉ n) (hne : trimString n ≠ []) :
    directiveOfPart n = some (lowerASCII (trimString n), []) := by
  unfold directiveOfPart
  rw [cutAt_none '=' n hn]
  have : (trimString n).isEmpty = false := by cases h : trimString n with
    | nil => exact absurd h hne
    | cons _ _ => rfl
  simp [this]

/-- directive names are case-insensitive: two spellings of a name that agree up to ASCII case give
    the same directive -/
theorem names_case_insensitive (n1 n2 a : Str) (h1 : '=' ∉ n1) (h2 : '=' ∉ n2) (hne1 : n1 ≠ []) (hne2 : n2 ≠ [])
    (hcase : lowerASCII n1 = lowerASCII n2) :
    directiveOfPart (n1 ++ '=' :: a) = directiveOfPart (n2 ++ '=' :: a) := by
  rw [directive_with_arg n1 a h1 hne1, directive_with_arg n2 a h2 hne2, hcase]

theorem unquoteBody_cons (c : Char) (r : Str) (hc : c ≠ '\\') :
    unquoteBody (c :: r) = if validQDText c then (unquoteBody r).map (c :: ·) else none := by
  rw [unquoteBody]
  · intro h _; exact hc h
  · intro c' r' h _; exact hc h

theorem unquoteBody_plain (s : Str) (h : ∀ c ∈ s, validQDText c = true ∧ c ≠ '\\') : unquoteBody s = some s := by
  induction s with
  | nil => rfl
  | cons c cs ih =>
    have hc := h c List.mem_cons_self
    rw [unquoteBody_cons c cs hc.2, ih (fun x hx => h x (List.mem_cons_of_mem _ hx))]
    simp [hc.1]

theorem digit_is_qdtext (c : Char) (h : isDigit c = true) : validQDText c = true ∧ c ≠ '\\' := by
  unfold isDigit at h
  simp only [Bool.and_eq_true, decide_eq_true_eq, char_le_iff] at h
  have e0 : ('0' : Char).toNat = 48 := rfl
  have e9 : ('9' : Char).toNat = 57 := rfl
  rw [e0, e9] at h
  constructor
  · unfold validQDText
    simp only [Bool.or_eq_true, decide_eq_true_eq, Bool.and_eq_true]
    omega
  · intro hc; rw [hc] at h; have : ('\\' : Char).toNat = 92 := rfl; omega

/-- a delta-seconds argument given as a quoted-string is read like the token form -/
theorem quoted_delta_seconds (ds : Str) (hd : ds.all isDigit = true) :
    deltaSeconds ('"' :: ds ++ ['"']) = deltaSeconds ds := by
  have hq : parseQuotedStringE ('"' :: ds ++ ['"']) = some ds := by
    have hrev : (ds ++ ['"']).reverse = '"' :: ds.reverse := by simp
    show (match (ds ++ ['"']).reverse with
      | '"' :: mid => unquoteBody mid.reverse
      | _ => none) = some ds
    rw [hrev]
    simp only [List.reverse_reverse]
    exact unquoteBody_plain ds (fun c hc => digit_is_qdtext c (List.all_eq_true.mp hd c hc))
  have hplain : parseQuotedStringE ds = none ∨ ds = ds := Or.inr rfl
  unfold deltaSeconds parseQuotedString
  rw [hq]
  simp only [Option.getD_some]
  -- the token form is not a quoted-string (it does not start with a quote)
  cases ds with
  | nil => simp [parseQuotedStringE]
  | cons c cs =>
    have hc : c ≠ '"' := by
      intro h'
      have := List.all_eq_true.mp hd c List.mem_cons_self
      rw [h'] at this; simp [isDigit] at this
    have : parseQuotedStringE (c :: cs) = none := by
      unfold parseQuotedStringE
      split
      · rename_i heq; cases heq; exact absurd rfl hc
      · rfl
    rw [this]; rfl


theorem alookup_ainsert {β} (k k' : Str) (v : β) (m : List (Str × β)) :
    alookup k (ainsert k' v m) = if k' = k then some v else alookup k m := by
  induction m with
  | nil => simp [ainsert, alookup]
  | cons p ps ih =>
    unfold ainsert
    by_cases hp : p.1 = k'
    · simp only [hp, ↓reduceIte, alookup]
      by_cases hk : k' = k
      · simp [hk]
      · simp [hk]
    · simp only [hp, ↓reduceIte, alookup, ih]
      by_cases hpk : p.1 = k
      · have : ¬ k' = k := fun h' => hp (hpk.trans h'.symm)
        simp [hpk, this]
      · simp [hpk]

def insertAll (m0 : Directives) (pairs : List (Str × Str)) : Directives :=
  pairs.foldl (fun m p => ainsert p.1 p.2 m) m0

def dInsertAll (m0 : Directives) (pairs : List (Str × Str)) : Directives :=
  pairs.foldl (fun m p => directiveInsert m p.1 p.2) m0

theorem parseDirectivesInto_pairs (s : Str) (m0 : Directives) :
    parseDirectivesInto m0 s = dInsertAll m0 ((trimmedCSV s).filterMap directiveOfPart) := by
  unfold parseDirectivesInto dInsertAll
  generalize trimmedCSV s = parts
  induction parts generalizing m0 with
  | nil => rfl
  | cons p ps ih =>
    simp only [List.foldl_cons, List.filterMap_cons]
    cases hd : directiveOfPart p with
    | none => exact ih m0
    | some kv => simp only [List.foldl_cons]; exact ih _

theorem parseDirectives_pairs (s : Str) :
    parseDirectives s = dInsertAll [] ((trimmedCSV s).filterMap directiveOfPart) :=
  parseDirectivesInto_pairs s []

theorem dInsertAll_append (m0 : Directives) (a b : List (Str × Str)) :
    dInsertAll m0 (a ++ b) = dInsertAll (dInsertAll m0 a) b := by
  unfold dInsertAll; rw [List.foldl_append]

/-- the field lines of a message, each split on its own: the insertion, in order, of the directives of
    all lines -/
theorem parseLines_pairs (lines : List Str) (m0 : Directives) :
    lines.foldl parseDirectivesInto m0 =
      dInsertAll m0 (lines.flatMap fun l => (trimmedCSV l).filterMap directiveOfPart) := by
  induction lines generalizing m0 with
  | nil => rfl
  | cons l ls ih =>
    simp only [List.foldl_cons, List.flatMap_cons]
    rw [ih, parseDirectivesInto_pairs, dInsertAll_append]

/-- with distinct names the special rule for duplicate no-cache never fires -/
theorem dInsertAll_eq_insertAll (pairs : List (Str × Str)) : ∀ (m0 : Directives),
    (∀ p ∈ pairs, alookup p.1 m0 = none) → (pairs.map (·.1)).Nodup → dInsertAll m0 pairs = insertAll m0 pairs := by
  induction pairs with
  | nil => intro m0 _ _; rfl
  | cons p ps ih =>
    intro m0 hnone hnd
    unfold dInsertAll insertAll
    simp only [List.foldl_cons]
    have hp := hnone p List.mem_cons_self
    have hstep : directiveInsert m0 p.1 p.2 = ainsert p.1 p.2 m0 := by unfold directiveInsert; simp [hp]
    rw [hstep]
    simp only [List.map_cons, List.nodup_cons] at hnd
    apply ih
    · intro q hq
      rw [alookup_ainsert]
      have : p.1 ≠ q.1 := fun h' => hnd.1 (by rw [h']; exact List.mem_map.mpr ⟨q, hq, rfl⟩)
      simp [this, hnone q (List.mem_cons_of_mem _ hq)]
    · exact hnd.2

/-- lookups after a sequence of insertions with distinct names: the value inserted for the name -/
theorem alookup_insertAll (pairs : List (Str × Str)) (hnd : (pairs.map (·.1)).Nodup) (k : Str) : ∀ (m0 : Directives),
    alookup k (insertAll m0 pairs) = match pairs.find? (fun p => p.1 = k) with
      | some p => some p.2
      | none => alookup k m0 := by
  induction pairs with
  | nil => intro m0; rfl
  | cons p ps ih =>
    intro m0
    unfold insertAll
    simp only [List.foldl_cons]
    simp only [List.map_cons, List.nodup_cons] at hnd
    have := ih hnd.2 (ainsert p.1 p.2 m0)
    unfold insertAll at this
    rw [this, List.find?_cons]
    by_cases hpk : p.1 = k
    · -- no later pair has this name
      have hnone : ps.find? (fun q => q.1 = k) = none := by
        rw [List.find?_eq_none]
        intro q hq hqk
        simp only [decide_eq_true_eq] at hqk
        exact hnd.1 (by rw [hpk, ← hqk]; exact List.mem_map.mpr ⟨q, hq, rfl⟩)
      simp [hnone, hpk, alookup_ainsert]
    · simp only [hpk, decide_false]
      cases hf : ps.find? (fun q => q.1 = k) with
      | some q => rfl
      | none => simp [alookup_ainsert, hpk]

theorem find_perm (l1 l2 : List (Str × Str)) (hp : l1.Perm l2) (hnd : (l1.map (·.1)).Nodup) (k : Str) :
    l1.find? (fun p => p.1 = k) = l2.find? (fun p => p.1 = k) := by
  have hnd2 : (l2.map (·.1)).Nodup := (hp.map (·.1)).nodup_iff.mp hnd
  have uniq : ∀ (l : List (Str × Str)), (l.map (·.1)).Nodup → ∀ p ∈ l, p.1 = k → l.find? (fun q => q.1 = k) = some p := by
    intro l
    induction l with
    | nil => intro _ p hp; cases hp
    | cons q qs ih =>
      intro hn p hp hk
      simp only [List.map_cons, List.nodup_cons] at hn
      rw [List.find?_cons]
      by_cases hq : q.1 = k
      · simp only [hq, decide_true]
        simp only [List.mem_cons] at hp
        rcases hp with hp | hp
        · rw [hp]
        · exfalso; exact hn.1 (by rw [hq, ← hk]; exact List.mem_map.mpr ⟨p, hp, rfl⟩)
      · simp only [hq, decide_false]
        simp only [List.mem_cons] at hp
        rcases hp with hp | hp
        · rw [hp] at hk; exact absurd hk hq
        · exact ih hn.2 p hp hk
  cases h1 : l1.find? (fun p => p.1 = k) with
  | some p =>
    have hm := List.mem_of_find?_eq_some h1
    have hk : p.1 = k := by simpa using List.find?_some h1
    rw [uniq l2 hnd2 p (hp.mem_iff.mp hm) hk]
  | none =>
    symm
    rw [List.find?_eq_none] at h1 ⊢
    intro q hq
    exact h1 q (hp.mem_iff.mpr hq)

/-- C12 (order): for directives with distinct names, every lookup is independent of the order in
    which they are written -/
theorem lookup_order_independent (l1 l2 : List (Str × Str)) (hp : l1.Perm l2) (hnd : (l1.map (·.1)).Nodup) (k : Str) :
    alookup k (dInsertAll [] l1) = alookup k (dInsertAll [] l2) := by
  have hnd2 : (l2.map (·.1)).Nodup := (hp.map (·.1)).nodup_iff.mp hnd
  rw [dInsertAll_eq_insertAll l1 [] (fun _ _ => rfl) hnd, dInsertAll_eq_insertAll l2 [] (fun _ _ => rfl) hnd2,
      alookup_insertAll l1 hnd k [], alookup_insertAll l2 hnd2 k [], find_perm l1 l2 hp hnd k]


/-! ### list elements with quoting syntax -/

/-- the quoting state machine of TrimmedCSVSeq on one list element: `none` = an unquoted comma was met -/
def qscan (q : Bool × Bool) (c : Char) : Option (Bool × Bool) :=
  if q.2 then some (q.1, false)
  else if c = '\\' && q.1 then some (q.1, true)
  else if c = '"' then some (!q.1, false)
  else if c = ',' && !q.1 then none
  else some (q.1, false)

def qscanAll : Bool × Bool → Str → Option (Bool × Bool)
  | q, [] => some q
  | q, c :: r => match qscan q c with
    | none => none
    | some q' => qscanAll q' r

/-- a list element in the sense of RFC 9110 §5.6.1: every quoted-string in it is closed, no quoted-pair
    is cut off, and commas occur only inside quoted-strings (a backslash escapes only inside one) -/
def closedElem (e : Str) : Bool := qscanAll (false, false) e = some (false, false)

theorem csvRun_closed : ∀ (e : Str) (q q' : Bool × Bool), qscanAll q e = some q' →
    ∀ (st : CsvSt), st.inQuotes = q.1 → st.escape = q.2 →
    csvRun st e = { st with part := e.reverse ++ st.part, inQuotes := q'.1, escape := q'.2 } := by
  intro e
  induction e with
  | nil =>
    intro q q' h st hq he
    simp only [qscanAll, Option.some.injEq] at h
    subst h
    cases st; simp_all [csvRun]
  | cons c cs ih =>
    intro q q' h st hq he
    simp only [qscanAll] at h
    cases hs : qscan q c with
    | none => rw [hs] at h; cases h
    | some q1 =>
      rw [hs] at h
      have hstep : csvStep st c = { st with part := c :: st.part, inQuotes := q1.1, escape := q1.2 } := by
        unfold qscan at hs
        unfold csvStep
        rw [he, hq]
        by_cases h1 : q.2 = true
        · simp only [h1, ↓reduceIte, Option.some.injEq] at hs ⊢; subst hs; rfl
        · simp only [h1, Bool.false_eq_true, ↓reduceIte] at hs ⊢
          by_cases h2 : (decide (c = '\\') && q.1) = true
          · simp only [h2, ↓reduceIte, Option.some.injEq] at hs ⊢; subst hs
            cases st; simp_all
          · simp only [h2, Bool.false_eq_true, ↓reduceIte] at hs ⊢
            by_cases h3 : c = '"'
            · simp only [h3, ↓reduceIte, Option.some.injEq] at hs ⊢; subst hs
              cases st; simp_all
            · simp only [h3, ↓reduceIte] at hs ⊢
              by_cases h4 : (decide (c = ',') && !q.1) = true
              · simp [h4] at hs
              · simp only [h4, Bool.false_eq_true, ↓reduceIte, Option.some.injEq] at hs ⊢; subst hs
                cases st; simp_all
      unfold csvRun
      simp only [List.foldl_cons, hstep]
      have := ih q1 q' h { st with part := c :: st.part, inQuotes := q1.1, escape := q1.2 } rfl rfl
      unfold csvRun at this
      rw [this]
      simp

theorem plain_closed_aux (e : Str) (he : e.all plainChar = true) : qscanAll (false, false) e = some (false, false) := by
  induction e with
  | nil => rfl
  | cons c cs ih =>
    simp only [List.all_cons, Bool.and_eq_true] at he
    have hc := he.1
    unfold plainChar at hc
    simp only [Bool.and_eq_true, decide_eq_true_eq] at hc
    obtain ⟨⟨h1, h2⟩, h3⟩ := hc
    simp [qscanAll, qscan, h1, h2, h3, ih he.2]

theorem plain_closed (e : Str) (he : e.all plainChar = true) : closedElem e = true := by
  unfold closedElem; simp [plain_closed_aux e he]

theorem csv_join_closed (elems : List Str) (hp : ∀ e ∈ elems, closedElem e = true) : ∀ (o : List Str),
    csvFinish (csvRun { part := [], inQuotes := false, escape := false, out := o } (joinWith [','] elems)) =
      o.reverse ++ (elems.map trimString).filter (fun p => !p.isEmpty) := by
  induction elems with
  | nil => intro o; simp [joinWith, csvRun, csvFinish]
  | cons e rest ih =>
    intro o
    have he : qscanAll (false, false) e = some (false, false) := by
      have := hp e List.mem_cons_self
      unfold closedElem at this; simpa using this
    cases rest with
    | nil =>
      simp only [joinWith]
      rw [csvRun_closed e _ _ he _ rfl rfl]
      unfold csvFinish
      simp only [List.append_nil]
      by_cases hemp : e = []
      · subst hemp; simp [trimString, trimBoth, trimLeft]
      · have : e.reverse.isEmpty = false := by simpa using hemp
        simp only [this, Bool.false_eq_true, ↓reduceIte, csvEmit, List.reverse_reverse]
        by_cases ht : (trimString e).isEmpty = true
        · simp [ht]
        · simp [ht]
    | cons e2 rest2 =>
      simp only [joinWith]
      have hrun : csvRun { part := [], inQuotes := false, escape := false, out := o } (e ++ [','] ++ joinWith [','] (e2 :: rest2)) =
          csvRun (csvEmit { part := e.reverse, inQuotes := false, escape := false, out := o }) (joinWith [','] (e2 :: rest2)) := by
        unfold csvRun
        rw [List.foldl_append, List.foldl_append]
        have h1 := csvRun_closed e _ _ he { part := [], inQuotes := false, escape := false, out := o } rfl rfl
        unfold csvRun at h1
        rw [h1]
        simp only [List.append_nil, List.foldl_cons, List.foldl_nil]
        congr 1
      rw [hrun]
      have hemit : csvEmit { part := e.reverse, inQuotes := false, escape := false, out := o } =
          { part := [], inQuotes := false, escape := false, out := if (trimString e).isEmpty then o else trimString e :: o } := by
        simp [csvEmit]
      rw [hemit]
      rw [ih (fun x hx => hp x (List.mem_cons_of_mem _ hx))]
      by_cases ht : (trimString e).isEmpty = true
      · simp [ht]
      · simp [ht]

/-- C12 (list syntax, with quoting): for EVERY list of well-formed elements — quoted-strings with
    commas, escaped quotes and escaped backslashes included — written with arbitrary optional white
    space and empty elements, the tokenizer yields exactly the trimmed non-empty elements in order.
    In particular nothing that follows a quoted-string is ever swallowed into it. -/
theorem trimmedCSV_join_closed (elems : List Str) (hp : ∀ e ∈ elems, closedElem e = true) :
    trimmedCSV (joinWith [','] elems) = (elems.map trimString).filter (fun p => !p.isEmpty) := by
  rw [trimmedCSV_eq]
  have := csv_join_closed elems hp []
  simpa using this


theorem unquoteBody_escape (s : Str) :
    unquoteBody (s.flatMap fun c => if validQDText c then [c] else ['\\', c]) = some s := by
  induction s with
  | nil => rfl
  | cons c r ih =>
    simp only [List.flatMap_cons]
    by_cases hv : validQDText c = true
    · simp only [hv, ↓reduceIte, List.singleton_append]
      have hc : c ≠ '\\' := by intro h; subst h; revert hv; decide
      rw [unquoteBody]
      · simp [hv, ih]
      · intro h _; exact hc h
      · intro c' r' h _; exact hc h
    · simp only [hv, Bool.false_eq_true, ↓reduceIte, List.cons_append, List.nil_append]
      rw [unquoteBody, ih]; rfl

theorem parseQuotedString_quoteString (s : Str) : parseQuotedString (quoteString s) = s := by
  unfold parseQuotedString parseQuotedStringE quoteString
  generalize hb : (s.flatMap fun c => if validQDText c then [c] else ['\\', c]) = body
  have hr : (body ++ ['"']).reverse = '"' :: body.reverse := by simp
  show (match (body ++ ['"']).reverse with
        | '"' :: mid => unquoteBody mid.reverse
        | _ => none).getD _ = s
  rw [hr]
  simp only [List.reverse_reverse]
  rw [← hb, unquoteBody_escape]; rfl

/-! ### lists of field names (Vary, the argument of a qualified no-cache): split at EVERY comma -/

theorem splitOnComma_comma (a b cur : Str) :
    splitOnComma (a ++ ',' :: b) cur = splitOnComma a cur ++ splitOnComma b [] := by
  induction a generalizing cur with
  | nil => simp [splitOnComma]
  | cons c a ih =>
    by_cases hc : c = ','
    · subst hc; simp [splitOnComma, ih]
    · have h1 : ∀ r cur, splitOnComma (c :: r) cur = splitOnComma r (c :: cur) := by
        intro r cur; rw [splitOnComma]; exact fun h => absurd h hc
      simp [h1, ih]

/-- the names of `a , b` are the names of `a` followed by the names of `b`, whatever bytes they hold -/
theorem fieldNames_comma (a b : Str) : fieldNames (a ++ ',' :: b) = fieldNames a ++ fieldNames b := by
  simp [fieldNames, splitOnComma_comma]

/-- two qualified no-cache directives: the directive map afterwards names the fields of BOTH lists — exactly the
    names of the first list followed by the names of the second, whatever bytes (quotes, backslashes) either holds -/
theorem two_qualified_lists (m : Directives) (prev v : Str) (hp : alookup sNoCache m = some prev)
    (hq1 : (parseQuotedString prev).isEmpty = false) (hq2 : (parseQuotedString v).isEmpty = false) :
    (directiveInsert m sNoCache v).respNoCache =
      some (some (fieldNames (parseQuotedString prev) ++ fieldNames (parseQuotedString v))) := by
  unfold directiveInsert Directives.respNoCache
  simp only [hp, ↓reduceIte, hq1, hq2, Bool.false_eq_true]
  have : alookup (str% "no-cache") (ainsert sNoCache (quoteString (parseQuotedString prev ++ [','] ++ parseQuotedString v)) m) =
      some (quoteString (parseQuotedString prev ++ [','] ++ parseQuotedString v)) := by
    rw [show (str% "no-cache") = sNoCache from rfl, alookup_ainsert]; simp
  rw [this]
  simp only [parseQuotedString_quoteString]
  have hne : (parseQuotedString prev ++ [','] ++ parseQuotedString v).isEmpty = false := by
    cases hx : parseQuotedString prev with
    | nil => rw [hx] at hq1; cases hq1
    | cons a b => rfl
  simp [fieldNames_comma]

end Httpcache
