import Httpcache.Proofs.Store
/- What an invalidation deletes — and what it does not (cross-origin references). -/
namespace Httpcache

theorem delOnce_only (deleted : List Str) (k : Str) (cont : List Str → Prog) (tr : List Step) (r : Result)
    (h : Run (delOnce deleted k cont) tr r) :
    ∃ tr1 tr2 d, tr = tr1 ++ tr2 ∧ Run (cont d) tr2 r ∧ ∀ s ∈ tr1, s = Step.delete k := by
  unfold delOnce at h
  split at h
  · exact ⟨[], tr, deleted, rfl, h, fun s hs => by cases hs⟩
  · cases h with
    | delete h1 => exact ⟨[Step.delete k], _, k :: deleted, rfl, h1, fun s hs => by simpa using hs⟩

theorem delMany_only (ks : List Str) : ∀ (deleted : List Str) (cont : List Str → Prog) (tr : List Step) (r : Result),
    Run (delMany deleted ks cont) tr r →
    ∃ tr1 tr2 d, tr = tr1 ++ tr2 ∧ Run (cont d) tr2 r ∧ ∀ s ∈ tr1, ∃ k ∈ ks, s = Step.delete k := by
  induction ks with
  | nil =>
    intro deleted cont tr r h
    exact ⟨[], tr, deleted, rfl, h, fun s hs => by cases hs⟩
  | cons k ks ih =>
    intro deleted cont tr r h
    unfold delMany at h
    obtain ⟨a1, a2, d1, ha, hrun1, ho1⟩ := delOnce_only _ _ _ _ _ h
    obtain ⟨b1, b2, d2, hb, hrun2, ho2⟩ := ih _ _ _ _ hrun1
    refine ⟨a1 ++ b1, b2, d2, by rw [ha, hb, List.append_assoc], hrun2, ?_⟩
    intro s hs
    rcases List.mem_append.mp hs with hs | hs
    · exact ⟨k, List.mem_cons_self, ho1 s hs⟩
    · obtain ⟨k', hk', e⟩ := ho2 s hs
      exact ⟨k', List.mem_cons_of_mem _ hk', e⟩

/-- a Location-like field that is absent, does not resolve, or names ANOTHER origin -/
def NotSameOrigin (cfg : Cfg) (req : Req) (respH : Header) (hdr : Str) : Prop :=
  (Header.get respH hdr).isEmpty = true ∨ cfg.loc hdr = none ∨
  ∃ g, cfg.loc hdr = some g ∧ sameOrigin req.scheme req.host (resolveLoc req g).scheme (resolveLoc req g).host = false

theorem invalidateLocation_cross (cfg : Cfg) (req : Req) (respH : Header) (hdr : Str) (deleted : List Str)
    (cont : List Str → Prog) (tr : List Step) (r : Result) (hn : NotSameOrigin cfg req respH hdr)
    (h : Run (invalidateLocation cfg req respH hdr deleted cont) tr r) : Run (cont deleted) tr r := by
  unfold invalidateLocation at h
  rcases hn with hn | hn | ⟨g, hg, hs⟩
  · simpa [hn] using h
  · split at h
    · exact h
    · simpa [hn] using h
  · split at h
    · exact h
    · simp only [hg, hs, Bool.false_eq_true, ↓reduceIte] at h
      exact h

/-- C07, last clause: when neither Location nor Content-Location names a same-origin URI, the
    invalidation deletes the target's index key and the ids of the references it was given, and
    NOTHING ELSE: a response cannot evict another origin's entries -/
theorem invalidateCache_only_target (cfg : Cfg) (req : Req) (respH : Header) (refs : List Ref) (key : Str) (k : Prog)
    (tr : List Step) (r : Result)
    (hL : NotSameOrigin cfg req respH sLocation) (hC : NotSameOrigin cfg req respH sContentLocation)
    (h : Run (invalidateCache cfg req respH refs key k) tr r) :
    ∃ tr1 tr2, tr = tr1 ++ tr2 ∧ Run k tr2 r ∧
      ∀ s ∈ tr1, s = Step.delete key ∨ ∃ ref ∈ refs, s = Step.delete ref.id := by
  unfold invalidateCache at h
  obtain ⟨a1, a2, d1, ha, h1, o1⟩ := delMany_only _ _ _ _ _ h
  have h2 := invalidateLocation_cross _ _ _ _ _ _ _ _ hL h1
  have h3 := invalidateLocation_cross _ _ _ _ _ _ _ _ hC h2
  obtain ⟨e1, e2, d4, he, h4, o4⟩ := delOnce_only _ _ _ _ _ h3
  refine ⟨a1 ++ e1, e2, by rw [ha, he, List.append_assoc], h4, ?_⟩
  intro s hs
  rcases List.mem_append.mp hs with hs | hs
  · obtain ⟨x, hx, e⟩ := o1 s hs
    obtain ⟨ref, href, rfl⟩ := List.mem_map.mp hx
    exact Or.inr ⟨ref, href, e⟩
  · exact Or.inl (o4 s hs)

/-- and a same-origin Location / Content-Location IS invalidated: its index is read and its key and
    the id of every reference returned for it are deleted -/
theorem invalidateLocation_same (cfg : Cfg) (req : Req) (respH : Header) (hdr : Str) (deleted : List Str)
    (cont : List Str → Prog) (tr : List Step) (r : Result) (g : LocGlue)
    (hne : (Header.get respH hdr).isEmpty = false) (hg : cfg.loc hdr = some g)
    (hs : sameOrigin req.scheme req.host (resolveLoc req g).scheme (resolveLoc req g).host = true)
    (h : Run (invalidateLocation cfg req respH hdr deleted cont) tr r) :
    ∃ a tr', tr = Step.getRefs (resolveLoc req g).key a :: tr' ∧
      ∃ tr1 tr2 d, tr' = tr1 ++ tr2 ∧ Run (cont d) tr2 r ∧
        (resolveLoc req g).key ∈ d ∧ (∀ ref ∈ a.getD [], ref.id ∈ d) ∧
        (∀ x ∈ d, x ∈ deleted ∨ Step.delete x ∈ tr1) := by
  unfold invalidateLocation at h
  simp only [hne, Bool.false_eq_true, ↓reduceIte, hg, hs] at h
  cases h with
  | getRefs a h1 =>
    obtain ⟨a1, a2, d1, ha, hrun1, hacc1, hk1⟩ := delMany_acc _ _ _ _ _ h1
    obtain ⟨b1, b2, d2, hb, hrun2, hacc2, hk2⟩ := delOnce_acc _ _ _ _ _ hrun1
    refine ⟨a, _, rfl, a1 ++ b1, b2, d2, by rw [ha, hb, List.append_assoc], hrun2, hk2, ?_, ?_⟩
    · intro ref href
      exact hacc2.1 _ (hk1 ref.id (List.mem_map.mpr ⟨ref, href, rfl⟩))
    · exact (accounts_trans hacc1 hacc2).2

/-- the whole exchange: an unsafe request whose reply names no same-origin Location / Content-Location
    deletes the key of its own URL and the ids of the references the store returned for it — nothing
    that belongs to another URL, let alone another origin -/
theorem unsafe_exchange_deletes_only_target (cfg : Cfg) (t0 : Int) (req : Req) (tr : List Step) (r : Result)
    (hu : isRequestMethodUnderstood req = false) (h : Run (roundTrip cfg t0 req) tr r) :
    ∀ x, Step.delete x ∈ tr →
      ∃ ans tr1, tr = Step.origin req.method req.header none ans :: tr1 ∧
        ∀ rr t1 b, ans = .resp rr t1 b →
          NotSameOrigin cfg req rr.header sLocation → NotSameOrigin cfg req rr.header sContentLocation →
          x = makeURLKey req ∨ ∃ refs, Step.getRefs (makeURLKey req) refs ∈ tr1 ∧ ∃ ref ∈ refs.getD [], x = ref.id := by
  intro x hx
  unfold roundTrip at h
  simp only [hu, Bool.not_false, ↓reduceIte] at h
  unfold handleUnrecognizedMethod at h
  split at h
  · cases h; cases hx
  · cases h with
    | origin ans h1 =>
      refine ⟨ans, _, rfl, ?_⟩
      intro rr t1 b hans hL hC
      subst hans
      dsimp only at h1
      simp only [List.mem_cons, reduceCtorEq, false_or] at hx
      split at h1
      · cases h1 with
        | getRefs a h2 =>
          obtain ⟨p1, p2, hp, hk, honly⟩ := invalidateCache_only_target cfg req rr.header _ _ _ _ _ hL hC h2
          cases hk
          simp only [List.mem_cons, reduceCtorEq, false_or] at hx
          rw [hp, List.append_nil] at hx
          rcases honly _ hx with e | ⟨ref, href, e⟩
          · left; cases e; rfl
          · right
            refine ⟨a, List.mem_cons_self, ref, href, ?_⟩
            cases e; rfl
      · cases h1; cases hx

end Httpcache
