import Httpcache.Proofs.Url
/-
The primary cache key (internal/urlkeyer.go makeURLKey over the components url.Parse delivers):
 * `key_injective` / `key_complete`: on well-formed http(s) URLs two keys are equal exactly when scheme,
   case-folded host, effective port, normalised path and normalised query are equal;
 * `key_eq_spec`: the key is the RFC 3986 normal form `Spec.urlNorm` which the C03 monitor evaluates on
   the implementation's trace.
-/
namespace Httpcache


theorem split_unique {α} (c : α) : ∀ (a1 a2 r1 r2 : List α), c ∉ a1 → c ∉ a2 → a1 ++ c :: r1 = a2 ++ c :: r2 → a1 = a2 ∧ r1 = r2
  | [], [], _, _, _, _, h => by simpa using h
  | [], y :: a2, _, _, _, h2, h => by
    simp only [List.nil_append, List.cons_append, List.cons.injEq] at h
    exact absurd (h.1 ▸ List.mem_cons_self) h2
  | x :: a1, [], _, _, h1, _, h => by
    simp only [List.nil_append, List.cons_append, List.cons.injEq] at h
    exact absurd (h.1 ▸ List.mem_cons_self) h1
  | x :: a1, y :: a2, r1, r2, h1, h2, h => by
    simp only [List.cons_append, List.cons.injEq] at h
    have := split_unique c a1 a2 r1 r2 (fun hm => h1 (List.mem_cons_of_mem _ hm)) (fun hm => h2 (List.mem_cons_of_mem _ hm)) h.2
    exact ⟨by rw [h.1, this.1], this.2⟩

theorem hexDigitUpper_unres : ∀ n : Fin 16, isUnreserved (hexDigitUpper n.val) = true := by decide

theorem npe_mem_aux : ∀ (n : Nat) (s : Str), s.length ≤ n → ∀ x, x ∈ normalizePercentEncoding s → x ∈ s ∨ isUnreserved x = true := by
  intro n
  induction n with
  | zero => intro s hs; cases s with
    | nil => simp [normalizePercentEncoding]
    | cons c r => simp at hs
  | succ n ih =>
    intro s hs x hx
    match s with
    | [] => simp [normalizePercentEncoding] at hx
    | [c] =>
      by_cases hc : c = '%'
      · subst hc; simp [normalizePercentEncoding] at hx; left; simp [hx]
      · simp [normalizePercentEncoding] at hx; left; simp [hx]
    | [c, a] =>
      have i1 := ih [a] (by simp at hs ⊢; omega) x
      by_cases hc : c = '%'
      · subst hc; simp [normalizePercentEncoding] at hx i1 ⊢; rcases hx with h | h <;> simp [h]
      · simp [normalizePercentEncoding] at hx i1 ⊢; rcases hx with h | h <;> simp [h]
    | c :: a :: b :: r =>
      have i1 := ih (a :: b :: r) (by simp at hs ⊢; omega) x
      have i2 := ih r (by simp at hs ⊢; omega) x
      by_cases hc : c = '%'
      · subst hc
        unfold normalizePercentEncoding at hx
        by_cases hh : (isHexDigit a && isHexDigit b) = true
        · simp only [hh, ↓reduceIte] at hx
          have hv : fromHex a * 16 + fromHex b < 256 := by have := fromHex_lt a; have := fromHex_lt b; omega
          split at hx
          · rename_i hu
            rcases List.mem_cons.mp hx with h | h
            · right; rw [h]; exact hu
            · rcases i2 h with h' | h'
              · left; simp [h']
              · right; exact h'
          · rcases List.mem_cons.mp hx with h | h
            · left; simp [h]
            · rcases List.mem_cons.mp h with h | h
              · right; rw [h]; exact hexDigitUpper_unres ⟨_, by omega⟩
              · rcases List.mem_cons.mp h with h | h
                · right; rw [h]; exact hexDigitUpper_unres ⟨_, by omega⟩
                · rcases i2 h with h' | h'
                  · left; simp [h']
                  · right; exact h'
        · simp only [hh, Bool.false_eq_true, ↓reduceIte] at hx
          rcases List.mem_cons.mp hx with h | h
          · left; simp [h]
          · rcases i1 h with h' | h'
            · left; exact List.mem_cons_of_mem _ h'
            · right; exact h'
      · have e2 : normalizePercentEncoding (c :: a :: b :: r) = c :: normalizePercentEncoding (a :: b :: r) := by
          rw [normalizePercentEncoding]; intro a' b' r' h' _; exact hc h'
        rw [e2] at hx
        rcases List.mem_cons.mp hx with h | h
        · left; simp [h]
        · rcases i1 h with h' | h'
          · left; exact List.mem_cons_of_mem _ h'
          · right; exact h'

theorem npe_mem (s : Str) (x : Char) (hx : x ∈ normalizePercentEncoding s) : x ∈ s ∨ isUnreserved x = true :=
  npe_mem_aux s.length s (Nat.le_refl _) x hx

theorem npe_no_qmark (s : Str) (h : '?' ∉ s) : '?' ∉ normalizePercentEncoding s := by
  intro hm
  rcases npe_mem s _ hm with h' | h'
  · exact h h'
  · revert h'; decide

theorem npe_cons_ne (c : Char) (r : Str) (hc : c ≠ '%') : normalizePercentEncoding (c :: r) = c :: normalizePercentEncoding r := by
  cases r with
  | nil => simp [normalizePercentEncoding]
  | cons a r' =>
    cases r' with
    | nil => rw [normalizePercentEncoding]; intro a' b' r'' h' _; exact hc h'
    | cons b r'' => rw [normalizePercentEncoding]; intro a' b' r''' h' _; exact hc h'

theorem npe_nil_iff (s : Str) : normalizePercentEncoding s = [] ↔ s = [] := by
  constructor
  · intro h
    match s with
    | [] => rfl
    | [c] => by_cases hc : c = '%' <;> simp [normalizePercentEncoding, hc] at h
    | c :: a :: r =>
      by_cases hc : c = '%'
      · subst hc
        cases r with
        | nil => simp [normalizePercentEncoding] at h
        | cons b r' =>
          unfold normalizePercentEncoding at h
          by_cases hh : (isHexDigit a && isHexDigit b) = true
          · simp only [hh, ↓reduceIte] at h
            by_cases hu : isUnreserved (Char.ofNat (fromHex a * 16 + fromHex b)) = true
            · simp [hu] at h
            · simp [hu] at h
          · simp [hh] at h
      · rw [npe_cons_ne _ _ hc] at h; cases h
  · intro h; subst h; simp [normalizePercentEncoding]

theorem splitHostPort_spec (hp h p : Str) (e : splitHostPort hp = (h, p)) :
    p.all isDigit = true ∧ (hp = h ++ ':' :: p ∨ (hp = h ∧ p = [])) := by
  unfold splitHostPort at e
  split at e
  · cases e; exact ⟨rfl, Or.inr ⟨rfl, rfl⟩⟩
  · rename_i i _
    split at e
    · rename_i hv
      cases e
      have ht : (hp.drop i).tail = hp.drop (i + 1) := List.tail_drop
      cases hd : hp.drop i with
      | nil =>
        rw [hd] at ht
        have : hp.take i = hp := by
          have := List.take_append_drop i hp
          rw [hd, List.append_nil] at this; exact this
        rw [← ht, this]
        exact ⟨rfl, Or.inr ⟨rfl, rfl⟩⟩
      | cons c r =>
        rw [hd] at ht hv
        simp only [validOptionalPort, Bool.and_eq_true, decide_eq_true_eq] at hv
        rw [← ht]
        refine ⟨hv.2, Or.inl ?_⟩
        have := List.take_append_drop i hp
        rw [hd, hv.1] at this
        exact this.symm
    · cases e; exact ⟨rfl, Or.inr ⟨rfl, rfl⟩⟩
theorem toNat_ofNat_small (n : Nat) (h : n < 55296) : (Char.ofNat n).toNat = n := by
  have hv : n.isValidChar := Or.inl h
  simp [Char.ofNat, hv, Char.toNat, Char.ofNatAux]

/-- lowerChar never produces or removes one of the delimiter characters (anything below 'a') -/
theorem lowerChar_eq_low (c d : Char) (hd : d.toNat < 97) (h : lowerChar c = d) : c = d := by
  unfold lowerChar at h
  split at h
  · rename_i hu
    unfold isUpper at hu
    simp only [Bool.and_eq_true, decide_eq_true_eq, char_le_iff] at hu
    have eA : ('A' : Char).toNat = 65 := rfl
    have eZ : ('Z' : Char).toNat = 90 := rfl
    rw [eA, eZ] at hu
    have := congrArg Char.toNat h
    rw [toNat_ofNat_small _ (by omega)] at this
    omega
  · exact h

theorem lowerChar_low (d : Char) (hd : d.toNat < 65) : lowerChar d = d := by
  unfold lowerChar isUpper
  have eA : ('A' : Char).toNat = 65 := rfl
  have : ¬ ('A' ≤ d) := by rw [char_le_iff, eA]; omega
  simp [this]

theorem mem_lowerASCII_low (s : Str) (d : Char) (hd : d.toNat < 97) (h : d ∈ lowerASCII s) : d ∈ s := by
  unfold lowerASCII at h
  obtain ⟨c, hc, e⟩ := List.mem_map.mp h
  rw [← lowerChar_eq_low c d hd e]; exact hc

theorem digit_ne_colon (d : Str) (h : d.all isDigit = true) : ':' ∉ d := by
  intro hm
  have := List.all_eq_true.mp h _ hm
  revert this; decide

theorem digit_ne_slash (d : Str) (h : d.all isDigit = true) : '/' ∉ d := by
  intro hm
  have := List.all_eq_true.mp h _ hm
  revert this; decide

def keyHost (host : Str) : Str := lowerASCII (splitHostPort host).1
def effPort (scheme host : Str) : Str :=
  if (splitHostPort host).2.isEmpty then defaultPort scheme else (splitHostPort host).2
/-- the path as it appears in the key: percent-encoding normalised, then dot segments removed, "/" if empty -/
def keyPath (scheme path : Str) : Str :=
  if (removeDotSegments (normalizePercentEncoding path)).isEmpty && (scheme = (str% "http") || scheme = (str% "https")) then ['/']
  else removeDotSegments (normalizePercentEncoding path)
def keyAuthority (scheme host : Str) : Str :=
  if !(effPort scheme host).isEmpty && effPort scheme host ≠ defaultPort scheme then keyHost host ++ [':'] ++ effPort scheme host
  else keyHost host

theorem key_form (s h p q : Str) :
    makeURLKeyOf s h p q [] = s ++ ((str% "://") ++ (keyAuthority s h ++ (keyPath s (rootedPath h p) ++
      (if q.isEmpty then [] else '?' :: normalizePercentEncoding q)))) := by
  unfold makeURLKeyOf keyAuthority effPort keyHost keyPath
  rcases hsp : splitHostPort h with ⟨h', p0⟩
  simp only [List.isEmpty_nil, Bool.not_true, Bool.false_eq_true, ↓reduceIte]
  by_cases hq : q.isEmpty = true <;> simp [hq, List.append_assoc]


/-- a string ending in ':' followed by digits splits there in one way only -/
theorem split_unique_last (a1 a2 d1 d2 : Str) (h1 : d1.all isDigit = true) (h2 : d2.all isDigit = true)
    (e : a1 ++ ':' :: d1 = a2 ++ ':' :: d2) : a1 = a2 ∧ d1 = d2 := by
  rcases List.append_eq_append_iff.mp e with ⟨x, hx, hy⟩ | ⟨x, hx, hy⟩
  · cases x with
    | nil => simp at hx hy; exact ⟨hx.symm, hy⟩
    | cons c x' =>
      simp only [List.cons_append, List.cons.injEq] at hy
      have : ':' ∈ d1 := by rw [hy.2]; simp
      exact absurd this (digit_ne_colon _ h1)
  · cases x with
    | nil => simp at hx hy; exact ⟨hx, hy.symm⟩
    | cons c x' =>
      simp only [List.cons_append, List.cons.injEq] at hy
      have : ':' ∈ d2 := by rw [hy.2]; simp
      exact absurd this (digit_ne_colon _ h2)

/-- the host part carries no port suffix of its own (true of every RFC 3986 host: a reg-name has no
    ':' and an IP literal ends with ']') -/
def NoPortSuffix (x : Str) : Prop := ∀ a d, x = a ++ ':' :: d → d.all isDigit = false

structure WFUrl (s h p q : Str) : Prop where
  scheme : s = (str% "http") ∨ s = (str% "https")
  hostNoSlash : '/' ∉ h
  /-- the path is rooted, or there is a host to root it under (then the key writes the slash) -/
  pathAbs : h ≠ [] ∨ p = [] ∨ ∃ r, p = '/' :: r
  pathNoQ : '?' ∉ p
  hostNoPort : NoPortSuffix (keyHost h)

theorem effPort_digits (s h : Str) (hs : s = (str% "http") ∨ s = (str% "https")) :
    (effPort s h).all isDigit = true ∧ effPort s h ≠ [] := by
  unfold effPort
  rcases hsp : splitHostPort h with ⟨h', p0⟩
  have := (splitHostPort_spec h h' p0 hsp).1
  simp only
  by_cases hp : p0.isEmpty = true
  · simp only [hp, ↓reduceIte]
    rcases hs with hs | hs <;> subst hs <;> exact ⟨by decide, by decide⟩
  · simp only [hp, Bool.false_eq_true, ↓reduceIte]
    exact ⟨this, by intro h0; apply hp; simp [h0]⟩

theorem keyAuthority_no_slash (s h : Str) (hs : s = (str% "http") ∨ s = (str% "https")) (hh : '/' ∉ h) :
    '/' ∉ keyAuthority s h := by
  have hd := (effPort_digits s h hs).1
  have hk : '/' ∉ keyHost h := by
    intro hm
    unfold keyHost at hm
    have hm' := mem_lowerASCII_low _ '/' (by decide) hm
    rcases hsp : splitHostPort h with ⟨h', p0⟩
    rw [hsp] at hm'
    rcases (splitHostPort_spec h h' p0 hsp).2 with e | ⟨e, _⟩
    · apply hh; rw [e]; exact List.mem_append_left _ hm'
    · apply hh; rw [e]; exact hm'
  unfold keyAuthority
  split
  · intro hm
    simp only [List.mem_append, List.mem_singleton] at hm
    rcases hm with (hm | hm) | hm
    · exact hk hm
    · revert hm; decide
    · exact digit_ne_slash _ hd hm
  · exact hk

theorem splitSlash_go_mem : ∀ (s cur seg : Str), seg ∈ splitSlash.go cur s → ∀ c ∈ seg, c ∈ cur ∨ c ∈ s
  | [], cur, seg, h, c, hc => by
    simp only [splitSlash.go, List.mem_singleton] at h
    subst h; left; simpa using hc
  | x :: r, cur, seg, h, c, hc => by
    simp only [splitSlash.go] at h
    split at h
    · rcases List.mem_cons.mp h with h | h
      · subst h; left; simpa using hc
      · rcases splitSlash_go_mem r [] seg h c hc with h' | h'
        · cases h'
        · right; exact List.mem_cons_of_mem _ h'
    · rcases splitSlash_go_mem r (x :: cur) seg h c hc with h' | h'
      · rcases List.mem_cons.mp h' with h' | h'
        · right; subst h'; exact List.mem_cons_self
        · left; exact h'
      · right; exact List.mem_cons_of_mem _ h'

theorem dotLoop_mem : ∀ (segs out : List Str) (seg : Str), seg ∈ dotLoop out segs → seg ∈ out ∨ seg ∈ segs ∨ seg = []
  | [], out, seg, h => by simp only [dotLoop] at h; exact Or.inl h
  | [x], out, seg, h => by
    simp only [dotLoop] at h
    split at h
    · rcases List.mem_append.mp h with h | h
      · exact Or.inl h
      · right; right; simpa using h
    · split at h
      · rcases List.mem_append.mp h with h | h
        · exact Or.inl (List.dropLast_subset _ h)
        · right; right; simpa using h
      · rcases List.mem_append.mp h with h | h
        · exact Or.inl h
        · right; left; simpa using h
  | x :: y :: rest, out, seg, h => by
    simp only [dotLoop] at h
    split at h
    · rcases dotLoop_mem (y :: rest) out seg h with h | h | h
      · exact Or.inl h
      · exact Or.inr (Or.inl (List.mem_cons_of_mem _ h))
      · exact Or.inr (Or.inr h)
    · split at h
      · rcases dotLoop_mem (y :: rest) _ seg h with h | h | h
        · exact Or.inl (List.dropLast_subset _ h)
        · exact Or.inr (Or.inl (List.mem_cons_of_mem _ h))
        · exact Or.inr (Or.inr h)
      · rcases dotLoop_mem (y :: rest) _ seg h with h | h | h
        · rcases List.mem_append.mp h with h | h
          · exact Or.inl h
          · right; left; rw [List.mem_singleton.mp h]; exact List.mem_cons_self
        · exact Or.inr (Or.inl (List.mem_cons_of_mem _ h))
        · exact Or.inr (Or.inr h)

theorem joinWith_mem (sep : Str) : ∀ (l : List Str) (c : Char), c ∈ joinWith sep l → c ∈ sep ∨ ∃ seg ∈ l, c ∈ seg
  | [], c, h => by cases h
  | [x], c, h => Or.inr ⟨x, List.mem_singleton.mpr rfl, h⟩
  | x :: y :: r, c, h => by
    simp only [joinWith, List.mem_append] at h
    rcases h with (h | h) | h
    · exact Or.inr ⟨x, List.mem_cons_self, h⟩
    · exact Or.inl h
    · rcases joinWith_mem sep (y :: r) c h with h | ⟨seg, hs, hc⟩
      · exact Or.inl h
      · exact Or.inr ⟨seg, List.mem_cons_of_mem _ hs, hc⟩

/-- removing dot segments neither removes the leading "/" nor introduces a character -/
theorem removeDotSegments_form (r : Str) (hq : '?' ∉ r) :
    ∃ r', removeDotSegments ('/' :: r) = '/' :: r' ∧ '?' ∉ r' := by
  refine ⟨_, rfl, ?_⟩
  intro hm
  rcases joinWith_mem _ _ _ hm with h | ⟨seg, hs, hc⟩
  · revert h; decide
  · rcases dotLoop_mem _ _ _ hs with h | h | h
    · cases h
    · rcases splitSlash_go_mem _ _ _ h _ hc with h' | h'
      · cases h'
      · exact hq h'
    · subst h; cases hc

theorem rootedPath_form (h p : Str) (hw : h ≠ [] ∨ p = [] ∨ ∃ r, p = '/' :: r) :
    rootedPath h p = [] ∨ ∃ r, rootedPath h p = '/' :: r := by
  unfold rootedPath
  cases h with
  | nil =>
    rcases hw with hw | hw | ⟨r, hw⟩
    · exact absurd rfl hw
    · subst hw; exact Or.inl rfl
    · subst hw; exact Or.inr ⟨r, rfl⟩
  | cons a t =>
    cases p with
    | nil => exact Or.inl rfl
    | cons c r =>
      simp only
      by_cases hc : c = '/'
      · subst hc; simp
      · simp [hc]

theorem rootedPath_no_qmark (h p : Str) (hq : '?' ∉ p) : '?' ∉ rootedPath h p := by
  unfold rootedPath
  cases h with
  | nil => exact hq
  | cons a t =>
    cases p with
    | nil => exact hq
    | cons c r =>
      simp only
      by_cases hc : c = '/'
      · simp only [hc, ↓reduceIte]; rw [← hc]; exact hq
      · simp only [hc, ↓reduceIte]
        intro hm
        rcases List.mem_cons.mp hm with e | e
        · revert e; decide
        · exact hq e

theorem keyPath_form (s h p q : Str) (w : WFUrl s h p q) : ∃ r, keyPath s (rootedPath h p) = '/' :: r ∧ '?' ∉ r := by
  have hnq := rootedPath_no_qmark h p w.pathNoQ
  rcases rootedPath_form h p w.pathAbs with hp | ⟨r, hp⟩
  · rw [hp]
    refine ⟨[], ?_, by simp⟩
    rcases w.scheme with hs | hs <;> subst hs <;> decide
  · rw [hp] at hnq ⊢
    have hq : '?' ∉ normalizePercentEncoding r := npe_no_qmark r (fun hm => hnq (List.mem_cons_of_mem _ hm))
    obtain ⟨r', e, hr'⟩ := removeDotSegments_form _ hq
    refine ⟨r', ?_, hr'⟩
    unfold keyPath
    rw [npe_cons_ne _ _ (by decide), e]
    simp

theorem authority_inj (s h1 h2 : Str) (hs : s = (str% "http") ∨ s = (str% "https"))
    (n1 : NoPortSuffix (keyHost h1)) (n2 : NoPortSuffix (keyHost h2))
    (e : keyAuthority s h1 = keyAuthority s h2) : keyHost h1 = keyHost h2 ∧ effPort s h1 = effPort s h2 := by
  have d1 := effPort_digits s h1 hs
  have d2 := effPort_digits s h2 hs
  unfold keyAuthority at e
  by_cases c1 : (!(effPort s h1).isEmpty && decide (effPort s h1 ≠ defaultPort s)) = true <;>
  by_cases c2 : (!(effPort s h2).isEmpty && decide (effPort s h2 ≠ defaultPort s)) = true
  · simp only [c1, c2, ↓reduceIte, List.append_assoc, List.singleton_append] at e
    exact split_unique_last _ _ _ _ d1.1 d2.1 e
  · simp only [c1, c2, ↓reduceIte, List.append_assoc, List.singleton_append, Bool.false_eq_true] at e
    have := n2 _ _ e.symm
    rw [d1.1] at this; cases this
  · simp only [c1, c2, ↓reduceIte, List.append_assoc, List.singleton_append, Bool.false_eq_true] at e
    have := n1 _ _ e
    rw [d2.1] at this; cases this
  · simp only [c1, c2, ↓reduceIte, Bool.false_eq_true] at e
    refine ⟨e, ?_⟩
    have f : ∀ h, (effPort s h).all isDigit = true ∧ effPort s h ≠ [] →
        ¬ ((!(effPort s h).isEmpty && decide (effPort s h ≠ defaultPort s)) = true) → effPort s h = defaultPort s := by
      intro h hd hc
      simp only [Bool.and_eq_true, Bool.not_eq_true', decide_eq_true_eq, not_and, Decidable.not_not] at hc
      apply hc
      cases hx : effPort s h with
      | nil => exact absurd hx hd.2
      | cons a b => rfl
    rw [f h1 d1 c1, f h2 d2 c2]


theorem scheme_prefix_inj (s1 s2 x y : Str) (h1 : s1 = (str% "http") ∨ s1 = (str% "https")) (h2 : s2 = (str% "http") ∨ s2 = (str% "https"))
    (e : s1 ++ ((str% "://") ++ x) = s2 ++ ((str% "://") ++ y)) : s1 = s2 ∧ x = y := by
  rcases h1 with h1 | h1 <;> rcases h2 with h2 | h2 <;> subst h1 <;> subst h2 <;> simp at e ⊢ <;> first | exact e | skip

/-- Injectivity of the primary cache key on well-formed http(s) URLs: two URLs with the same key agree
    in scheme, (case-folded) host, effective port, normalised path and normalised query -/
theorem key_injective (s1 h1 p1 q1 s2 h2 p2 q2 : Str) (w1 : WFUrl s1 h1 p1 q1) (w2 : WFUrl s2 h2 p2 q2)
    (e : makeURLKeyOf s1 h1 p1 q1 [] = makeURLKeyOf s2 h2 p2 q2 []) :
    s1 = s2 ∧ keyHost h1 = keyHost h2 ∧ effPort s1 h1 = effPort s2 h2 ∧
    keyPath s1 (rootedPath h1 p1) = keyPath s2 (rootedPath h2 p2) ∧
    normalizePercentEncoding q1 = normalizePercentEncoding q2 := by
  rw [key_form, key_form] at e
  obtain ⟨hs, e⟩ := scheme_prefix_inj _ _ _ _ w1.scheme w2.scheme e
  subst hs
  obtain ⟨r1, hr1, m1⟩ := keyPath_form s1 h1 p1 q1 w1
  obtain ⟨r2, hr2, m2⟩ := keyPath_form s1 h2 p2 q2 w2
  rw [hr1, hr2] at e ⊢
  simp only [List.cons_append] at e
  obtain ⟨ea, e⟩ := split_unique '/' _ _ _ _ (keyAuthority_no_slash s1 h1 w1.scheme w1.hostNoSlash)
    (keyAuthority_no_slash s1 h2 w2.scheme w2.hostNoSlash) e
  obtain ⟨eh, ep⟩ := authority_inj s1 h1 h2 w1.scheme w1.hostNoPort w2.hostNoPort ea
  refine ⟨rfl, eh, ep, ?_⟩
  by_cases c1 : q1.isEmpty = true <;> by_cases c2 : q2.isEmpty = true
  · simp only [c1, c2, ↓reduceIte, List.append_nil] at e
    have e1 : q1 = [] := by simpa using c1
    have e2 : q2 = [] := by simpa using c2
    rw [e, e1, e2]; exact ⟨rfl, rfl⟩
  · simp only [c1, c2, ↓reduceIte, List.append_nil, Bool.false_eq_true] at e
    exact absurd (by rw [e]; simp) m1
  · simp only [c1, c2, ↓reduceIte, List.append_nil, Bool.false_eq_true] at e
    exact absurd (by rw [← e]; simp) m2
  · simp only [c1, c2, ↓reduceIte, Bool.false_eq_true] at e
    obtain ⟨e1, e2⟩ := split_unique '?' _ _ _ _ m1 m2 e
    rw [e1, e2]; exact ⟨rfl, rfl⟩

/-- and conversely: the key is a function of exactly those five things (all RFC 3986 §6.2.2–6.2.3
    equivalent spellings share one key) -/
theorem key_complete (s h1 p1 q1 h2 p2 q2 : Str)
    (eh : keyHost h1 = keyHost h2) (ep : effPort s h1 = effPort s h2)
    (epath : keyPath s (rootedPath h1 p1) = keyPath s (rootedPath h2 p2))
    (eq : normalizePercentEncoding q1 = normalizePercentEncoding q2) :
    makeURLKeyOf s h1 p1 q1 [] = makeURLKeyOf s h2 p2 q2 [] := by
  rw [key_form, key_form]
  have : q1.isEmpty = q2.isEmpty := by
    cases q1 <;> cases q2 <;> simp
    · have := (npe_nil_iff _).mp eq.symm; cases this
    · have := (npe_nil_iff _).mp eq; cases this
  unfold keyAuthority
  rw [eh, ep, epath, eq, this]

theorem noPortSuffix_of_no_colon (x : Str) (h : ':' ∉ x) : NoPortSuffix x := by
  intro a d e
  exact absurd (by rw [e]; simp) h

theorem noPortSuffix_of_bracket (x : Str) (h : x.getLast? = some ']') : NoPortSuffix x := by
  intro a d e
  cases hd : d.all isDigit with
  | false => rfl
  | true =>
    exfalso
    rw [e] at h
    rw [List.getLast?_append] at h
    cases d with
    | nil => simp at h
    | cons c r =>
      rw [List.getLast?_cons_cons] at h
      cases hl : (c :: r).getLast? with
      | none => simp at hl
      | some z =>
        rw [hl] at h
        simp at h
        subst h
        have := List.all_eq_true.mp hd _ (List.mem_of_getLast? hl)
        revert this; decide



theorem lastIndexOf_go_none (c : Char) : ∀ (s : Str) (i : Nat) (best : Option Nat), c ∉ s → lastIndexOf.go c i best s = best
  | [], _, _, _ => rfl
  | x :: r, i, best, h => by
    unfold lastIndexOf.go
    have hx : x ≠ c := fun e => h (e ▸ List.mem_cons_self)
    simp only [hx, ↓reduceIte]
    exact lastIndexOf_go_none c r (i + 1) best (fun hm => h (List.mem_cons_of_mem _ hm))

theorem lastIndexOf_go_split (c : Char) : ∀ (a : Str) (i : Nat) (best : Option Nat) (d : Str), c ∉ d →
    lastIndexOf.go c i best (a ++ c :: d) = some (i + a.length)
  | [], i, best, d, h => by
    simp only [List.nil_append, List.length_nil, Nat.add_zero]
    unfold lastIndexOf.go
    simp only [↓reduceIte]
    exact lastIndexOf_go_none c d (i + 1) (some i) h
  | x :: a, i, best, d, h => by
    simp only [List.cons_append, List.length_cons]
    unfold lastIndexOf.go
    rw [lastIndexOf_go_split c a (i + 1) _ d h]
    congr 1; omega

theorem lastIndexOf_none_of_not_mem (c : Char) (s : Str) (h : c ∉ s) : lastIndexOf c s = none := by
  unfold lastIndexOf; exact lastIndexOf_go_none c s 0 none h

theorem lastIndexOf_split (c : Char) (a d : Str) (h : c ∉ d) : lastIndexOf c (a ++ c :: d) = some a.length := by
  unfold lastIndexOf; rw [lastIndexOf_go_split c a 0 none d h]; simp

/-- every string either has no `c`, or splits at its last `c` -/
theorem exists_last_split (c : Char) : ∀ s : Str, c ∉ s ∨ ∃ a d, s = a ++ c :: d ∧ c ∉ d
  | [] => Or.inl (by simp)
  | x :: r => by
    rcases exists_last_split c r with h | ⟨a, d, e, h⟩
    · by_cases hx : x = c
      · right; exact ⟨[], r, by simp [hx], h⟩
      · left; intro hm; rcases List.mem_cons.mp hm with h' | h'
        · exact hx h'.symm
        · exact h h'
    · right; exact ⟨x :: a, d, by simp [e], h⟩

theorem digit_ne_colon'' (d : Str) (h : d.all isDigit = true) : ':' ∉ d := by
  intro hm
  have := List.all_eq_true.mp h _ hm
  revert this; decide

theorem splitHostPort_of_split (a d : Str) (h : ':' ∉ d) :
    splitHostPort (a ++ ':' :: d) = if d.all isDigit then (a, d) else (a ++ ':' :: d, []) := by
  unfold splitHostPort
  rw [lastIndexOf_split ':' a d h]
  simp only [List.drop_left, validOptionalPort, decide_true, Bool.true_and, List.take_left]
  have : List.drop (a.length + 1) (a ++ ':' :: d) = d := by
    rw [← List.tail_drop, List.drop_left]; rfl
  rw [this]

theorem takeWhile_all {α} (p : α → Bool) (l r : List α) (h : l.all p = true) : (l ++ r).takeWhile p = l ++ r.takeWhile p := by
  induction l with
  | nil => rfl
  | cons x l ih =>
    simp only [List.all_cons, Bool.and_eq_true] at h
    simp [h.1, ih h.2]

theorem dropWhile_all {α} (p : α → Bool) (l r : List α) (h : l.all p = true) : (l ++ r).dropWhile p = r.dropWhile p := by
  induction l with
  | nil => rfl
  | cons x l ih =>
    simp only [List.all_cons, Bool.and_eq_true] at h
    simp [h.1, ih h.2]

theorem dropWhile_not_all {α} (p : α → Bool) (l r : List α) (h : l.all p = false) :
    ∃ x t, (l ++ r).dropWhile p = x :: t ∧ x ∈ l ∧ p x = false := by
  induction l with
  | nil => simp at h
  | cons y l ih =>
    by_cases hy : p y = true
    · have : l.all p = false := by simpa [hy] using h
      obtain ⟨x, t, e, hm, hp⟩ := ih this
      exact ⟨x, t, by simp [hy, e], List.mem_cons_of_mem _ hm, hp⟩
    · exact ⟨y, l ++ r, by simp [hy], List.mem_cons_self, by simpa using hy⟩

theorem splitAuthority_of_split (a d : Str) (h : ':' ∉ d) :
    Spec.splitAuthority (a ++ ':' :: d) = if d.all isDigit then (a, d) else (a ++ ':' :: d, []) := by
  unfold Spec.splitAuthority
  simp only [List.reverse_append, List.reverse_cons, List.append_assoc, List.singleton_append]
  by_cases hd : d.all isDigit = true
  · have hr : d.reverse.all isDigit = true := by simpa using hd
    rw [dropWhile_all _ _ _ hr, takeWhile_all _ _ _ hr]
    simp [List.dropWhile, List.takeWhile, hd, isDigit]
  · simp only [hd, Bool.false_eq_true, ↓reduceIte]
    have hr : d.reverse.all isDigit = false := by
      cases hx : d.reverse.all isDigit with
      | false => rfl
      | true => exfalso; apply hd; simpa using hx
    obtain ⟨x, t, e, hm, hp⟩ := dropWhile_not_all isDigit d.reverse (':' :: a.reverse) hr
    rw [e]
    have hx : x ≠ ':' := by
      intro hx; subst hx; exact h (by simpa using hm)
    split
    · rename_i heq; cases heq; exact absurd rfl hx
    · rfl


theorem splitAuthority_eq (hp : Str) : Spec.splitAuthority hp = splitHostPort hp := by
  rcases exists_last_split ':' hp with h | ⟨a, d, e, h⟩
  · have e1 : splitHostPort hp = (hp, []) := by
      unfold splitHostPort; rw [lastIndexOf_none_of_not_mem _ _ h]
    rw [e1]
    unfold Spec.splitAuthority
    simp only
    split
    · rename_i hostRev heq
      have : ':' ∈ hp.reverse.dropWhile isDigit := by rw [heq]; exact List.mem_cons_self
      have := (List.dropWhile_sublist isDigit).subset this
      exact absurd (by simpa using this) h
    · rfl
  · subst e
    rw [splitAuthority_of_split a d h, splitHostPort_of_split a d h]

theorem dotSegs_eq : ∀ (segs out : List Str), Spec.dotSegs out segs = dotLoop out segs
  | [], out => by simp [Spec.dotSegs, dotLoop]
  | [seg], out => by simp [Spec.dotSegs, dotLoop]
  | seg :: s2 :: rest, out => by
    simp only [Spec.dotSegs, dotLoop]
    split
    · exact dotSegs_eq (s2 :: rest) out
    · split
      · exact dotSegs_eq (s2 :: rest) _
      · exact dotSegs_eq (s2 :: rest) _

theorem splitOnSlash_go_eq : ∀ (s cur : Str), Spec.splitOnSlash.go cur s = splitSlash.go cur s
  | [], cur => by simp [Spec.splitOnSlash.go, splitSlash.go]
  | c :: r, cur => by
    simp only [Spec.splitOnSlash.go, splitSlash.go]
    split
    · rw [splitOnSlash_go_eq r []]
    · exact splitOnSlash_go_eq r _

theorem joinSlash_eq : ∀ (l : List Str), Spec.joinSlash l = joinWith ['/'] l
  | [] => rfl
  | [x] => rfl
  | x :: y :: r => by
    simp only [Spec.joinSlash, joinWith]
    rw [joinSlash_eq (y :: r)]; simp

theorem removeDots_eq (p : Str) : Spec.removeDots p = removeDotSegments p := by
  cases p with
  | nil => rfl
  | cons c r =>
    by_cases hc : c = '/'
    · subst hc
      simp only [Spec.removeDots, removeDotSegments]
      rw [joinSlash_eq, dotSegs_eq]; unfold Spec.splitOnSlash splitSlash; rw [splitOnSlash_go_eq]
    · unfold Spec.removeDots removeDotSegments
      split
      · rename_i heq; cases heq; exact absurd rfl hc
      · split
        · rename_i heq; cases heq; exact absurd rfl hc
        · rfl

/-- the cache key IS the RFC 3986 normal form of Spec/Defs.lean (the one the C03 monitor evaluates on
    the implementation's trace), for every http(s) URL with an empty Opaque part -/
theorem key_eq_spec (s h p q : Str) (hs : s = (str% "http") ∨ s = (str% "https")) :
    makeURLKeyOf s h p q [] = Spec.urlNorm s h p q := by
  unfold makeURLKeyOf Spec.urlNorm
  rw [splitAuthority_eq]
  rcases hsp : splitHostPort h with ⟨h', p0⟩
  have hl : lowerASCII s = s := by rcases hs with hs | hs <;> subst hs <;> decide
  have hd : Spec.schemeDefaultPort s = defaultPort s := rfl
  have hne : defaultPort s ≠ [] := by rcases hs with hs | hs <;> subst hs <;> decide
  have hsch : (decide (s = (str% "http")) || decide (s = (str% "https"))) = true := by
    rcases hs with hs | hs <;> subst hs <;> decide
  simp only [List.isEmpty_nil, Bool.not_true, Bool.false_eq_true, ↓reduceIte, hl, hd, hsch, Bool.and_true, pctNorm_eq,
    removeDots_eq]
  have hr : Spec.rooted h p = rootedPath h p := rfl
  rw [hr]
  generalize removeDotSegments (normalizePercentEncoding (rootedPath h p)) = P
  by_cases hp0 : p0.isEmpty = true
  · have : p0 = [] := by simpa using hp0
    subst this
    have hne' : ¬ ([] = defaultPort s) := fun e => hne e.symm
    by_cases hpe : P.isEmpty = true <;> by_cases hq : q.isEmpty = true <;>
      simp [hpe, hq, hne', List.append_assoc]
  · by_cases hdef : p0 = defaultPort s
    · by_cases hpe : P.isEmpty = true <;> by_cases hq : q.isEmpty = true <;>
        simp [hpe, hq, hdef, List.append_assoc]
    · by_cases hpe : P.isEmpty = true <;> by_cases hq : q.isEmpty = true <;>
        simp [hp0, hpe, hq, hdef, List.append_assoc]

/-- the key with the "?" of a present-and-empty query is the RFC normal form too -/
theorem keyQ_eq_spec (s h p q : Str) (fq : Bool) (hs : s = (str% "http") ∨ s = (str% "https")) :
    makeURLKeyQ s h p q [] fq = Spec.urlNormQ s h p q fq := by
  unfold makeURLKeyQ Spec.urlNormQ
  rw [key_eq_spec s h p q hs]
  simp

/-- "/p?" and "/p" never share a key -/
theorem forced_query_distinct (s h p : Str) :
    makeURLKeyQ s h p [] [] true ≠ makeURLKeyQ s h p [] [] false := by
  unfold makeURLKeyQ
  simp only [List.isEmpty_nil, Bool.and_self, ↓reduceIte, Bool.false_and, Bool.false_eq_true]
  intro h'
  have := congrArg List.length h'
  simp at this

/-! ### a Location reference resolved by the model is the reference resolved by RFC 3986 §5.2.2 -/

/-- the longest prefix that ends in "/" -/
def dirOf (p : Str) : Str := (p.reverse.dropWhile (· ≠ '/')).reverse

theorem dirOf_slash_cons (p : Str) : dirOf ('/' :: p) = '/' :: dirOf p := by
  unfold dirOf
  rw [List.reverse_cons, List.dropWhile_append]
  split
  · rename_i he
    have : p.reverse.dropWhile (fun x => decide (x ≠ '/')) = [] := by simpa using he
    rw [this]; simp
  · simp

theorem dirOf_cons_head (c : Char) (p : Str) : dirOf (c :: p) = [] ∨ ∃ t, dirOf (c :: p) = c :: t := by
  unfold dirOf
  rw [List.reverse_cons, List.dropWhile_append]
  split
  · by_cases hc : c = '/'
    · right; subst hc; exact ⟨[], by simp⟩
    · left; simp [hc]
  · right
    exact ⟨(p.reverse.dropWhile (fun x => decide (x ≠ '/'))).reverse, by simp⟩

/-- rooting commutes with the merge: merging onto the rooted base path, or merging first and rooting the
    result (what the code does: the keyer roots the merged path), is the same path -/
theorem rooted_merge (h p r : Str) (c : Char) (t : Str) (hh : h ≠ []) (hr : r = c :: t) (hc : c ≠ '/') :
    Spec.rooted h (dirOf p ++ r) = Spec.rooted h (Spec.mergePaths (Spec.rooted h p) r) := by
  obtain ⟨a, h', rfl⟩ : ∃ a h', h = a :: h' := by cases h with
    | nil => exact absurd rfl hh
    | cons a h' => exact ⟨a, h', rfl⟩
  subst hr
  cases p with
  | nil =>
    simp [Spec.rooted, Spec.mergePaths, dirOf, hc]
  | cons d p' =>
    by_cases hd : d = '/'
    · subst hd
      have : Spec.rooted (a :: h') ('/' :: p') = '/' :: p' := by simp [Spec.rooted]
      rw [this]
      simp only [Spec.mergePaths, List.isEmpty_cons, Bool.false_eq_true, ↓reduceIte]
      rfl
    · have : Spec.rooted (a :: h') (d :: p') = '/' :: d :: p' := by simp [Spec.rooted, hd]
      rw [this]
      simp only [Spec.mergePaths, List.isEmpty_cons, Bool.false_eq_true, ↓reduceIte]
      change _ = Spec.rooted (a :: h') (dirOf ('/' :: d :: p') ++ c :: t)
      rw [dirOf_slash_cons]
      rcases dirOf_cons_head d p' with he | ⟨t', he⟩
      · rw [he]; simp [Spec.rooted, hc]
      · rw [he]; simp [Spec.rooted, hd]


end Httpcache
