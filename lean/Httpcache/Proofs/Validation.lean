import Httpcache.Proofs.Hit
import Httpcache.Proofs.HeaderLemmas
import Httpcache.Proofs.Paths
/- HandleValidationResponse and StoreResponse: shape of their executions. -/
namespace Httpcache

theorem statusHeader_ne_fromCache : sStatusHeader ≠ sFromCache := by decide

theorem applyStatus_get (s : CacheStatus) (h : Header) : Header.get (applyStatus s h) sStatusHeader = s.value := by
  unfold applyStatus
  simp only []
  split
  · rw [Header.get_set_other _ _ _ _ (Ne.symm statusHeader_ne_fromCache), Header.get_set_self]
  · rw [Header.get_del_other _ _ _ (Ne.symm statusHeader_ne_fromCache), Header.get_set_self]

/-- the clean-up after the index write: nothing, or one delete of the replaced response's key, which the index just
    written does not name -/
theorem dropReplaced_run (refs nr : List Ref) (ri : Option Nat) (ok : Bool) (k : Prog) (tr : List Step) (res : Result)
    (h : Run (dropReplaced refs nr ri ok k) tr res) :
    Run k tr res ∨ ∃ old tr', tr = Step.delete old :: tr' ∧ Run k tr' res ∧ replacedId refs ri = some old ∧ old ≠ [] ∧
      ok = true ∧ ∀ x ∈ nr, x.id ≠ old := by
  unfold dropReplaced at h
  split at h
  · rename_i old hold
    split at h
    · rename_i hc
      simp only [Bool.and_eq_true, Bool.not_eq_true', List.any_eq_false, decide_eq_true_eq] at hc
      cases h with
      | delete h1 =>
        refine Or.inr ⟨old, _, rfl, h1, hold, ?_, hc.1.1, fun x hx => by simpa using hc.2 x hx⟩
        intro e; rw [e] at hc; simp at hc
    · exact Or.inl h
  · exact Or.inl h

theorem storeResponse_run (cfg : Cfg) (reqH : Header) (r : Resp) (bodyOk : Bool) (key : Str) (refs : List Ref)
    (reqT respT : Int) (ri : Option Nat) (k : Resp → Prog) (tr : List Step) (res : Result)
    (h : Run (storeResponse cfg reqH r bodyOk key refs reqT respT ri k) tr res) :
    ∃ tr1 tr2, tr = tr1 ++ tr2 ∧ contacted tr1 = false ∧ spawned tr1 = false ∧
      Run (k (respWith r (removeHopByHop r.header))) tr2 res := by
  unfold storeResponse at h
  simp only [] at h
  split at h
  · exact ⟨[], tr, rfl, rfl, rfl, h⟩
  · cases h with
    | setEntry ok h1 =>
      dsimp only at h1
      split at h1
      · exact ⟨[_], _, rfl, rfl, rfl, h1⟩
      · cases h1 with
        | setRefs ok2 h2 =>
          dsimp only at h2
          rcases dropReplaced_run _ _ _ _ _ _ _ h2 with hk | ⟨old, tr', e, hk, _⟩
          · exact ⟨[_, _], _, rfl, rfl, rfl, hk⟩
          · subst e; exact ⟨[_, _, _], _, rfl, rfl, rfl, hk⟩

/-- how a validation can end, as a function of the origin's answer -/
inductive ValidationOutcome (reqH : Header) (stored : Entry) (mustValidate : Bool) : OriginAns → Result → Prop where
  | revalidated (r : Resp) (t1 : Int) (b : Bool) (x : Resp) : r.status = 304 →
      clientPreconditionForwarded reqH stored.resp.header = false → x.status = stored.resp.status →
      x.body = stored.resp.body → Header.get x.header sStatusHeader = CacheStatus.revalidated.value →
      ValidationOutcome reqH stored mustValidate (.resp r t1 b) (.resp x)
  | staleIfError (a : OriginAns) (x : Resp) : mustValidate = false → x.status = stored.resp.status →
      x.body = stored.resp.body → Header.get x.header sStatusHeader = CacheStatus.stale.value →
      (∀ r t1 b, a = .resp r t1 b → isStaleErrorAllowed r.status = true) →
      ValidationOutcome reqH stored mustValidate a (.resp x)
  | origin (r : Resp) (t1 : Int) (b : Bool) (x : Resp) :
      (r.status ≠ 304 ∨ clientPreconditionForwarded reqH stored.resp.header = true) → x.status = r.status → x.body = r.body →
      (Header.get x.header sStatusHeader = CacheStatus.miss.value ∨ Header.get x.header sStatusHeader = CacheStatus.bypass.value) →
      ValidationOutcome reqH stored mustValidate (.resp r t1 b) (.resp x)
  | error (t1 : Int) : ValidationOutcome reqH stored mustValidate (.err t1) .err

/-- HandleValidationResponse (GET): whatever the store answers to the write-back, the result is one of
    the four outcomes, and no further origin call or background work happens -/
theorem handleValidation_outcome (cfg : Cfg) (reqH : Header) (key : Str) (stored : Entry) (refs : List Ref)
    (ri : Option Nat) (f : Freshness) (ccReq : Directives) (mv : Bool) (start : Int) (ans : OriginAns)
    (tr : List Step) (res : Result)
    (h : Run (handleValidation cfg sGET reqH key stored refs ri f ccReq mv start ans (fun r => .ret r)) tr res) :
    ValidationOutcome reqH stored mv ans res ∧ contacted tr = false ∧ spawned tr = false := by
  unfold handleValidation at h
  simp only [] at h
  split at h
  · -- err
    rename_i t1
    split at h
    · rename_i hc
      cases h
      simp only [Bool.and_eq_true, decide_eq_true_eq, Bool.not_eq_true'] at hc
      refine ⟨.staleIfError _ _ hc.1.1.2 rfl rfl ?_ (by intro r t b hh; cases hh), rfl, rfl⟩
      unfold serveStale servedHeader; simp only [respWith]; exact applyStatus_get _ _
    · cases h; exact ⟨.error _, rfl, rfl⟩
  · rename_i r t1 bodyOk
    split at h
    · rename_i h304
      simp only [Bool.and_eq_true, decide_eq_true_eq, Bool.not_eq_true'] at h304
      have hcp := h304.2
      have h304 := h304.1.2
      have key304 : ValidationOutcome reqH stored mv (.resp r t1 bodyOk)
          (.resp (respWith stored.resp (applyStatus .revalidated (updateStoredHeaders (Header.del stored.resp.header sAge) r.header)))) :=
        .revalidated _ _ _ _ h304 hcp rfl rfl (by simp only [respWith]; exact applyStatus_get _ _)
      split at h
      · cases h; exact ⟨key304, rfl, rfl⟩
      · split at h
        · -- the 304 changed Vary: stored anew, still the stored status and body, marked REVALIDATED
          obtain ⟨tr1, tr2, htr, hc1, hs1, h2⟩ := storeResponse_run _ _ _ _ _ _ _ _ _ _ _ _ h
          cases h2
          subst htr
          refine ⟨.revalidated _ _ _ _ h304 hcp rfl rfl (by simp only [respWith]; exact applyStatus_get _ _), ?_, ?_⟩
          · simpa using hc1
          · simpa using hs1
        · cases h with
          | setEntry ok h1 => cases h1; exact ⟨key304, rfl, rfl⟩
    · rename_i hn304
      split at h
      · rename_i hc
        cases h
        simp only [Bool.and_eq_true, decide_eq_true_eq, Bool.not_eq_true'] at hc
        refine ⟨.staleIfError _ _ hc.1.1.2 rfl rfl ?_ (by intro r' t b hh; cases hh; exact hc.1.1.1.1), rfl, rfl⟩
        unfold serveStale servedHeader; simp only [respWith]; exact applyStatus_get _ _
      · have hne : r.status ≠ 304 ∨ clientPreconditionForwarded reqH stored.resp.header = true := by
          by_cases h' : r.status = 304
          · right
            cases hcp : clientPreconditionForwarded reqH stored.resp.header with
            | true => rfl
            | false => exfalso; apply hn304; simp [h', hcp]
          · exact Or.inl h'
        split at h
        · obtain ⟨tr1, tr2, htr, hc1, hs1, h2⟩ := storeResponse_run _ _ _ _ _ _ _ _ _ _ _ _ h
          cases h2
          subst htr
          refine ⟨.origin _ _ _ _ hne rfl rfl (Or.inl (by simp only [respWith]; exact applyStatus_get _ _)), ?_, ?_⟩
          · simpa using hc1
          · simpa using hs1
        · cases h; exact ⟨.origin _ _ _ _ hne rfl rfl (Or.inr (by simp only [respWith]; exact applyStatus_get _ _)), rfl, rfl⟩


/-- the transport's freshness is the calculator's, for the request's directives or for them
    without max-age -/
theorem transport_is_calc (g : Glue) (now : Int) (e : Entry) (reqCC resCC : Directives) :
    ∃ cc', (transportFreshness g now e reqCC resCC).1 = calculateFreshness g now e cc' resCC := by
  unfold transportFreshness
  cases reqCC.maxAge with
  | none => exact ⟨_, rfl⟩
  | some m =>
    simp only []
    split
    · exact ⟨_, rfl⟩
    · exact ⟨_, rfl⟩

/-- RFC-level strict validation implies the transport's mustValidate -/
theorem strict_implies_mv (g : Glue) (now : Int) (e : Entry) (reqH : Header)
    (hs : e.resp.status ≠ 304) (hT : TimesOK e)
    (h : Spec.strictValidate modelReader g.parseTime reqH (Spec.storedOfEntry e) now = true) :
    mustValidateOf (transportFreshness g now e (parseCC reqH) (parseCC e.resp.header)).1 (parseCC reqH) (parseCC e.resp.header) = true := by
  unfold Spec.strictValidate at h
  simp only [Bool.or_eq_true, Bool.and_eq_true, Bool.not_eq_true'] at h
  unfold mustValidateOf
  simp only [Bool.or_eq_true, Bool.and_eq_true]
  rcases h with (hncu | ⟨hnf, hmr⟩) | hnc
  · right; rw [← ncu_eq]; exact hncu
  · left; right
    rw [show (Spec.storedOfEntry e).header = e.resp.header from rfl, has_eq] at hmr
    have hmr' : (parseCC e.resp.header).mustRevalidate = true := hmr
    refine ⟨?_, hmr'⟩
    obtain ⟨cc', hcc⟩ := transport_is_calc g now e (parseCC reqH) (parseCC e.resp.header)
    rw [hcc]
    cases hst : (calculateFreshness g now e cc' (parseCC e.resp.header)).isStale with
    | true => rfl
    | false =>
      have := fresh_sound_must_revalidate g now e cc' hs hT hmr' hst
      rw [this] at hnf; cases hnf
  · left; left; rw [has_eq] at hnc; exact hnc


/-- when validation is demanded the hit path either answers 504 (only-if-cached) or performs
    exactly one origin call: the client's request plus the stored validators, no deadline -/
theorem hit_validates (cfg : Cfg) (t0 : Int) (req : Req) (e : Entry) (key : Str) (refs : List Ref) (i : Nat)
    (hget : req.method = sGET)
    (hmv : (mustValidateOf (transportFreshness cfg.glue t0 e (parseCC req.header) (parseCC e.resp.header)).1 (parseCC req.header) (parseCC e.resp.header) ||
            (transportFreshness cfg.glue t0 e (parseCC req.header) (parseCC e.resp.header)).2) = true)
    (tr : List Step) (r : Result) (h : Run (handleCacheHit cfg t0 req e key refs i) tr r) :
    ((parseCC req.header).onlyIfCached = true ∧ tr = [] ∧ r = .resp make504) ∨
    ∃ ans tr', tr = Step.origin sGET (withConditional req.header e.resp.header) none ans :: tr' ∧
      ValidationOutcome req.header e (mustValidateOf (transportFreshness cfg.glue t0 e (parseCC req.header) (parseCC e.resp.header)).1 (parseCC req.header) (parseCC e.resp.header))
        (fixAns cfg ans) r ∧ contacted tr' = false ∧ spawned tr' = false := by
  unfold handleCacheHit at h
  simp only [hmv, ↓reduceIte] at h
  split at h
  · rename_i hoic
    cases h; exact Or.inl ⟨hoic, rfl, rfl⟩
  · right
    unfold revalidateProg at h
    rw [hget] at h
    cases h with
    | origin ans h1 =>
      obtain ⟨ho, hc, hs⟩ := handleValidation_outcome _ _ _ _ _ _ _ _ _ _ _ _ _ h1
      exact ⟨ans, _, rfl, ho, hc, hs⟩


/-- RFC-level "request max-age exceeded" implies the transport's flag -/
theorem exceeded_implies_flag (g : Glue) (now : Int) (e : Entry) (reqH : Header) (hT : TimesOK e)
    (h : Spec.requestMaxAgeExceeded modelReader g.parseTime reqH (Spec.storedOfEntry e) now = true) :
    (transportFreshness g now e (parseCC reqH) (parseCC e.resp.header)).2 = true := by
  unfold Spec.requestMaxAgeExceeded at h
  rw [seconds_eq] at h
  unfold transportFreshness
  have hma : (parseCC reqH).maxAge = (parseCC reqH).dur (str% "max-age") := rfl
  rw [hma]
  cases hm : (parseCC reqH).dur (str% "max-age") with
  | none => simp [hm] at h
  | some m =>
    simp only [hm, Bool.and_eq_true, decide_eq_true_eq, Bool.not_eq_true'] at h ⊢
    obtain ⟨hge, hncov⟩ := h
    by_cases h0 : m = 0
    · simp [h0]
    · suffices hst : (calculateFreshness g now e (parseCC reqH) (parseCC e.resp.header)).isStale = true ∧
          (calculateFreshness g now e (parseCC reqH) (parseCC e.resp.header)).ageValue ≥ m by
        simp [hst.1, hst.2]
      have hmne : (parseCC reqH).maxAge ≠ some 0 := by rw [hma, hm]; intro hh; cases hh; exact h0 rfl
      obtain ⟨ha, _, hl⟩ := calc_fields g now e (parseCC reqH) (parseCC e.resp.header) hmne
      rw [ha]
      rw [← age_eq g now e hT] at hge hncov
      refine ⟨?_, hge⟩
      -- not un-staled: otherwise the RFC-level max-stale reading would cover it
      have hb := dur_bounds _ _ _ hm
      have hmpos : m > 0 := by omega
      have hlife : requestLifetime (responseLifetime g e (parseCC e.resp.header)) (parseCC reqH) ≤ m := by
        unfold requestLifetime; rw [hma, hm]; simp only [hmpos, ↓reduceIte]; omega
      unfold calculateFreshness
      simp only [hmne, ↓reduceIte]
      split
      · rfl
      · simp only []
        unfold staleAfterMaxStale
        split
        · rename_i hc
          exfalso
          simp only [Bool.and_eq_true, decide_eq_true_eq, Bool.not_eq_true'] at hc
          obtain ⟨⟨⟨_, hpos⟩, _⟩, hlt⟩ := hc
          have := maxStale_sound reqH (currentAge g now e) _ m hlife hpos hlt
          rw [this] at hncov; cases hncov
        · simp only [decide_eq_true_eq]; omega


theorem has_del_of_not_has (h : Header) (m n : Str) (hn : Header.has h n = false) : Header.has (Header.del h m) n = false := by
  by_cases hmn : m = n
  · subst hmn; exact Header.has_del_self _ _
  · rw [Header.has_del_other _ _ _ hmn]; exact hn

theorem has_foldl_del (fs : List Str) (n : Str) : ∀ h : Header,
    (n ∈ fs.map canonicalHeaderKey ∨ Header.has h n = false) →
    Header.has (fs.foldl (fun h f => Header.del h (canonicalHeaderKey f)) h) n = false := by
  induction fs with
  | nil => intro h hh; cases hh with
    | inl h1 => simp at h1
    | inr h2 => exact h2
  | cons f fs ih =>
    intro h hh
    simp only [List.foldl_cons]
    apply ih
    cases hh with
    | inl h1 =>
      simp only [List.map_cons, List.mem_cons] at h1
      cases h1 with
      | inl heq => right; rw [heq]; exact Header.has_del_self _ _
      | inr hin => left; exact hin
    | inr h2 => right; exact has_del_of_not_has _ _ _ h2


/-- the writes a StoreResponse call can perform: none (body unreadable), a failed entry write, or
    an entry write followed by the index write -/
inductive StoreWrites (r : Resp) (bodyOk : Bool) (key : Str) : List Step → Prop where
  | none : bodyOk = false → StoreWrites r bodyOk key []
  | entryFailed (id : Str) (en : Entry) : bodyOk = true → en.resp = respWith r (removeHopByHop r.header) →
      StoreWrites r bodyOk key [.setEntry id en false]
  | stored (id : Str) (en : Entry) (refs : List Ref) (ok : Bool) : bodyOk = true →
      en.resp = respWith r (removeHopByHop r.header) → (∃ ref ∈ refs, ref.id = id) →
      StoreWrites r bodyOk key [.setEntry id en true, .setRefs key refs ok]
  /-- … and the removal of the response the replaced reference named, which the index just written does not name -/
  | storedDropping (id : Str) (en : Entry) (refs : List Ref) (old : Str) : bodyOk = true →
      en.resp = respWith r (removeHopByHop r.header) → (∃ ref ∈ refs, ref.id = id) → (∀ x ∈ refs, x.id ≠ old) →
      StoreWrites r bodyOk key [.setEntry id en true, .setRefs key refs true, .delete old]

theorem mem_dedupe_self (refs : List Ref) (idx : Nat) (ref : Ref) (h : refs[idx]? = some ref) :
    ref ∈ dedupeRefs refs idx ref := by
  unfold dedupeRefs
  rw [List.mem_map]
  refine ⟨(ref, idx), ?_, rfl⟩
  rw [List.mem_filter]
  refine ⟨?_, by simp⟩
  rw [List.mem_zipIdx_iff_getElem?]
  simpa using h

theorem placeRef_get (refs : List Ref) (ri : Option Nat) (ref : Ref) :
    (placeRef refs ri ref).1[(placeRef refs ri ref).2]? = some ref := by
  unfold placeRef
  split
  · split
    · rename_i i hlt; simp [hlt]
    · simp
  · simp

theorem storeResponse_trace (cfg : Cfg) (reqH : Header) (r : Resp) (bodyOk : Bool) (key : Str) (refs : List Ref)
    (reqT respT : Int) (ri : Option Nat) (k : Resp → Prog) (tr : List Step) (res : Result)
    (h : Run (storeResponse cfg reqH r bodyOk key refs reqT respT ri k) tr res) :
    ∃ tr1 tr2, tr = tr1 ++ tr2 ∧ StoreWrites r bodyOk key tr1 ∧
      Run (k (respWith r (removeHopByHop r.header))) tr2 res := by
  unfold storeResponse at h
  simp only [] at h
  split at h
  · rename_i hb
    exact ⟨[], tr, rfl, .none (by simpa using hb), h⟩
  · rename_i hb
    have hb' : bodyOk = true := by simpa using hb
    cases h with
    | setEntry ok h1 =>
      dsimp only at h1
      split at h1
      · rename_i hok
        have : ok = false := by simpa using hok
        subst this
        exact ⟨[_], _, rfl, .entryFailed _ _ hb' rfl, h1⟩
      · rename_i hok
        have : ok = true := by simpa using hok
        subst this
        cases h1 with
        | setRefs ok2 h2 =>
          dsimp only at h2
          rcases dropReplaced_run _ _ _ _ _ _ _ h2 with hk | ⟨old, tr', e, hk, _, _, hok, hnot⟩
          · exact ⟨[_, _], _, rfl, .stored _ _ _ _ hb' rfl ⟨_, mem_dedupe_self _ _ _ (placeRef_get _ _ _), rfl⟩, hk⟩
          · subst e; subst hok
            exact ⟨[_, _, _], _, rfl, .storedDropping _ _ _ _ hb' rfl ⟨_, mem_dedupe_self _ _ _ (placeRef_get _ _ _), rfl⟩ hnot, hk⟩


theorem wrote_append (a b : List Step) : wrote (a ++ b) = (wrote a || wrote b) := by
  simp [wrote, List.any_append]

/-- deletions (and the index reads of the invalidator) write nothing -/
def Step.isInval : Step → Bool
  | .delete _ => true
  | .getRefs _ _ => true
  | _ => false

theorem delOnce_run (deleted : List Str) (k : Str) (cont : List Str → Prog) (tr : List Step) (r : Result)
    (h : Run (delOnce deleted k cont) tr r) :
    ∃ tr1 tr2 d, tr = tr1 ++ tr2 ∧ tr1.all Step.isInval = true ∧ Run (cont d) tr2 r := by
  unfold delOnce at h
  split at h
  · exact ⟨[], tr, _, rfl, rfl, h⟩
  · cases h with
    | delete h1 => exact ⟨[_], _, _, rfl, rfl, h1⟩

theorem delMany_run (ks : List Str) : ∀ (deleted : List Str) (cont : List Str → Prog) (tr : List Step) (r : Result),
    Run (delMany deleted ks cont) tr r →
    ∃ tr1 tr2 d, tr = tr1 ++ tr2 ∧ tr1.all Step.isInval = true ∧ Run (cont d) tr2 r := by
  induction ks with
  | nil => intro deleted cont tr r h; exact ⟨[], tr, _, rfl, rfl, h⟩
  | cons k ks ih =>
    intro deleted cont tr r h
    unfold delMany at h
    obtain ⟨a1, a2, d1, ha, hall1, hrun1⟩ := delOnce_run _ _ _ _ _ h
    obtain ⟨b1, b2, d2, hb, hall2, hrun2⟩ := ih _ _ _ _ hrun1
    refine ⟨a1 ++ b1, b2, d2, ?_, ?_, hrun2⟩
    · rw [ha, hb, List.append_assoc]
    · simp [List.all_append, hall1, hall2]

theorem invalidateLocation_run (cfg : Cfg) (req : Req) (respH : Header) (hdr : Str) (deleted : List Str)
    (cont : List Str → Prog) (tr : List Step) (r : Result)
    (h : Run (invalidateLocation cfg req respH hdr deleted cont) tr r) :
    ∃ tr1 tr2 d, tr = tr1 ++ tr2 ∧ tr1.all Step.isInval = true ∧ Run (cont d) tr2 r := by
  unfold invalidateLocation at h
  split at h
  · exact ⟨[], tr, _, rfl, rfl, h⟩
  · split at h
    · exact ⟨[], tr, _, rfl, rfl, h⟩
    · split at h
      · rename_i g _ _
        cases h with
        | getRefs a h1 =>
          obtain ⟨a1, a2, d1, ha, hall1, hrun1⟩ := delMany_run _ _ _ _ _ h1
          obtain ⟨b1, b2, d2, hb, hall2, hrun2⟩ := delOnce_run _ _ _ _ _ hrun1
          subst ha; subst hb
          refine ⟨Step.getRefs (resolveLoc req g).key a :: (a1 ++ b1), b2, d2, by simp [List.append_assoc], ?_, hrun2⟩
          · simp [List.all_append, hall1, hall2, Step.isInval]
      · exact ⟨[], tr, _, rfl, rfl, h⟩

theorem invalidateCache_run (cfg : Cfg) (req : Req) (respH : Header) (refs : List Ref) (key : Str) (k : Prog)
    (tr : List Step) (r : Result) (h : Run (invalidateCache cfg req respH refs key k) tr r) :
    ∃ tr1 tr2, tr = tr1 ++ tr2 ∧ tr1.all Step.isInval = true ∧ Run k tr2 r := by
  unfold invalidateCache at h
  obtain ⟨a1, a2, d1, ha, hall1, h1⟩ := delMany_run _ _ _ _ _ h
  obtain ⟨b1, b2, d2, hb, hall2, h2⟩ := invalidateLocation_run _ _ _ _ _ _ _ _ h1
  obtain ⟨c1, c2, d3, hc, hall3, h3⟩ := invalidateLocation_run _ _ _ _ _ _ _ _ h2
  obtain ⟨e1, e2, d4, he, hall4, h4⟩ := delOnce_run _ _ _ _ _ h3
  refine ⟨a1 ++ b1 ++ c1 ++ e1, e2, ?_, ?_, h4⟩
  · rw [ha, hb, hc, he]; simp [List.append_assoc]
  · simp [List.all_append, hall1, hall2, hall3, hall4]

theorem wrote_of_inval (l : List Step) (h : l.all Step.isInval = true) : wrote l = false := by
  induction l with
  | nil => rfl
  | cons s ss ih =>
    simp only [List.all_cons, Bool.and_eq_true] at h
    have := ih h.2
    cases s <;> simp_all [wrote, Step.isWrite, Step.isInval]

/-- the bypass path (methods other than GET, Range requests) never writes to the store -/
theorem bypass_no_write (cfg : Cfg) (req : Req) (key : Str) (tr : List Step) (r : Result)
    (h : Run (handleUnrecognizedMethod cfg req key) tr r) : wrote tr = false := by
  unfold handleUnrecognizedMethod at h
  split at h
  · cases h; rfl
  · cases h with
    | origin a h1 =>
      dsimp only at h1
      split at h1
      · cases h1; rfl
      · split at h1
        · cases h1 with
          | getRefs a2 h2 =>
            obtain ⟨t1, t2, ht, hall, hk⟩ := invalidateCache_run _ _ _ _ _ _ _ _ h2
            cases hk
            subst ht
            have := wrote_of_inval t1 hall
            simp [wrote, Step.isWrite] at this ⊢
            exact this
        · cases h1; rfl


/-- the store writes that may follow the (single) origin call of an exchange -/
inductive WritesAfter (req : Req) (key : Str) (stored : Option Entry) : OriginAns → List Step → Prop where
  | none (a : OriginAns) : WritesAfter req key stored a []
  /-- 304 that answers the stored validators (no precondition of the client's own went upstream in their
      place): the entry that was read is written back under its id, same status and body -/
  | freshen (r : Resp) (t1 : Int) (b : Bool) (e en : Entry) (ok : Bool) : r.status = 304 → stored = some e →
      clientPreconditionForwarded req.header e.resp.header = false →
      (parseCC req.header).noStore = false → (parseCC r.header).noStore = false →
      en.resp.status = e.resp.status → en.resp.body = e.resp.body →
      canStoreResponse en.resp (parseCC req.header) (parseCC en.resp.header) = true →
      WritesAfter req key stored (.resp r t1 b) [.setEntry e.id en ok]
  /-- 304 (as above) that CHANGES the Vary field of the stored response: the stored response, with the
      merged fields, same status and body, is stored anew like a full reply — under the identifier of what
      it now varies on, with its reference in the index — instead of being written back under the old one -/
  | restore (r : Resp) (t1 : Int) (b : Bool) (e : Entry) (merged : Resp) (post : List Step) : r.status = 304 → stored = some e →
      clientPreconditionForwarded req.header e.resp.header = false →
      (parseCC req.header).noStore = false → (parseCC r.header).noStore = false →
      merged.status = e.resp.status → merged.body = e.resp.body →
      canStoreResponse merged (parseCC req.header) (parseCC merged.header) = true →
      joinWith [',', ' '] (Header.values merged.header sVary) ≠ joinWith [',', ' '] (Header.values e.resp.header sVary) →
      StoreWrites merged true key post →
      WritesAfter req key stored (.resp r t1 b) post
  /-- a storable full reply: entry (and, if that succeeded, index) -/
  | store (r : Resp) (t1 : Int) (b : Bool) (post : List Step) : r.status ≠ 304 →
      canStoreResponse r (parseCC req.header) (parseCC r.header) = true → StoreWrites r b key post →
      WritesAfter req key stored (.resp r t1 b) post

theorem miss_writes (cfg : Cfg) (t0 : Int) (req : Req) (key : Str) (refs : List Ref) (ri : Option Nat)
    (tr : List Step) (r : Result) (h : Run (handleCacheMiss cfg t0 req key refs ri) tr r) :
    tr = [] ∨ ∃ ans post, tr = Step.origin req.method req.header none ans :: post ∧
      WritesAfter req key none (fixAns cfg ans) post := by
  unfold handleCacheMiss at h
  simp only [] at h
  split at h
  · cases h; exact Or.inl rfl
  · cases h with
    | origin ans h1 =>
      right
      refine ⟨ans, _, rfl, ?_⟩
      dsimp only at h1
      split at h1
      · cases h1; rename_i heq; rw [heq]; exact .none _
      · rename_i rr t1 b heq
        rw [heq]
        split at h1
        · rename_i hc
          simp only [Bool.and_eq_true, decide_eq_true_eq, ne_eq] at hc
          obtain ⟨t1', t2', ht, hw, hk⟩ := storeResponse_trace _ _ _ _ _ _ _ _ _ _ _ _ h1
          cases hk
          simp only [List.append_nil] at ht
          subst ht
          exact .store _ _ _ _ hc.1 hc.2 hw
        · cases h1; exact .none _

theorem validation_writes (cfg : Cfg) (req : Req) (key : Str) (stored : Entry) (refs : List Ref)
    (ri : Option Nat) (f : Freshness) (mv : Bool) (start : Int) (ans : OriginAns)
    (tr : List Step) (res : Result)
    (h : Run (handleValidation cfg sGET req.header key stored refs ri f (parseCC req.header) mv start ans (fun r => .ret r)) tr res) :
    WritesAfter req key (some stored) ans tr := by
  unfold handleValidation at h
  simp only [] at h
  split at h
  · split at h <;> (cases h; exact .none _)
  · rename_i r t1 bodyOk
    split at h
    · rename_i h304
      simp only [Bool.and_eq_true, decide_eq_true_eq, Bool.not_eq_true'] at h304
      split at h
      · cases h; exact .none _
      · rename_i hw
        simp only [Bool.or_eq_true, not_or, Bool.not_eq_true, Bool.not_eq_eq_eq_not, Bool.not_true] at hw
        have hcs := (Bool.not_eq_false _).mp hw.2
        split at h
        · rename_i hv
          obtain ⟨t1', t2', ht, hsw, hk⟩ := storeResponse_trace _ _ _ _ _ _ _ _ _ _ _ _ h
          cases hk
          simp only [List.append_nil] at ht
          subst ht
          exact .restore _ _ _ stored (respWith stored.resp (updateStoredHeaders (Header.del stored.resp.header sAge) r.header)) _
            h304.1.2 rfl h304.2 hw.1.1.2 hw.1.2 rfl rfl hcs (by simpa [respWith] using hv) hsw
        · cases h with
          | setEntry ok h1 => cases h1; exact .freshen _ _ _ stored _ _ h304.1.2 rfl h304.2 hw.1.1.2 hw.1.2 rfl rfl hcs
    · rename_i hn304
      split at h
      · cases h; exact .none _
      · split at h
        · rename_i hc
          obtain ⟨t1', t2', ht, hw, hk⟩ := storeResponse_trace _ _ _ _ _ _ _ _ _ _ _ _ h
          cases hk
          simp only [List.append_nil] at ht
          subst ht
          simp only [Bool.and_eq_true, decide_eq_true_eq, ne_eq] at hc
          exact .store _ _ _ _ hc.1 hc.2 hw
        · cases h; exact .none _


theorem sat_sat_add {a b : Int} (ha : 0 ≤ a) (hb : 0 ≤ b) : sat (sat a + b) = sat (a + b) := by
  unfold sat maxI64 minI64; split <;> split <;> (try split) <;> (try split) <;> omega

/-- the RFC age at a later instant is at most the age at the earlier one plus the elapsed time -/
theorem spec_age_step (p : Str → Option Int) (s : Spec.Stored) (t0 t1 : Int) (h : t0 ≤ t1) :
    Spec.currentAge p s t1 ≤ satAdd (Spec.currentAge p s t0) (satSub t1 t0) := by
  unfold Spec.currentAge
  simp only []
  generalize hI : (max (match Spec.httpTime p s.header sDate with
      | some d => max 0 (sat (s.responseTime - d))
      | none => maxI64) (sat ((Spec.deltaSeconds (firstListMember (Header.values s.header sAge))).getD 0 + max 0 (sat (s.responseTime - s.requestTime))))) = I
  have hI0 : 0 ≤ I := by
    rw [← hI]
    have h2 : 0 ≤ (match Spec.httpTime p s.header sDate with
      | some d => max 0 (sat (s.responseTime - d))
      | none => maxI64) := by
      split
      · exact Int.le_max_left _ _
      · unfold maxI64; omega
    exact Int.le_trans h2 (Int.le_max_left _ _)
  unfold satAdd satSub
  have hd : 0 ≤ sat (t1 - t0) := sat_nonneg (by omega)
  have hr0 : 0 ≤ max 0 (sat (t0 - s.responseTime)) := Int.le_max_left _ _
  rw [sat_sat_add (by omega) hd]
  apply sat_mono
  have h1 : max 0 (sat (t1 - s.responseTime)) ≤ max 0 (sat (t0 - s.responseTime)) + sat (t1 - t0) := by
    simp only [Int.max_def]
    unfold sat maxI64 minI64
    repeat' split
    all_goals omega
  omega

/-- stale-if-error soundness: when the model's policy says yes, one of the two permitted sources
    (stored response, request) carries stale-if-error = N and the stored response is inside that
    window by the RFC definitions at the instant of the failure -/
theorem sie_sound_gen (g : Glue) (t0 t1 : Int) (e : Entry) (reqH : Header) (f : Freshness) (hle : t0 ≤ t1)
    (hs : e.resp.status ≠ 304) (hT : TimesOK e)
    (ha : f.ageValue = currentAge g t0 e) (hts : f.ageTimestamp = t0)
    (hrl : f.usefulLife ≤ responseLifetime g e (parseCC e.resp.header))
    (h : canStaleOnError f t1 [parseCC e.resp.header, parseCC reqH] = true) :
    ∃ n, (Spec.directiveSeconds modelReader e.resp.header (str% "stale-if-error") = some n ∨
          Spec.directiveSeconds modelReader reqH (str% "stale-if-error") = some n) ∧
      Spec.withinWindow modelReader g.parseTime (Spec.storedOfEntry e) t1 n = true := by
  unfold canStaleOnError at h
  rw [ha, hts] at h
  simp only [List.any_cons, List.any_nil, Bool.or_false, Bool.or_eq_true] at h
  have core : ∀ dur, satAdd (currentAge g t0 e) (satSub t1 t0) <
        satAdd f.usefulLife dur →
      Spec.withinWindow modelReader g.parseTime (Spec.storedOfEntry e) t1 dur = true := by
    intro dur hlt
    unfold Spec.withinWindow
    simp only [decide_eq_true_eq]
    have hstep := spec_age_step g.parseTime (Spec.storedOfEntry e) t0 t1 hle
    rw [← age_eq g t0 e hT] at hstep
    cases hd : Spec.httpTime g.parseTime e.resp.header sDate with
    | none =>
      exfalso
      have hmax := age_max_of_no_date g t0 e hT hd
      rw [hmax] at hlt
      have h1 : satAdd maxI64 (satSub t1 t0) = maxI64 := by
        unfold satAdd; apply sat_of_ge_max
        have : 0 ≤ satSub t1 t0 := by unfold satSub; exact sat_nonneg (by omega)
        omega
      rw [h1] at hlt
      have h2 := sat_le_max (f.usefulLife + dur)
      unfold satAdd at hlt; omega
    | some d =>
      have hlife := life_le g e hs d hd
      have : satAdd f.usefulLife dur ≤
          sat (Spec.freshnessLifetime modelReader g.parseTime (Spec.storedOfEntry e) + dur) := by
        unfold satAdd; exact sat_mono (by omega)
      omega
  cases h with
  | inl h1 =>
    cases hd : (parseCC e.resp.header).staleIfError with
    | none => simp [hd] at h1
    | some dur =>
      simp only [hd, decide_eq_true_eq] at h1
      exact ⟨dur, Or.inl (by rw [seconds_eq]; exact hd), core dur h1⟩
  | inr h2 =>
    cases hd : (parseCC reqH).staleIfError with
    | none => simp [hd] at h2
    | some dur =>
      simp only [hd, decide_eq_true_eq] at h2
      exact ⟨dur, Or.inr (by rw [seconds_eq]; exact hd), core dur h2⟩


theorem sie_sound (g : Glue) (t0 t1 : Int) (e : Entry) (reqH : Header) (hle : t0 ≤ t1)
    (hs : e.resp.status ≠ 304) (hT : TimesOK e) (h0 : (parseCC reqH).maxAge ≠ some 0)
    (h : canStaleOnError (calculateFreshness g t0 e (parseCC reqH) (parseCC e.resp.header)) t1
          [parseCC e.resp.header, parseCC reqH] = true) :
    ∃ n, (Spec.directiveSeconds modelReader e.resp.header (str% "stale-if-error") = some n ∨
          Spec.directiveSeconds modelReader reqH (str% "stale-if-error") = some n) ∧
      Spec.withinWindow modelReader g.parseTime (Spec.storedOfEntry e) t1 n = true := by
  obtain ⟨ha, hts, hl⟩ := calc_fields g t0 e (parseCC reqH) (parseCC e.resp.header) h0
  exact sie_sound_gen g t0 t1 e reqH _ hle hs hT ha hts
    (by rw [hl]; exact requestLifetime_le _ _) h

theorem age_ne_status : sAge ≠ sStatusHeader := by decide
theorem age_ne_fromCache : sAge ≠ sFromCache := by decide

/-- a response served from the store without validation carries exactly one Age, exactly one
    cache status and X-From-Cache = 1 -/
theorem servedHeader_fields (s : CacheStatus) (hs : s.fromCache = true) (f : Freshness) (now : Int) (h : Header) (cc : Directives) :
    Header.values (servedHeader s f now h cc) sStatusHeader = [s.value] ∧
    Header.values (servedHeader s f now h cc) sFromCache = [['1']] ∧
    Header.values (servedHeader s f now h cc) sAge = [intToStr (ageSeconds f now)] := by
  unfold servedHeader applyStatus setAgeHeader
  simp only [hs, ↓reduceIte]
  refine ⟨?_, ?_, ?_⟩
  · rw [Header.values_set_other _ _ _ _ (Ne.symm statusHeader_ne_fromCache), Header.values_set_self]
  · rw [Header.values_set_self]
  · rw [Header.values_set_other _ _ _ _ (Ne.symm age_ne_fromCache), Header.values_set_other _ _ _ _ (Ne.symm age_ne_status),
        Header.values_set_self]

/-- a response that is not served from the store carries exactly one cache status and no
    X-From-Cache, whatever the origin sent -/
theorem originHeader_fields (s : CacheStatus) (hs : s.fromCache = false) (h : Header) :
    Header.values (applyStatus s h) sStatusHeader = [s.value] ∧ Header.values (applyStatus s h) sFromCache = [] := by
  unfold applyStatus
  simp only [hs, Bool.false_eq_true, ↓reduceIte]
  refine ⟨?_, ?_⟩
  · rw [Header.values_del_other _ _ _ (Ne.symm statusHeader_ne_fromCache), Header.values_set_self]
  · rw [Header.values_del_self]

/-- on a HIT (decision instant = serving instant) the Age field is the RFC 9111 §4.2.3 age in
    whole seconds -/
theorem hit_age_is_rfc_age (g : Glue) (t0 : Int) (e : Entry) (reqCC : Directives) (hT : TimesOK e)
    (h0 : reqCC.maxAge ≠ some 0) :
    ageSeconds (calculateFreshness g t0 e reqCC (parseCC e.resp.header)) t0 =
      Spec.currentAge g.parseTime (Spec.storedOfEntry e) t0 / nsPerSec := by
  obtain ⟨ha, hts, _⟩ := calc_fields g t0 e reqCC (parseCC e.resp.header) h0
  unfold ageSeconds
  rw [ha, hts]
  have hsub : satSub t0 t0 = 0 := by unfold satSub sat maxI64 minI64; simp
  rw [hsub]
  have hid : satAdd (currentAge g t0 e) 0 = currentAge g t0 e := by
    unfold satAdd; rw [Int.add_zero]; exact sat_id (currentAge_ge_min _ _ _) (currentAge_le_max _ _ _)
  rw [hid, ← age_eq g t0 e hT]
  have : 0 ≤ currentAge g t0 e := by
    unfold currentAge
    apply satAdd_nonneg
    · exact Int.le_trans (Int.le_max_right _ _) (Int.le_max_left _ _)
    · exact Int.le_max_right _ _
  rw [Int.max_eq_left this]


end Httpcache
