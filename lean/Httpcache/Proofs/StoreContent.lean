import Httpcache.Proofs.Validation
/-
C06 at the level of histories: WHAT the store holds. Every stored response has a final status that is neither
206 nor 304 — in every state of the store that any sequence of foreground exchanges and background
revalidations can produce, whatever the origin answers, as long as the store returns what it holds.

"Good in ⇒ good out" per program (every entry the program reads is good ⇒ every entry it writes is good), for
the foreground exchange and for the background revalidation; then an induction over histories.
-/
namespace Httpcache

/-- a final status that is not a partial response and not a 304 -/
def GoodStatus (n : Nat) : Prop := 200 ≤ n ∧ n < 600 ∧ n ≠ 206 ∧ n ≠ 304

theorem canStore_good (r : Resp) (a b : Directives) (h304 : r.status ≠ 304)
    (hc : canStoreResponse r a b = true) : GoodStatus r.status := by
  unfold canStoreResponse at hc
  split at hc
  · cases hc
  · rename_i h1
    split at hc
    · cases hc
    · rename_i h2
      simp only [Bool.or_eq_true, decide_eq_true_eq, not_or, Nat.not_lt, Bool.and_eq_true, Bool.not_eq_true',
        not_and, Bool.not_eq_false] at h1 h2
      refine ⟨h1.1.1, by omega, ?_, h304⟩
      intro h206
      have := h2 (Or.inl (Or.inl h206))
      rw [h206] at this
      revert this
      decide

theorem storeWrites_good (r : Resp) (b : Bool) (key : Str) (tr : List Step) (h : StoreWrites r b key tr)
    (hg : GoodStatus r.status) : ∀ id en ok, Step.setEntry id en ok ∈ tr → GoodStatus en.resp.status := by
  intro id en ok hm
  cases h with
  | none _ => cases hm
  | entryFailed id' en' hb he =>
    simp only [List.mem_singleton, Step.setEntry.injEq] at hm
    obtain ⟨_, he2, _⟩ := hm
    subst he2; rw [he]; exact hg
  | stored id' en' refs ok' hb he _ =>
    simp only [List.mem_cons, Step.setEntry.injEq, reduceCtorEq, List.not_mem_nil, or_false] at hm
    obtain ⟨_, he2, _⟩ := hm
    subst he2; rw [he]; exact hg
  | storedDropping id' en' refs old hb he _ _ =>
    simp only [List.mem_cons, Step.setEntry.injEq, reduceCtorEq, List.not_mem_nil, or_false] at hm
    obtain ⟨_, he2, _⟩ := hm
    subst he2; rw [he]; exact hg

/-- HandleValidationResponse, with ANY continuation that writes no entry (the foreground returns the result,
    the background discards it): if the entry under validation is good, every entry written is good -/
theorem handleValidation_good (cfg : Cfg) (method : Str) (reqH : Header) (key : Str) (stored : Entry) (refs : List Ref)
    (ri : Option Nat) (f : Freshness) (ccReq : Directives) (mv : Bool) (start : Int) (ans : OriginAns)
    (k : Result → Prog) (hk : ∀ r tr res, Run (k r) tr res → ∀ id en ok, Step.setEntry id en ok ∉ tr)
    (tr : List Step) (res : Result)
    (h : Run (handleValidation cfg method reqH key stored refs ri f ccReq mv start ans k) tr res)
    (hg : GoodStatus stored.resp.status) :
    ∀ id en ok, Step.setEntry id en ok ∈ tr → GoodStatus en.resp.status := by
  intro id en ok hm
  unfold handleValidation at h
  simp only [] at h
  split at h
  · split at h <;> exact absurd hm (hk _ _ _ h _ _ _)
  · rename_i r t1 bodyOk
    split at h
    · split at h
      · exact absurd hm (hk _ _ _ h _ _ _)
      · split at h
        · obtain ⟨tr1, tr2, ht, hw, hk2⟩ := storeResponse_trace _ _ _ _ _ _ _ _ _ _ _ _ h
          rw [ht] at hm
          rcases List.mem_append.mp hm with hm | hm
          · exact storeWrites_good _ _ _ _ hw hg _ _ _ hm
          · exact absurd hm (hk _ _ _ hk2 _ _ _)
        · cases h with
          | setEntry ok' h1 =>
            rcases List.mem_cons.mp hm with e | e
            · simp only [Step.setEntry.injEq] at e
              rw [e.2.1]; exact hg
            · exact absurd e (hk _ _ _ h1 _ _ _)
    · split at h
      · exact absurd hm (hk _ _ _ h _ _ _)
      · split at h
        · rename_i hc
          simp only [Bool.and_eq_true, decide_eq_true_eq, ne_eq] at hc
          obtain ⟨tr1, tr2, ht, hw, hk2⟩ := storeResponse_trace _ _ _ _ _ _ _ _ _ _ _ _ h
          rw [ht] at hm
          rcases List.mem_append.mp hm with hm | hm
          · exact storeWrites_good _ _ _ _ hw (canStore_good _ _ _ hc.1 hc.2) _ _ _ hm
          · exact absurd hm (hk _ _ _ hk2 _ _ _)
        · exact absurd hm (hk _ _ _ h _ _ _)

theorem ret_writes_nothing (g : Result → Result) : ∀ (r : Result) (tr : List Step) (res : Result),
    Run ((fun r => Prog.ret (g r)) r) tr res → ∀ id en ok, Step.setEntry id en ok ∉ tr := by
  intro r tr res h id en ok hm
  cases h; cases hm

/-- the status of an entry survives decoding (`parsedEntry` only drops the Connection field) -/
theorem parsedEntry_status (e : Entry) : (parsedEntry e).resp.status = e.resp.status := rfl

/-- the background revalidation: good in ⇒ good out -/
theorem background_good (cfg : Cfg) (method : Str) (condH clientH : Header) (key : Str) (stored : Entry)
    (f : Freshness) (ccReq : Directives) (start : Int) (tr : List Step) (res : Result)
    (h : Run (backgroundRevalidate cfg method condH clientH key stored f ccReq start) tr res)
    (hread : ∀ id e0, Step.getEntry id (some e0) ∈ tr → GoodStatus e0.resp.status) :
    ∀ id en ok, Step.setEntry id en ok ∈ tr → GoodStatus en.resp.status := by
  intro id en ok hm
  unfold backgroundRevalidate at h
  cases h with
  | origin ans h1 =>
    dsimp only at h1
    rcases List.mem_cons.mp hm with e | hm
    · cases e
    split at h1
    · cases h1; simp at hm
    · cases h1 with
      | getRefs a h2 =>
        dsimp only at h2
        rcases List.mem_cons.mp hm with e | hm
        · cases e
        split at h2
        · cases h2; simp at hm
        · split at h2
          · cases h2; simp at hm
          · cases h2 with
            | getEntry a2 h3 =>
              dsimp only at h3
              rcases List.mem_cons.mp hm with e | hm
              · cases e
              split at h3
              · cases h3; simp at hm
              · split at h3
                · cases h3; simp at hm
                · have hg := hread _ _ (List.mem_cons_of_mem _ (List.mem_cons_of_mem _ List.mem_cons_self))
                  exact handleValidation_good _ _ _ _ _ _ _ _ _ _ _ _ _ (ret_writes_nothing (fun _ => .done)) _ _ h3
                    (by rw [parsedEntry_status]; exact hg) _ _ _ (by simpa using hm)

/-- the foreground exchange: good in ⇒ good out -/
theorem foreground_good (cfg : Cfg) (t0 : Int) (req : Req) (tr : List Step) (r : Result)
    (h : Run (roundTrip cfg t0 req) tr r)
    (hread : ∀ id e0, Step.getEntry id (some e0) ∈ tr → GoodStatus e0.resp.status) :
    ∀ id en ok, Step.setEntry id en ok ∈ tr → GoodStatus en.resp.status := by
  intro id en ok hm
  cases roundTrip_paths cfg t0 req tr r h with
  | bypass hu hrun =>
    have := bypass_no_write _ _ _ _ _ hrun
    exfalso
    have hw : wrote tr = true := List.any_eq_true.mpr ⟨_, hm, rfl⟩
    rw [this] at hw; cases hw
  | miss pre tr1 refs ri hu hpre heq hrun =>
    rw [heq] at hm
    rcases List.mem_append.mp hm with hm | hm
    · have := List.all_eq_true.mp hpre _ hm
      simp [Step.isRead] at this
    · rcases miss_writes _ _ _ _ _ _ _ _ hrun with h0 | ⟨ans, post, h0, hwa⟩
      · rw [h0] at hm; cases hm
      · rw [h0] at hm
        rcases List.mem_cons.mp hm with e | e
        · cases e
        · generalize fixAns cfg ans = fa at hwa
          cases hwa with
          | none _ => cases e
          | store rr t1 b post' h304 hc hsw => exact storeWrites_good _ _ _ _ hsw (canStore_good _ _ _ h304 hc) _ _ _ e
          | freshen _ _ _ _ _ _ _ hst => cases hst
          | restore _ _ _ _ _ _ _ hst => cases hst
  | hit refs sorted i e0 tr2 hu hvm heq hrun =>
    rw [heq] at hm hread
    rcases List.mem_cons.mp hm with e | hm
    · cases e
    rcases List.mem_cons.mp hm with e | hm
    · cases e
    have hg : GoodStatus (parsedEntry e0).resp.status := by
      rw [parsedEntry_status]
      exact hread _ e0 (List.mem_cons_of_mem _ List.mem_cons_self)
    -- the hit path: no origin call (then no write), or the validation
    unfold handleCacheHit at hrun
    simp only [] at hrun
    have reval : ∀ f mv trx, Run (revalidateProg cfg t0 req (parsedEntry e0) (makeURLKey req) sorted i f (parseCC req.header) mv) trx r →
        Step.setEntry id en ok ∈ trx → GoodStatus en.resp.status := by
      intro f mv trx hx hmx
      unfold revalidateProg at hx
      cases hx with
      | origin ans h1 =>
        rcases List.mem_cons.mp hmx with e | hmx
        · cases e
        exact handleValidation_good _ _ _ _ _ _ _ _ _ _ _ _ _ (ret_writes_nothing (fun x => x)) _ _ h1 hg _ _ _ hmx
    split at hrun
    · split at hrun
      · cases hrun; cases hm
      · exact reval _ _ _ hrun hm
    · split at hrun
      · cases hrun; cases hm
      · split at hrun
        · cases hrun; cases hm
        · split at hrun
          · split at hrun
            · cases hrun with
              | spawn h' => cases h'; simp at hm
            · exact reval _ _ _ hrun hm
          · exact reval _ _ _ hrun hm

/-! ### every reachable store -/

/-- the store as a map from entry keys to entries; writes that succeed take effect, deletes remove -/
def applyEntryStep (kv : Str → Option Entry) : Step → (Str → Option Entry)
  | .setEntry id en true => fun k => if k = id then some en else kv k
  | .delete id => fun k => if k = id then none else kv k
  | _ => kv

def applyEntryTrace (kv : Str → Option Entry) (tr : List Step) : Str → Option Entry := tr.foldl applyEntryStep kv

/-- every entry a program reads successfully is what the store held when the program started (reads precede
    writes in both programs) -/
def ReadsFrom (kv : Str → Option Entry) (tr : List Step) : Prop :=
  ∀ id e0, Step.getEntry id (some e0) ∈ tr → kv id = some e0

/-- the states of the entry store in ANY history: empty; after a foreground exchange; after a background
    revalidation — for any requests, clocks, origin answers, and any failures of individual writes -/
inductive ReachableEntries : (Str → Option Entry) → Prop where
  | empty : ReachableEntries (fun _ => none)
  | foreground {kv} (cfg : Cfg) (t0 : Int) (req : Req) (tr : List Step) (r : Result) : ReachableEntries kv →
      Run (roundTrip cfg t0 req) tr r → ReadsFrom kv tr → ReachableEntries (applyEntryTrace kv tr)
  | background {kv} (cfg : Cfg) (method : Str) (condH clientH : Header) (key : Str) (stored : Entry)
      (f : Freshness) (ccReq : Directives) (start : Int) (tr : List Step) (res : Result) : ReachableEntries kv →
      Run (backgroundRevalidate cfg method condH clientH key stored f ccReq start) tr res → ReadsFrom kv tr →
      ReachableEntries (applyEntryTrace kv tr)

theorem applyEntryTrace_good (tr : List Step) : ∀ (kv : Str → Option Entry),
    (∀ k e, kv k = some e → GoodStatus e.resp.status) →
    (∀ id en ok, Step.setEntry id en ok ∈ tr → GoodStatus en.resp.status) →
    ∀ k e, applyEntryTrace kv tr k = some e → GoodStatus e.resp.status := by
  induction tr with
  | nil => intro kv hkv _ k e h; exact hkv k e h
  | cons st tr ih =>
    intro kv hkv hw k e h
    simp only [applyEntryTrace, List.foldl_cons] at h
    apply ih (applyEntryStep kv st) ?_ (fun id en ok hm => hw id en ok (List.mem_cons_of_mem _ hm)) k e h
    intro k' e' h'
    cases st with
    | setEntry id en ok =>
      cases ok with
      | false => exact hkv k' e' h'
      | true =>
        simp only [applyEntryStep] at h'
        by_cases hk : k' = id
        · simp only [hk, ↓reduceIte, Option.some.injEq] at h'
          rw [← h']; exact hw id en true List.mem_cons_self
        · simp only [hk, ↓reduceIte] at h'; exact hkv k' e' h'
    | delete id =>
      simp only [applyEntryStep] at h'
      by_cases hk : k' = id
      · simp [hk] at h'
      · simp only [hk, ↓reduceIte] at h'; exact hkv k' e' h'
    | getRefs _ _ => exact hkv k' e' h'
    | getEntry _ _ => exact hkv k' e' h'
    | setRefs _ _ _ => exact hkv k' e' h'
    | origin _ _ _ _ => exact hkv k' e' h'
    | spawn _ => exact hkv k' e' h'

theorem reachable_entries_good (kv : Str → Option Entry) (h : ReachableEntries kv) :
    ∀ k e, kv k = some e → GoodStatus e.resp.status := by
  induction h with
  | empty => intro k e h; cases h
  | foreground cfg t0 req tr r _ hrun hreads ih =>
    apply applyEntryTrace_good tr _ ih
    exact foreground_good cfg t0 req tr r hrun (fun id e0 hm => ih id e0 (hreads id e0 hm))
  | background cfg method condH clientH key stored f ccReq start tr res _ hrun hreads ih =>
    apply applyEntryTrace_good tr _ ih
    exact background_good cfg method condH clientH key stored f ccReq start tr res hrun
      (fun id e0 hm => ih id e0 (hreads id e0 hm))

end Httpcache
