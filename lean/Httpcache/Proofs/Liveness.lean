import Httpcache.Proofs.Store
/- Liveness: lifetime and age of the model EQUAL the RFC ones (not only bound them), and what follows:
   fresh responses are served (C09), stale-if-error serves inside its window (C13). -/
namespace Httpcache

/-- for a response with a usable Date whose status is one the cache treats as heuristically cacheable
    whenever RFC 9110 does, the model's lifetime IS the RFC lifetime (not only a lower bound) -/
theorem life_eq (g : Glue) (e : Entry) (hs : e.resp.status ≠ 304) (d : Int)
    (hd : Spec.httpTime g.parseTime e.resp.header sDate = some d)
    (hdoc : Spec.heuristicallyCacheable.contains e.resp.status = true → isHeuristicStatus e.resp.status = true) :
    responseLifetime g e (parseCC e.resp.header) =
      Spec.freshnessLifetime modelReader g.parseTime (Spec.storedOfEntry e) := by
  unfold responseLifetime Spec.freshnessLifetime
  simp only [Spec.storedOfEntry, has_eq, seconds_eq, Directives.maxAgePresent, Directives.maxAge]
  by_cases hm : (parseCC e.resp.header).has (str% "max-age") = true
  · simp [hm]
  · simp only [hm, Bool.false_eq_true, ↓reduceIte]
    by_cases he : Header.has e.resp.header sExpires = true
    · simp only [he, Bool.not_true, Bool.false_eq_true, ↓reduceIte, timeOf_eq, hd]
      cases hx : Spec.httpTime g.parseTime e.resp.header sExpires with
      | none => simp
      | some t =>
        simp only [dateHeader, timeOf_eq, hd, Option.getD_some, satSub]
        split
        · have : 0 ≤ sat (t - d) := sat_nonneg (by omega)
          omega
        · have : sat (t - d) ≤ 0 := by
            have := sat_mono (show t - d ≤ 0 by omega)
            simpa [sat, minI64, maxI64] using this
          omega
    · simp only [he, Bool.not_false, ↓reduceIte, Bool.false_eq_true]
      by_cases hh : (isHeuristicStatus e.resp.status || (parseCC e.resp.header).isPublic) = true
      · have hspec : (Spec.heuristicallyCacheable.contains e.resp.status || (parseCC e.resp.header).has (str% "public")) = true := by
          simp only [Bool.or_eq_true] at hh ⊢
          cases hh with
          | inl h =>
            left
            have := heuristic_table_sub e.resp.status (by simpa [isHeuristicStatus] using h)
            cases this with
            | inl h304 => exact absurd h304 hs
            | inr hin => simpa using hin
          | inr h => right; simpa [Directives.isPublic] using h
        simp only [hh, hspec, ↓reduceIte, heuristicFreshness, timeOf_eq, dateHeader, hd, Option.getD_some, satSub]
        cases hl : Spec.httpTime g.parseTime e.resp.header sLastModified with
        | none => simp
        | some lm =>
          simp only []
          split
          · have : 0 ≤ sat (d - lm) := sat_nonneg (by omega)
            have h2 : max 0 (sat (d - lm)) = sat (d - lm) := by omega
            rw [h2]
          · have : sat (d - lm) ≤ 0 := by
              have := sat_mono (show d - lm ≤ 0 by omega)
              simpa [sat, minI64, maxI64] using this
            have h2 : max 0 (sat (d - lm)) = 0 := by omega
            rw [h2]; rfl
      · have hspec : (Spec.heuristicallyCacheable.contains e.resp.status || (parseCC e.resp.header).has (str% "public")) = false := by
          simp only [Bool.or_eq_true, not_or, Bool.not_eq_true] at hh
          cases hc : Spec.heuristicallyCacheable.contains e.resp.status with
          | true => rw [hdoc hc] at hh; exact absurd hh.1 (by simp)
          | false => simpa [Directives.isPublic] using hh.2
        simp only [hh, hspec, Bool.false_eq_true, ↓reduceIte]

/-- once the entry is in the store (request not earlier than the response), the RFC age advances
    exactly with the clock, saturating -/
theorem spec_age_step_eq (p : Str → Option Int) (s : Spec.Stored) (t0 t1 : Int) (h : t0 ≤ t1) (hr : s.responseTime ≤ t0) :
    Spec.currentAge p s t1 = satAdd (Spec.currentAge p s t0) (satSub t1 t0) := by
  unfold Spec.currentAge
  simp only []
  generalize hI : (max (match Spec.httpTime p s.header sDate with
      | some d => max 0 (sat (s.responseTime - d))
      | none => maxI64) (sat ((Spec.deltaSeconds (firstListMember (Header.values s.header sAge))).getD 0 + max 0 (sat (s.responseTime - s.requestTime))))) = I
  have hI0 : 0 ≤ I := by
    rw [← hI]
    have h2 : 0 ≤ (match Spec.httpTime p s.header sDate with
      | some d => max 0 (sat (s.responseTime - d))
      | none => maxI64) := by
      split
      · exact Int.le_max_left _ _
      · unfold maxI64; omega
    exact Int.le_trans h2 (Int.le_max_left _ _)
  have sat_nn : ∀ x : Int, 0 ≤ x → sat x = min x maxI64 := by
    intro x hx; unfold sat maxI64 minI64; split <;> (try split) <;> omega
  unfold satAdd satSub
  have hd : 0 ≤ sat (t1 - t0) := sat_nonneg (by omega)
  rw [sat_sat_add (by omega) hd]
  rw [sat_nn (t1 - t0) (by omega), sat_nn (t1 - s.responseTime) (by omega), sat_nn (t0 - s.responseTime) (by omega)]
  have hm : (0:Int) ≤ maxI64 := by unfold maxI64; omega
  rw [sat_nn _ (by omega), sat_nn _ (by omega)]
  omega

/-- C09 core, any kind of lifetime: a plain GET without Cache-Control whose index lookup matches and whose
    entry read succeeds is answered from the store without contacting the origin whenever the stored
    response is fresh BY THE RFC DEFINITIONS (explicit max-age, Expires, or heuristic) -/
theorem fresh_hits (cfg : Cfg) (t0 : Int) (req : Req) (e : Entry) (key : Str) (refs : List Ref) (i : Nat)
    (hcc : parseCC req.header = []) (hT : TimesOK e) (hs : e.resp.status ≠ 304) (d : Int)
    (hd : Spec.httpTime cfg.glue.parseTime e.resp.header sDate = some d)
    (hdoc : Spec.heuristicallyCacheable.contains e.resp.status = true → isHeuristicStatus e.resp.status = true)
    (hncu : (parseCC e.resp.header).noCacheUnqualified = false)
    (hfresh : Spec.isFresh modelReader cfg.glue.parseTime (Spec.storedOfEntry e) t0 = true)
    (tr : List Step) (r : Result) (h : Run (handleCacheHit cfg t0 req e key refs i) tr r) :
    tr = [] ∧ ∃ f, r = .resp (serveFromCache f t0 e (parseCC e.resp.header)) := by
  have hst : (calculateFreshness cfg.glue t0 e [] (parseCC e.resp.header)).isStale = false := by
    rw [calc_no_req_cc, life_eq cfg.glue e hs d hd hdoc, age_eq cfg.glue t0 e hT]
    unfold Spec.isFresh at hfresh
    simp only [decide_eq_true_eq] at hfresh
    simp; omega
  unfold handleCacheHit at h
  rw [hcc] at h
  have htf : transportFreshness cfg.glue t0 e [] (parseCC e.resp.header) =
      (calculateFreshness cfg.glue t0 e [] (parseCC e.resp.header), false) := rfl
  simp only [htf] at h
  have hmv : mustValidateOf (calculateFreshness cfg.glue t0 e [] (parseCC e.resp.header)) [] (parseCC e.resp.header) = false := by
    unfold mustValidateOf
    rw [hst, hncu]; rfl
  simp only [hmv, Bool.or_self, Bool.false_eq_true, ↓reduceIte, hst, Bool.not_false, Bool.true_and] at h
  have hnc : Directives.noCache [] = false := rfl
  have hoic : Directives.onlyIfCached [] = false := rfl
  simp only [hnc, hoic, Bool.not_false, Bool.and_true, Bool.or_true, ↓reduceIte] at h
  split at h <;> (cases h; exact ⟨rfl, _, rfl⟩)

theorem alookup_filter_self {β} (k : Str) (m : List (Str × β)) :
    alookup k (m.filter (fun p => p.1 ≠ k)) = none := by
  induction m with
  | nil => rfl
  | cons p ps ih =>
    rw [List.filter_cons]
    by_cases hp : p.1 = k
    · have : decide (p.1 ≠ k) = false := by simp [hp]
      rw [this]; exact ih
    · have : decide (p.1 ≠ k) = true := by simp [hp]
      rw [this]
      obtain ⟨a, b⟩ := p
      simp only [↓reduceIte, alookup]
      simp only at hp
      simp only [hp, ↓reduceIte]
      exact ih

theorem maxAge_filter (cc : Directives) : Directives.maxAge (cc.filter (fun p => p.1 ≠ (str% "max-age"))) = none := by
  unfold Directives.maxAge Directives.dur
  rw [alookup_filter_self]; rfl

/-- whatever the request carries: the freshness the hit path works with has the age of the stored
    response and a lifetime that is never longer than the response's own -/
theorem transport_fields_le (g : Glue) (now : Int) (e : Entry) (reqCC resCC : Directives) :
    (transportFreshness g now e reqCC resCC).1.ageValue = currentAge g now e ∧
    (transportFreshness g now e reqCC resCC).1.ageTimestamp = now ∧
    (transportFreshness g now e reqCC resCC).1.usefulLife ≤ responseLifetime g e resCC := by
  unfold transportFreshness
  cases hm : reqCC.maxAge with
  | none =>
    simp only
    have h0 : reqCC.maxAge ≠ some 0 := by rw [hm]; simp
    obtain ⟨a, b, c⟩ := calc_fields g now e reqCC resCC h0
    exact ⟨a, b, by rw [c]; exact requestLifetime_le _ _⟩
  | some m =>
    simp only
    split
    · rename_i hc
      simp only [Bool.and_eq_true, decide_eq_true_eq, ne_eq] at hc
      have h0 : reqCC.maxAge ≠ some 0 := by rw [hm]; intro hh; cases hh; exact hc.1 rfl
      obtain ⟨a, b, c⟩ := calc_fields g now e reqCC resCC h0
      exact ⟨a, b, by rw [c]; exact requestLifetime_le _ _⟩
    · have h0 : Directives.maxAge (reqCC.filter (fun p => p.1 ≠ (str% "max-age"))) ≠ some 0 := by rw [maxAge_filter]; simp
      obtain ⟨a, b, c⟩ := calc_fields g now e _ resCC h0
      exact ⟨a, b, by rw [c]; exact requestLifetime_le _ _⟩

/-- what the hit path hands to the validation (roundtripper.go calculateFreshness) when the request
    carries no min-fresh and validation was reached because the response is stale or the request's
    max-age is exceeded: the age, and the response's OWN lifetime — whatever max-age the request carries -/
theorem transport_fields (g : Glue) (now : Int) (e : Entry) (reqCC resCC : Directives)
    (hmf : reqCC.minFresh = none)
    (h : (transportFreshness g now e reqCC resCC).2 = true ∨ (transportFreshness g now e reqCC resCC).1.isStale = true) :
    (transportFreshness g now e reqCC resCC).1.ageValue = currentAge g now e ∧
    (transportFreshness g now e reqCC resCC).1.ageTimestamp = now ∧
    (transportFreshness g now e reqCC resCC).1.usefulLife = responseLifetime g e resCC := by
  unfold transportFreshness at h ⊢
  cases hm : reqCC.maxAge with
  | none =>
    simp only [hm] at h ⊢
    have h0 : reqCC.maxAge ≠ some 0 := by rw [hm]; simp
    obtain ⟨a, b, c⟩ := calc_fields g now e reqCC resCC h0
    refine ⟨a, b, ?_⟩
    rw [c]; unfold requestLifetime; rw [hm]
  | some m =>
    simp only [hm] at h ⊢
    split
    · rename_i hc
      simp only [hc, ↓reduceIte] at h
      simp only [Bool.and_eq_true, decide_eq_true_eq, Bool.not_eq_true', ne_eq] at hc
      obtain ⟨hm0, hc⟩ := hc
      have h0 : reqCC.maxAge ≠ some 0 := by rw [hm]; intro hh; cases hh; exact hm0 rfl
      obtain ⟨a, b, c⟩ := calc_fields g now e reqCC resCC h0
      refine ⟨a, b, ?_⟩
      rcases h with h | h
      · cases h
      · -- stale, yet not "stale and age ≥ m": age < m; stale without min-fresh: age ≥ min(life, m)
        rw [h] at hc
        simp only [Bool.true_and, decide_eq_false_iff_not, Int.not_le] at hc
        rw [a] at hc
        rw [c]
        unfold calculateFreshness at h
        simp only [h0, ↓reduceIte] at h
        have hmfs : minFreshStale reqCC (requestLifetime (responseLifetime g e resCC) reqCC) (currentAge g now e) = false := by
          unfold minFreshStale; rw [hmf]
        simp only [hmfs, Bool.false_eq_true, ↓reduceIte] at h
        unfold staleAfterMaxStale at h
        have hge : currentAge g now e ≥ requestLifetime (responseLifetime g e resCC) reqCC := by
          split at h
          · cases h
          · simpa using h
        unfold requestLifetime at hge ⊢
        rw [hm] at hge ⊢
        simp only at hge ⊢
        split at hge
        · rename_i hpos; simp only [hpos, ↓reduceIte]; omega
        · rename_i hpos; simp only [hpos, ↓reduceIte]
    · have h0 : Directives.maxAge (reqCC.filter (fun p => p.1 ≠ (str% "max-age"))) ≠ some 0 := by rw [maxAge_filter]; simp
      obtain ⟨a, b, c⟩ := calc_fields g now e _ resCC h0
      refine ⟨a, b, ?_⟩
      rw [c]; unfold requestLifetime; rw [maxAge_filter]

/-- stale-if-error completeness: when one of the two permitted sources carries stale-if-error = N, the
    request carries no min-fresh, validation was reached because the response is stale or the request's
    max-age (of ANY value) is exceeded, and the stored response is inside the window by the RFC
    definitions at the instant of the failure, the model's policy says yes -/
theorem sie_complete (g : Glue) (t0 t1 : Int) (e : Entry) (reqH : Header) (hle : t0 ≤ t1) (hrt : e.receivedAt ≤ t0)
    (hs : e.resp.status ≠ 304) (hT : TimesOK e) (hmf : (parseCC reqH).minFresh = none)
    (hreach : (transportFreshness g t0 e (parseCC reqH) (parseCC e.resp.header)).2 = true ∨
              (transportFreshness g t0 e (parseCC reqH) (parseCC e.resp.header)).1.isStale = true) (d : Int)
    (hd : Spec.httpTime g.parseTime e.resp.header sDate = some d)
    (hdoc : Spec.heuristicallyCacheable.contains e.resp.status = true → isHeuristicStatus e.resp.status = true)
    (n : Int) (hn : Spec.directiveSeconds modelReader e.resp.header (str% "stale-if-error") = some n ∨
          Spec.directiveSeconds modelReader reqH (str% "stale-if-error") = some n)
    (hw : Spec.withinWindow modelReader g.parseTime (Spec.storedOfEntry e) t1 n = true) :
    canStaleOnError (transportFreshness g t0 e (parseCC reqH) (parseCC e.resp.header)).1 t1
          [parseCC e.resp.header, parseCC reqH] = true := by
  obtain ⟨ha, hts, hl⟩ := transport_fields g t0 e (parseCC reqH) (parseCC e.resp.header) hmf hreach
  unfold canStaleOnError
  rw [ha, hts, hl]
  rw [life_eq g e hs d hd hdoc, age_eq g t0 e hT]
  have hstep := spec_age_step_eq g.parseTime (Spec.storedOfEntry e) t0 t1 hle hrt
  unfold Spec.withinWindow at hw
  simp only [decide_eq_true_eq] at hw
  rw [hstep] at hw
  simp only [List.any_cons, List.any_nil, Bool.or_false, Bool.or_eq_true]
  rw [seconds_eq, seconds_eq] at hn
  rcases hn with hn | hn
  · left
    have : (parseCC e.resp.header).staleIfError = some n := hn
    rw [this]; simp only [decide_eq_true_eq]; unfold satAdd at hw ⊢; exact hw
  · right
    have : (parseCC reqH).staleIfError = some n := hn
    rw [this]; simp only [decide_eq_true_eq]; unfold satAdd at hw ⊢; exact hw


/-- C09 core for requests that carry directives: as long as the request neither demands validation
    (no-cache) nor shortens the lifetime (max-age, min-fresh) — whatever else it carries: max-stale,
    only-if-cached, no-store, no-transform, extensions — a response that is fresh by the RFC definitions
    is served from the store without contacting the origin -/
theorem fresh_hits_any_request (cfg : Cfg) (t0 : Int) (req : Req) (e : Entry) (key : Str) (refs : List Ref) (i : Nat)
    (hnc : (parseCC req.header).noCache = false) (hma : (parseCC req.header).maxAge = none)
    (hmf : (parseCC req.header).minFresh = none)
    (hT : TimesOK e) (hs : e.resp.status ≠ 304) (d : Int)
    (hd : Spec.httpTime cfg.glue.parseTime e.resp.header sDate = some d)
    (hdoc : Spec.heuristicallyCacheable.contains e.resp.status = true → isHeuristicStatus e.resp.status = true)
    (hncu : (parseCC e.resp.header).noCacheUnqualified = false)
    (hfresh : Spec.isFresh modelReader cfg.glue.parseTime (Spec.storedOfEntry e) t0 = true)
    (tr : List Step) (r : Result) (h : Run (handleCacheHit cfg t0 req e key refs i) tr r) :
    tr = [] ∧ ∃ f, r = .resp (serveFromCache f t0 e (parseCC e.resp.header)) := by
  have hlt : currentAge cfg.glue t0 e < responseLifetime cfg.glue e (parseCC e.resp.header) := by
    rw [life_eq cfg.glue e hs d hd hdoc, age_eq cfg.glue t0 e hT]
    unfold Spec.isFresh at hfresh
    simpa using hfresh
  have hrl : requestLifetime (responseLifetime cfg.glue e (parseCC e.resp.header)) (parseCC req.header) =
      responseLifetime cfg.glue e (parseCC e.resp.header) := by unfold requestLifetime; rw [hma]
  have hmfs : minFreshStale (parseCC req.header) (responseLifetime cfg.glue e (parseCC e.resp.header)) (currentAge cfg.glue t0 e) = false := by
    unfold minFreshStale; rw [hmf]
  have hst : (calculateFreshness cfg.glue t0 e (parseCC req.header) (parseCC e.resp.header)).isStale = false := by
    unfold calculateFreshness
    have h0 : (parseCC req.header).maxAge ≠ some 0 := by rw [hma]; simp
    simp only [h0, ↓reduceIte, hrl, hmfs, Bool.false_eq_true]
    unfold staleAfterMaxStale
    have : decide (currentAge cfg.glue t0 e ≥ responseLifetime cfg.glue e (parseCC e.resp.header)) = false := by
      simp; omega
    simp [this]
  have htf : transportFreshness cfg.glue t0 e (parseCC req.header) (parseCC e.resp.header) =
      (calculateFreshness cfg.glue t0 e (parseCC req.header) (parseCC e.resp.header), false) := by
    unfold transportFreshness; rw [hma]
  unfold handleCacheHit at h
  simp only [htf] at h
  have hmv : mustValidateOf (calculateFreshness cfg.glue t0 e (parseCC req.header) (parseCC e.resp.header))
      (parseCC req.header) (parseCC e.resp.header) = false := by
    unfold mustValidateOf
    rw [hst, hncu, hnc]; rfl
  simp only [hmv, Bool.or_self, Bool.false_eq_true, ↓reduceIte, hst, Bool.not_false, Bool.true_and, hnc, Bool.and_true,
    Bool.or_true] at h
  split at h <;> (cases h; exact ⟨rfl, _, rfl⟩)


end Httpcache
