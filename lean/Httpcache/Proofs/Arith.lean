import Httpcache.Core.Basic
namespace Httpcache

theorem sat_le_max (x : Int) : sat x ≤ maxI64 := by
  unfold sat maxI64 minI64; split <;> (try split) <;> omega

theorem sat_ge_min (x : Int) : minI64 ≤ sat x := by
  unfold sat maxI64 minI64; split <;> (try split) <;> omega

theorem sat_mono {a b : Int} (h : a ≤ b) : sat a ≤ sat b := by
  unfold sat maxI64 minI64; split <;> split <;> (try split) <;> (try split) <;> omega

theorem sat_nonneg {a : Int} (h : 0 ≤ a) : 0 ≤ sat a := by
  unfold sat maxI64 minI64; split <;> (try split) <;> omega

theorem sat_id {a : Int} (h1 : minI64 ≤ a) (h2 : a ≤ maxI64) : sat a = a := by
  unfold sat maxI64 minI64 at *; split <;> (try split) <;> omega

theorem sat_of_ge_max {a : Int} (h : maxI64 ≤ a) : sat a = maxI64 := by
  unfold sat maxI64 minI64 at *; split <;> (try split) <;> omega

theorem satAdd_mono_left {a b c : Int} (h : a ≤ b) : satAdd a c ≤ satAdd b c := by
  unfold satAdd; exact sat_mono (by omega)

theorem satAdd_nonneg {a b : Int} (ha : 0 ≤ a) (hb : 0 ≤ b) : 0 ≤ satAdd a b := by
  unfold satAdd; exact sat_nonneg (by omega)

theorem satAdd_ge_left {a b : Int} (ha : a ≤ maxI64) (hb : 0 ≤ b) : a ≤ satAdd a b := by
  unfold satAdd sat maxI64 minI64 at *; split <;> (try split) <;> omega

theorem satAdd_comm (a b : Int) : satAdd a b = satAdd b a := by
  unfold satAdd; rw [Int.add_comm]

end Httpcache
