import Httpcache.Proofs.Run
/-
The three ways through transport.RoundTrip: bypass (method not understood), miss (no usable
index / variant / entry), hit (an entry was read).
-/
namespace Httpcache

def Step.isRead : Step → Bool
  | .getRefs _ _ => true
  | .getEntry _ none => true
  | _ => false

inductive Path (cfg : Cfg) (t0 : Int) (req : Req) (tr : List Step) (r : Result) : Prop where
  | bypass : isRequestMethodUnderstood req = false →
      Run (handleUnrecognizedMethod cfg req (makeURLKey req)) tr r → Path cfg t0 req tr r
  | miss (pre tr1 : List Step) (refs : List Ref) (ri : Option Nat) : isRequestMethodUnderstood req = true →
      pre.all Step.isRead = true → tr = pre ++ tr1 →
      Run (handleCacheMiss cfg t0 req (makeURLKey req) refs ri) tr1 r → Path cfg t0 req tr r
  | hit (refs sorted : List Ref) (i : Nat) (e0 : Entry) (tr2 : List Step) : isRequestMethodUnderstood req = true →
      varyHeadersMatch cfg.normQ refs req.header = (sorted, some i) →
      tr = .getRefs (makeURLKey req) (some refs) :: .getEntry (sorted.getD i default).id (some e0) :: tr2 →
      Run (handleCacheHit cfg t0 req (parsedEntry e0) (makeURLKey req) sorted i) tr2 r →
      Path cfg t0 req tr r

theorem roundTrip_paths (cfg : Cfg) (t0 : Int) (req : Req) (tr : List Step) (r : Result)
    (h : Run (roundTrip cfg t0 req) tr r) : Path cfg t0 req tr r := by
  unfold roundTrip at h
  simp only [] at h
  split at h
  · rename_i hu
    exact .bypass (by simpa using hu) h
  · rename_i hu
    have hu' : isRequestMethodUnderstood req = true := by simpa using hu
    cases h with
    | getRefs a h1 =>
      dsimp only at h1
      split at h1
      · exact .miss [_] _ _ _ hu' rfl rfl h1
      · exact .miss [_] _ _ _ hu' rfl rfl h1
      · split at h1
        · exact .miss [_] _ _ _ hu' rfl rfl h1
        · rename_i heq
          cases h1 with
          | getEntry a2 h2 =>
            dsimp only at h2
            split at h2
            · exact .miss [_, _] _ _ _ hu' rfl rfl h2
            · exact .hit _ _ _ _ _ hu' heq rfl h2

theorem miss_first_step (cfg : Cfg) (t0 : Int) (req : Req) (key : Str) (refs : List Ref) (ri : Option Nat)
    (tr : List Step) (r : Result) (h : Run (handleCacheMiss cfg t0 req key refs ri) tr r) :
    tr = [] ∨ ∃ m hd dl a tr', tr = Step.origin m hd dl a :: tr' := by
  unfold handleCacheMiss at h
  simp only [] at h
  split at h
  · cases h; exact Or.inl rfl
  · cases h; exact Or.inr ⟨_, _, _, _, _, rfl⟩

theorem bypass_first_step (cfg : Cfg) (req : Req) (key : Str)
    (tr : List Step) (r : Result) (h : Run (handleUnrecognizedMethod cfg req key) tr r) :
    tr = [] ∨ ∃ m hd dl a tr', tr = Step.origin m hd dl a :: tr' := by
  unfold handleUnrecognizedMethod at h
  split at h
  · cases h; exact Or.inl rfl
  · cases h; exact Or.inr ⟨_, _, _, _, _, rfl⟩

/-- an execution whose trace starts with a successful index read followed by a successful entry
    read is an execution of the hit path for that entry -/
theorem hit_of_trace (cfg : Cfg) (t0 : Int) (req : Req) (tr : List Step) (r : Result)
    (h : Run (roundTrip cfg t0 req) tr r) (key : Str) (refs : List Ref) (id : Str) (e0 : Entry) (tr2 : List Step)
    (htr : tr = .getRefs key (some refs) :: .getEntry id (some e0) :: tr2) :
    ∃ sorted i, isRequestMethodUnderstood req = true ∧
      Run (handleCacheHit cfg t0 req (parsedEntry e0) (makeURLKey req) sorted i) tr2 r := by
  cases roundTrip_paths cfg t0 req tr r h with
  | bypass hu hrun =>
    exfalso
    cases bypass_first_step _ _ _ _ _ hrun with
    | inl h0 => rw [h0] at htr; cases htr
    | inr h1 => obtain ⟨_, _, _, _, _, h1⟩ := h1; rw [h1] at htr; cases htr
  | miss pre tr1 refs' ri hu hpre heq hrun =>
    exfalso
    rw [heq] at htr
    cases pre with
    | nil =>
      simp only [List.nil_append] at htr
      cases miss_first_step _ _ _ _ _ _ _ _ hrun with
      | inl h0 => rw [h0] at htr; cases htr
      | inr h1 => obtain ⟨_, _, _, _, _, h1⟩ := h1; rw [h1] at htr; cases htr
    | cons s1 pre1 =>
      simp only [List.cons_append, List.cons.injEq] at htr
      obtain ⟨_, htr⟩ := htr
      cases pre1 with
      | nil =>
        simp only [List.nil_append] at htr
        cases miss_first_step _ _ _ _ _ _ _ _ hrun with
        | inl h0 => rw [h0] at htr; cases htr
        | inr h1 => obtain ⟨_, _, _, _, _, h1⟩ := h1; rw [h1] at htr; cases htr
      | cons s2 pre2 =>
        simp only [List.cons_append, List.cons.injEq] at htr
        obtain ⟨h2, _⟩ := htr
        subst h2
        simp [Step.isRead] at hpre
  | hit refs' sorted i e0' tr2' hu hvm heq hrun =>
    rw [heq] at htr
    simp only [List.cons.injEq, Step.getRefs.injEq, Step.getEntry.injEq, Option.some.injEq] at htr
    obtain ⟨_, ⟨_, he⟩, ht⟩ := htr
    subst he; subst ht
    exact ⟨_, _, hu, hrun⟩

theorem understood_is_get (req : Req) (h : isRequestMethodUnderstood req = true) : req.method = sGET := by
  unfold isRequestMethodUnderstood at h
  simp only [Bool.and_eq_true, decide_eq_true_eq] at h
  exact h.1

theorem contacted_append (a b : List Step) : contacted (a ++ b) = (contacted a || contacted b) := by
  simp [contacted, List.any_append]

theorem contacted_of_reads (pre : List Step) (h : pre.all Step.isRead = true) : contacted pre = false := by
  induction pre with
  | nil => rfl
  | cons s ss ih =>
    simp only [List.all_cons, Bool.and_eq_true] at h
    have := ih h.2
    cases s <;> simp_all [contacted, Step.isOrigin, Step.isRead]

end Httpcache
