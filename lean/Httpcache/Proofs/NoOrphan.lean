import Httpcache.Proofs.IndexBound
/-
C19 at the level of histories: in every sequential, fault-free history of stores, freshenings and
invalidations, every stored response of a resource is named by the index of that resource.

The state of ONE resource (one URL key) is its index and the identifiers of its stored responses. The
steps are not re-specified: a step is the effect, on that state, of the store operations in a trace of the
MODEL's own programs (`storeResponse`, `invalidateCache`) run with the index they read (faithful reads) and
with every write succeeding. `NoOrphan` is an invariant of all states reachable that way.
-/
namespace Httpcache

structure ResState where
  index : List Ref
  entries : List Str
  deriving Repr

/-- every stored response is named by a reference of the index -/
def ResState.NoOrphan (s : ResState) : Prop := ∀ id ∈ s.entries, ∃ r ∈ s.index, r.id = id

/-- no reference carries the empty identifier or the URL key itself as its identifier (identifiers are
    `key # digits`, `makeVaryKey`) -/
def ResState.IdsProper (key : Str) (s : ResState) : Prop := ∀ r ∈ s.index, r.id ≠ [] ∧ r.id ≠ key

/-- the effect of one store operation on the state of the resource `key` (the store answers as a map) -/
def applyStep (key : Str) (s : ResState) : Step → ResState
  | .setEntry id _ true => { s with entries := if s.entries.contains id then s.entries else id :: s.entries }
  | .setRefs k refs true => if k = key then { s with index := refs } else s
  | .delete k => { index := if k = key then [] else s.index, entries := s.entries.filter (· ≠ k) }
  | _ => s

def applyTrace (key : Str) (s : ResState) (tr : List Step) : ResState := tr.foldl (applyStep key) s

/-- no write of the trace failed -/
def FaultFree (tr : List Step) : Prop :=
  ∀ st ∈ tr, (∀ id e, st ≠ .setEntry id e false) ∧ (∀ k l, st ≠ .setRefs k l false)

theorem makeVaryKey_ne_nil (key : Str) (res : List (Str × Str)) : makeVaryKey key res ≠ [] := by
  unfold makeVaryKey makeVaryKeyWith
  split <;> simp

theorem makeVaryKey_ne_key (key : Str) (res : List (Str × Str)) : makeVaryKey key res ≠ key := by
  unfold makeVaryKey makeVaryKeyWith
  intro h
  have := congrArg List.length h
  split at this <;> simp at this

theorem replacedId_mem (refs : List Ref) (ri : Option Nat) (old : Str) (h : replacedId refs ri = some old) :
    ∃ x ∈ refs, x.id = old := by
  unfold replacedId at h
  cases ri with
  | none => cases h
  | some i =>
    simp only at h
    cases hx : refs[i]? with
    | none => rw [hx] at h; cases h
    | some x =>
      rw [hx] at h
      exact ⟨x, List.mem_of_getElem? hx, by simpa using h⟩

/-! ### a store -/

/-- a fault-free StoreResponse, run with the index the store holds, keeps the invariant -/
theorem store_step (cfg : Cfg) (reqH : Header) (r : Resp) (b : Bool) (key : Str) (t1 t2 : Int) (ri : Option Nat)
    (s : ResState) (tr : List Step) (res : Result)
    (h : Run (storeResponse cfg reqH r b key s.index t1 t2 ri (fun r => .ret (.resp r))) tr res)
    (hff : FaultFree tr) (hno : s.NoOrphan) (hne : s.IdsProper key) :
    (applyTrace key s tr).NoOrphan ∧ (applyTrace key s tr).IdsProper key := by
  unfold storeResponse at h
  simp only [] at h
  split at h
  · cases h; exact ⟨hno, hne⟩
  · cases h with
    | setEntry ok h1 =>
      dsimp only at h1
      split at h1
      · -- a failed entry write is excluded
        rename_i hok
        have : ok = false := by simpa using hok
        subst this
        exact absurd rfl ((hff _ List.mem_cons_self).1 _ _)
      · rename_i hok
        have hokt : ok = true := by simpa using hok
        subst hokt
        cases h1 with
        | setRefs ok2 h2 =>
          dsimp only at h2
          have hok2 : ok2 = true := by
            cases ok2 with
            | true => rfl
            | false => exact absurd rfl ((hff _ (List.mem_cons_of_mem _ List.mem_cons_self)).2 _ _)
          subst hok2
          generalize hid0 : makeVaryKey key _ = id0 at h2 ⊢
          generalize hrf : (Ref.mk _ _ _ _) = rf at h2 ⊢
          have hrfe : rf.id = id0 := by rw [← hrf]
          have hrfid : rf.id ≠ [] ∧ rf.id ≠ key := by
            rw [hrfe, ← hid0]; exact ⟨makeVaryKey_ne_nil _ _, makeVaryKey_ne_key _ _⟩
          rw [← hrfe]
          have hself : rf ∈ dedupeRefs (placeRef s.index ri rf).1 (placeRef s.index ri rf).2 rf :=
            mem_dedupe_self _ _ _ (placeRef_get s.index ri rf)
          have hnr_ne : ∀ y ∈ dedupeRefs (placeRef s.index ri rf).1 (placeRef s.index ri rf).2 rf, y.id ≠ [] ∧ y.id ≠ key := by
            intro y hy
            rcases placed_refs_named _ _ _ y hy with hy1 | hy1
            · exact hne y hy1
            · rw [hy1]; exact hrfid
          -- an entry after the entry write is the new one or an old one
          have hsplit : ∀ id, id ∈ (if s.entries.contains rf.id then s.entries else rf.id :: s.entries) →
              id = rf.id ∨ id ∈ s.entries := by
            intro id hid
            by_cases hc : s.entries.contains rf.id = true
            · simp only [hc, ↓reduceIte] at hid; exact Or.inr hid
            · simp only [hc, Bool.false_eq_true, ↓reduceIte, List.mem_cons] at hid; exact hid
          rcases dropReplaced_run _ _ _ _ _ _ _ h2 with hk | ⟨old, tr', e, hk, hrep, holdne, _, hnot⟩
          · -- no clean-up: nothing of the old index lost its name
            cases hk
            simp only [applyTrace, List.foldl_cons, List.foldl_nil, applyStep, ↓reduceIte]
            refine ⟨?_, hnr_ne⟩
            intro id hid
            rcases hsplit id hid with hid' | hid'
            · exact ⟨rf, hself, hid'.symm⟩
            · obtain ⟨x, hx, hxe⟩ := hno id hid'
              rcases named_or_replaced s.index ri rf x hx with hn | ⟨hrep, hall⟩
              · obtain ⟨y, hy, hye⟩ := hn; exact ⟨y, hy, hye.trans hxe⟩
              · -- then the clean-up would have deleted it
                exfalso
                obtain ⟨tr'', e⟩ := dropReplaced_deletes _ _ _ _ _ _ _ hrep (hne x hx).1 hall h2
                cases e
          · subst e
            cases hk
            -- the deleted identifier is one of the old index, hence not the URL key: the index stays
            obtain ⟨xo, hxo, hxoe⟩ := replacedId_mem _ _ _ hrep
            have hkey : old ≠ key := by rw [← hxoe]; exact (hne xo hxo).2
            simp only [applyTrace, List.foldl_cons, List.foldl_nil, applyStep, ↓reduceIte, hkey]
            refine ⟨?_, hnr_ne⟩
            intro id hid
            rw [List.mem_filter] at hid
            have hidne : id ≠ old := by simpa using hid.2
            rcases hsplit id hid.1 with hid' | hid'
            · exact ⟨rf, hself, hid'.symm⟩
            · obtain ⟨x, hx, hxe⟩ := hno id hid'
              rcases named_or_replaced s.index ri rf x hx with hn | ⟨hrep', _⟩
              · obtain ⟨y, hy, hye⟩ := hn; exact ⟨y, hy, hye.trans hxe⟩
              · exfalso
                rw [hrep] at hrep'
                exact hidne (by rw [← hxe]; exact (Option.some.inj hrep').symm)

/-! ### an invalidation -/

/-- deletions (and index reads) only remove: what is left of the entries was there before and was not deleted,
    and the index is untouched unless the URL key itself was deleted -/
theorem inval_effect (key : Str) : ∀ (tr : List Step) (s : ResState), tr.all Step.isInval = true →
    (∀ id ∈ (applyTrace key s tr).entries, id ∈ s.entries ∧ Step.delete id ∉ tr) ∧
    ((applyTrace key s tr).index = [] ∨ (applyTrace key s tr).index = s.index) := by
  intro tr
  induction tr with
  | nil => intro s _; exact ⟨fun id hid => ⟨hid, by simp⟩, Or.inr rfl⟩
  | cons st tr ih =>
    intro s hall
    simp only [List.all_cons, Bool.and_eq_true] at hall
    have ih' := ih (applyStep key s st) hall.2
    simp only [applyTrace, List.foldl_cons] at ih' ⊢
    cases st with
    | delete k =>
      refine ⟨?_, ?_⟩
      · intro id hid
        obtain ⟨h1, h2⟩ := ih'.1 id hid
        simp only [applyStep, List.mem_filter, decide_eq_true_eq] at h1
        refine ⟨h1.1, ?_⟩
        intro hm
        rcases List.mem_cons.mp hm with e | e
        · cases e; exact h1.2 rfl
        · exact h2 e
      · rcases ih'.2 with h | h
        · exact Or.inl h
        · by_cases hk : k = key
          · left; rw [h]; simp [applyStep, hk]
          · right; rw [h]; simp [applyStep, hk]
    | getRefs k a =>
      refine ⟨?_, ?_⟩
      · intro id hid
        obtain ⟨h1, h2⟩ := ih'.1 id hid
        refine ⟨h1, ?_⟩
        intro hm
        rcases List.mem_cons.mp hm with e | e
        · cases e
        · exact h2 e
      · exact ih'.2
    | getEntry _ _ => simp [Step.isInval] at hall
    | setEntry _ _ _ => simp [Step.isInval] at hall
    | setRefs _ _ _ => simp [Step.isInval] at hall
    | origin _ _ _ _ => simp [Step.isInval] at hall
    | spawn _ => simp [Step.isInval] at hall

/-- InvalidateCache, run with the index the store holds, leaves no stored response of the resource behind -/
theorem inval_step (cfg : Cfg) (req : Req) (respH : Header) (key : Str) (res0 : Result)
    (s : ResState) (tr : List Step) (r : Result)
    (h : Run (invalidateCache cfg req respH s.index key (.ret res0)) tr r)
    (hno : s.NoOrphan) (hne : s.IdsProper key) :
    (applyTrace key s tr).NoOrphan ∧ (applyTrace key s tr).IdsProper key := by
  obtain ⟨tr1, tr2, e, hall, hk⟩ := invalidateCache_run _ _ _ _ _ _ _ _ h
  cases hk
  rw [List.append_nil] at e
  have hdel := invalidateCache_deletes _ _ _ _ _ _ _ _ h
  rw [e] at hdel ⊢
  obtain ⟨hent, hidx⟩ := inval_effect key tr1 s hall
  refine ⟨?_, ?_⟩
  · intro id hid
    obtain ⟨h1, h2⟩ := hent id hid
    obtain ⟨x, hx, hxe⟩ := hno id h1
    exact absurd (hxe ▸ hdel.2 x hx) h2
  · intro x hx
    rcases hidx with h0 | h0
    · rw [h0] at hx; cases hx
    · rw [h0] at hx; exact hne x hx


/-- … and once the URL key itself is deleted the index is gone -/
theorem inval_index_cleared (key : Str) : ∀ (tr : List Step) (s : ResState), tr.all Step.isInval = true →
    (Step.delete key ∈ tr ∨ s.index = []) → (applyTrace key s tr).index = [] := by
  intro tr
  induction tr with
  | nil =>
    intro s _ h
    rcases h with h | h
    · cases h
    · exact h
  | cons st tr ih =>
    intro s hall h
    simp only [List.all_cons, Bool.and_eq_true] at hall
    simp only [applyTrace, List.foldl_cons]
    apply ih _ hall.2
    cases st with
    | delete k =>
      by_cases hk : k = key
      · right; simp [applyStep, hk]
      · rcases h with h | h
        · rcases List.mem_cons.mp h with e | e
          · cases e; exact absurd rfl hk
          · exact Or.inl e
        · right; simp [applyStep, hk, h]
    | getRefs k a =>
      rcases h with h | h
      · rcases List.mem_cons.mp h with e | e
        · cases e
        · exact Or.inl e
      · exact Or.inr h
    | getEntry _ _ => simp [Step.isInval] at hall
    | setEntry _ _ _ => simp [Step.isInval] at hall
    | setRefs _ _ _ => simp [Step.isInval] at hall
    | origin _ _ _ _ => simp [Step.isInval] at hall
    | spawn _ => simp [Step.isInval] at hall

/-- After an invalidation run with the index the store holds, NOTHING of the resource is left: no index, no
    stored response — in every state in which every stored response is named by the index (`NoOrphan`),
    i.e. in every reachable state -/
theorem inval_leaves_nothing (cfg : Cfg) (req : Req) (respH : Header) (key : Str) (res0 : Result)
    (s : ResState) (tr : List Step) (r : Result)
    (h : Run (invalidateCache cfg req respH s.index key (.ret res0)) tr r) (hno : s.NoOrphan) :
    (applyTrace key s tr).index = [] ∧ (applyTrace key s tr).entries = [] := by
  obtain ⟨tr1, tr2, e, hall, hk⟩ := invalidateCache_run _ _ _ _ _ _ _ _ h
  cases hk
  rw [List.append_nil] at e
  have hdel := invalidateCache_deletes _ _ _ _ _ _ _ _ h
  rw [e] at hdel ⊢
  refine ⟨inval_index_cleared key tr1 s hall (Or.inl hdel.1), ?_⟩
  obtain ⟨hent, _⟩ := inval_effect key tr1 s hall
  cases hE : (applyTrace key s tr1).entries with
  | nil => rfl
  | cons id rest =>
    exfalso
    obtain ⟨h1, h2⟩ := hent id (by rw [hE]; exact List.mem_cons_self)
    obtain ⟨x, hx, hxe⟩ := hno id h1
    exact h2 (hxe ▸ hdel.2 x hx)

/-! ### every reachable state -/

/-- The states of one resource in ANY sequential, fault-free history: nothing stored at first; the index
    re-read in any order (VaryHeadersMatch sorts what it read); a StoreResponse of the model run with the index
    the store holds, every write succeeding (a miss, a full reply to a validation in the foreground or the
    background, a 304 that changes Vary); a freshening write to an entry the index names; an invalidation of
    the model run with the index the store holds; a deletion of some other key by the invalidation or the
    clean-up of ANOTHER resource. -/
inductive ReachableRes (cfg : Cfg) (key : Str) : ResState → Prop where
  | empty : ReachableRes cfg key ⟨[], []⟩
  | reordered {s : ResState} (idx' : List Ref) : ReachableRes cfg key s → s.index.Perm idx' →
      ReachableRes cfg key { s with index := idx' }
  | stored {s : ResState} (reqH : Header) (r : Resp) (b : Bool) (t1 t2 : Int) (ri : Option Nat) (tr : List Step) (res : Result) :
      ReachableRes cfg key s →
      Run (storeResponse cfg reqH r b key s.index t1 t2 ri (fun r => .ret (.resp r))) tr res → FaultFree tr →
      ReachableRes cfg key (applyTrace key s tr)
  | freshened {s : ResState} (id : Str) (e : Entry) : ReachableRes cfg key s → (∃ r ∈ s.index, r.id = id) →
      ReachableRes cfg key (applyStep key s (.setEntry id e true))
  | invalidated {s : ResState} (req : Req) (respH : Header) (res0 : Result) (tr : List Step) (r : Result) :
      ReachableRes cfg key s → Run (invalidateCache cfg req respH s.index key (.ret res0)) tr r →
      ReachableRes cfg key (applyTrace key s tr)
  | foreignDelete {s : ResState} (k : Str) : ReachableRes cfg key s → k ≠ key →
      ReachableRes cfg key (applyStep key s (.delete k))

theorem reachable_res_inv (cfg : Cfg) (key : Str) (s : ResState) (h : ReachableRes cfg key s) :
    s.NoOrphan ∧ s.IdsProper key := by
  induction h with
  | empty =>
    refine ⟨?_, ?_⟩
    · intro id hid; cases hid
    · intro x hx; cases hx
  | reordered idx' _ hp ih =>
    refine ⟨?_, ?_⟩
    · intro id hid
      obtain ⟨x, hx, e⟩ := ih.1 id hid
      exact ⟨x, hp.subset hx, e⟩
    · intro x hx; exact ih.2 x (hp.symm.subset hx)
  | stored reqH r b t1 t2 ri tr res _ hrun hff ih => exact store_step cfg reqH r b key t1 t2 ri _ tr res hrun hff ih.1 ih.2
  | @freshened s0 id e _ hnamed ih =>
    refine ⟨?_, ih.2⟩
    intro id' hid'
    simp only [applyStep] at hid'
    by_cases hc : s0.entries.contains id = true
    · simp only [hc, ↓reduceIte] at hid'; exact ih.1 id' hid'
    · simp only [hc, Bool.false_eq_true, ↓reduceIte, List.mem_cons] at hid'
      rcases hid' with e' | e'
      · rw [e']; exact hnamed
      · exact ih.1 id' e'
  | invalidated req respH res0 tr r _ hrun ih => exact inval_step cfg req respH key res0 _ tr r hrun ih.1 ih.2
  | foreignDelete k _ hk ih =>
    simp only [applyStep, hk, ↓reduceIte]
    refine ⟨?_, ih.2⟩
    intro id hid
    rw [List.mem_filter] at hid
    exact ih.1 id hid.1


/-! ### non-vacuity: executions with a store in which every write succeeds -/

theorem exec_faultfree (env : Env) (h1 : ∀ i e, env.setEntry i e = true) (h2 : ∀ k l, env.setRefs k l = true) :
    ∀ p : Prog, FaultFree (exec env p).1 := by
  intro p
  induction p with
  | ret r => intro st hst; cases hst
  | getRefs k f ih =>
    intro st hst
    rcases List.mem_cons.mp hst with e | e
    · subst e; exact ⟨fun _ _ h => (by cases h), fun _ _ h => (by cases h)⟩
    · exact ih _ st e
  | getEntry i f ih =>
    intro st hst
    rcases List.mem_cons.mp hst with e | e
    · subst e; exact ⟨fun _ _ h => (by cases h), fun _ _ h => (by cases h)⟩
    · exact ih _ st e
  | setEntry i en f ih =>
    intro st hst
    rcases List.mem_cons.mp hst with e | e
    · subst e
      refine ⟨fun _ _ h => ?_, fun _ _ h => (by cases h)⟩
      simp only [Step.setEntry.injEq] at h
      rw [h1] at h; exact absurd h.2.2 (by decide)
    · exact ih _ st e
  | setRefs k l f ih =>
    intro st hst
    rcases List.mem_cons.mp hst with e | e
    · subst e
      refine ⟨fun _ _ h => (by cases h), fun _ _ h => ?_⟩
      simp only [Step.setRefs.injEq] at h
      rw [h2] at h; exact absurd h.2.2 (by decide)
    · exact ih _ st e
  | delete k f ih =>
    intro st hst
    rcases List.mem_cons.mp hst with e | e
    · subst e; exact ⟨fun _ _ h => (by cases h), fun _ _ h => (by cases h)⟩
    · exact ih st e
  | origin m hd d f ih =>
    intro st hst
    rcases List.mem_cons.mp hst with e | e
    · subst e; exact ⟨fun _ _ h => (by cases h), fun _ _ h => (by cases h)⟩
    · exact ih _ st e
  | spawn bg f _ ih =>
    intro st hst
    rcases List.mem_cons.mp hst with e | e
    · subst e; exact ⟨fun _ _ h => (by cases h), fun _ _ h => (by cases h)⟩
    · exact ih st e


end Httpcache
