import Httpcache.Model.Headers
/- lemmas about the http.Header operations of Model/Types.lean -/
namespace Httpcache
namespace Header

theorem find_del_self (h : Header) (n : Str) : (del h n).find? (fun p => p.1 = n) = none := by
  unfold del
  rw [List.find?_eq_none]
  intro p hp
  have := (List.mem_filter.mp hp).2
  simpa using this

theorem get_set_self (h : Header) (n v : Str) : get (set h n v) n = v := by
  unfold get set
  rw [List.find?_append, find_del_self]
  simp

theorem find_del_other (h : Header) (m n : Str) (hne : m ≠ n) :
    (del h m).find? (fun p => p.1 = n) = h.find? (fun p => p.1 = n) := by
  unfold del
  induction h with
  | nil => rfl
  | cons p ps ih =>
    rw [List.filter_cons]
    by_cases hp : p.1 = m
    · have hpn : ¬ p.1 = n := fun h' => hne (hp ▸ h')
      have h1 : (decide (p.1 ≠ m)) = false := by simp [hp]
      rw [h1]
      simp only [Bool.false_eq_true, ↓reduceIte]
      rw [ih, List.find?_cons]
      have h2 : decide (p.1 = n) = false := by simp [hpn]
      rw [h2]
    · have h1 : (decide (p.1 ≠ m)) = true := by simp [hp]
      rw [h1]
      simp only [↓reduceIte]
      rw [List.find?_cons, List.find?_cons, ih]

theorem get_del_other (h : Header) (m n : Str) (hne : m ≠ n) : get (del h m) n = get h n := by
  unfold get; rw [find_del_other h m n hne]

theorem get_set_other (h : Header) (m n v : Str) (hne : m ≠ n) : get (set h m v) n = get h n := by
  unfold get set
  rw [List.find?_append, find_del_other h m n hne]
  cases hf : h.find? (fun p => p.1 = n) with
  | none =>
    have : decide (m = n) = false := by simp [hne]
    simp [this]
  | some x => simp

theorem has_del_self (h : Header) (n : Str) : has (del h n) n = false := by
  unfold has del
  simp [List.any_filter]

theorem has_del_other (h : Header) (m n : Str) (hne : m ≠ n) : has (del h m) n = has h n := by
  unfold has del
  induction h with
  | nil => rfl
  | cons p ps ih =>
    rw [List.filter_cons]
    by_cases hp : p.1 = m
    · have hpn : ¬ p.1 = n := fun h' => hne (hp ▸ h')
      have h1 : (decide (p.1 ≠ m)) = false := by simp [hp]
      rw [h1]
      simp only [Bool.false_eq_true, ↓reduceIte]
      rw [ih, List.any_cons]
      have h2 : decide (p.1 = n) = false := by simp [hpn]
      rw [h2, Bool.false_or]
    · have h1 : (decide (p.1 ≠ m)) = true := by simp [hp]
      rw [h1]
      simp only [↓reduceIte]
      rw [List.any_cons, List.any_cons, ih]

theorem has_set_other (h : Header) (m n v : Str) (hne : m ≠ n) : has (set h m v) n = has h n := by
  unfold set
  have : has (del h m ++ [(m, v)]) n = (has (del h m) n || has [(m, v)] n) := by unfold has; simp [List.any_append]
  rw [this, has_del_other h m n hne]
  have : has [(m, v)] n = false := by simp [has, hne]
  rw [this, Bool.or_false]

theorem values_del_self (h : Header) (n : Str) : values (del h n) n = [] := by
  unfold values del
  rw [List.filter_filter]
  simp

theorem values_set_self (h : Header) (n v : Str) : values (set h n v) n = [v] := by
  unfold set
  have : values (del h n ++ [(n, v)]) n = values (del h n) n ++ values [(n, v)] n := by
    unfold values; simp [List.filter_append]
  rw [this, values_del_self]
  simp [values]

theorem values_del_other (h : Header) (m n : Str) (hne : m ≠ n) : values (del h m) n = values h n := by
  unfold values del
  rw [List.filter_filter]
  congr 1
  apply List.filter_congr
  intro p _
  by_cases hp : p.1 = n
  · have : ¬ n = m := fun h' => hne h'.symm
    simp [hp, this]
  · simp [hp]

theorem values_set_other (h : Header) (m n v : Str) (hne : m ≠ n) : values (set h m v) n = values h n := by
  unfold set
  have : values (del h m ++ [(m, v)]) n = values (del h m) n ++ values [(m, v)] n := by
    unfold values; simp [List.filter_append]
  rw [this, values_del_other h m n hne]
  simp [values, hne]


end Header
end Httpcache
