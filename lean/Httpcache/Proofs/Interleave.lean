import Httpcache.Proofs.Run
/-
Any number of programs advanced one node at a time by an arbitrary scheduler, every answer chosen
by an arbitrary environment (a shared store answers SOME value: the environment covers whatever
the interleaving makes it return). Spawned background programs join the pool.
-/
namespace Httpcache

/-- a thread: what is left of its program, and the steps it has performed so far (oldest first) -/
structure Thread where
  prog : Prog
  trace : List Step

/-- one scheduler step: thread i performs its next node with SOME answer -/
inductive PoolStep : List Thread → List Thread → Prop where
  | getRefs {pool key k tr} (i : Nat) (a : Option (List Ref)) : pool[i]? = some ⟨.getRefs key k, tr⟩ →
      PoolStep pool (pool.set i ⟨k a, tr ++ [.getRefs key a]⟩)
  | getEntry {pool id k tr} (i : Nat) (a : Option Entry) : pool[i]? = some ⟨.getEntry id k, tr⟩ →
      PoolStep pool (pool.set i ⟨k a, tr ++ [.getEntry id a]⟩)
  | setEntry {pool id e k tr} (i : Nat) (ok : Bool) : pool[i]? = some ⟨.setEntry id e k, tr⟩ →
      PoolStep pool (pool.set i ⟨k ok, tr ++ [.setEntry id e ok]⟩)
  | setRefs {pool key refs k tr} (i : Nat) (ok : Bool) : pool[i]? = some ⟨.setRefs key refs k, tr⟩ →
      PoolStep pool (pool.set i ⟨k ok, tr ++ [.setRefs key refs ok]⟩)
  | delete {pool key k tr} (i : Nat) : pool[i]? = some ⟨.delete key k, tr⟩ →
      PoolStep pool (pool.set i ⟨k, tr ++ [.delete key]⟩)
  | origin {pool m h d k tr} (i : Nat) (a : OriginAns) : pool[i]? = some ⟨.origin m h d k, tr⟩ →
      PoolStep pool (pool.set i ⟨k a, tr ++ [.origin m h d a]⟩)
  /-- spawn: the background program becomes a new thread of the pool -/
  | spawn {pool bg k tr} (i : Nat) : pool[i]? = some ⟨.spawn bg k, tr⟩ →
      PoolStep pool ((pool.set i ⟨k, tr ++ [.spawn bg]⟩) ++ [⟨bg, []⟩])

inductive PoolSteps : List Thread → List Thread → Prop where
  | refl (p : List Thread) : PoolSteps p p
  | step {a b c : List Thread} : PoolSteps a b → PoolStep b c → PoolSteps a c

/-- "the rest of the program, continued from the steps so far, completes the original program" -/
def Completes (orig : Prog) (t : Thread) : Prop :=
  ∀ tr r, Run t.prog tr r → Run orig (t.trace ++ tr) r

theorem completes_init (p : Prog) : Completes p ⟨p, []⟩ := by
  intro tr r h; simpa using h

/-- the invariant carried by every schedule: each thread of the pool completes the program it
    started as -/
def PoolOk (origs : List Prog) (pool : List Thread) : Prop :=
  origs.length = pool.length ∧ ∀ (i : Nat) (o : Prog) (t : Thread), origs[i]? = some o → pool[i]? = some t → Completes o t

theorem poolOk_set {origs : List Prog} {pool : List Thread} (h : PoolOk origs pool) (i : Nat) (t t' : Thread)
    (hi : pool[i]? = some t) (hc : ∀ o, origs[i]? = some o → Completes o t → Completes o t') :
    PoolOk origs (pool.set i t') := by
  refine ⟨by simp [h.1], ?_⟩
  intro j o tj ho hj
  by_cases hij : i = j
  · subst hij
    have hlt : i < pool.length := by
      rcases List.getElem?_eq_some_iff.mp hi with ⟨hl, _⟩; exact hl
    simp only [List.getElem?_set_self hlt, Option.some.injEq] at hj
    subst hj
    exact hc o ho (h.2 i o t ho hi)
  · rw [List.getElem?_set_ne hij] at hj
    exact h.2 j o tj ho hj

/-- every scheduler step preserves the invariant (the spawned program starts a thread of its own) -/
theorem poolOk_step {origs : List Prog} {pool pool' : List Thread} (h : PoolOk origs pool) (st : PoolStep pool pool') :
    ∃ origs', PoolOk origs' pool' ∧ ∀ (i : Nat) (o : Prog), origs[i]? = some o → origs'[i]? = some o := by
  cases st with
  | getRefs i a hi =>
    refine ⟨origs, poolOk_set h i _ _ hi ?_, fun _ _ h' => h'⟩
    intro o _ hc tr r hrun
    have := hc (Step.getRefs _ a :: tr) r (Run.getRefs a hrun)
    simpa [List.append_assoc] using this
  | getEntry i a hi =>
    refine ⟨origs, poolOk_set h i _ _ hi ?_, fun _ _ h' => h'⟩
    intro o _ hc tr r hrun
    have := hc (Step.getEntry _ a :: tr) r (Run.getEntry a hrun)
    simpa [List.append_assoc] using this
  | setEntry i ok hi =>
    refine ⟨origs, poolOk_set h i _ _ hi ?_, fun _ _ h' => h'⟩
    intro o _ hc tr r hrun
    have := hc (Step.setEntry _ _ ok :: tr) r (Run.setEntry ok hrun)
    simpa [List.append_assoc] using this
  | setRefs i ok hi =>
    refine ⟨origs, poolOk_set h i _ _ hi ?_, fun _ _ h' => h'⟩
    intro o _ hc tr r hrun
    have := hc (Step.setRefs _ _ ok :: tr) r (Run.setRefs ok hrun)
    simpa [List.append_assoc] using this
  | delete i hi =>
    refine ⟨origs, poolOk_set h i _ _ hi ?_, fun _ _ h' => h'⟩
    intro o _ hc tr r hrun
    have := hc (Step.delete _ :: tr) r (Run.delete hrun)
    simpa [List.append_assoc] using this
  | origin i a hi =>
    refine ⟨origs, poolOk_set h i _ _ hi ?_, fun _ _ h' => h'⟩
    intro o _ hc tr r hrun
    have := hc (Step.origin _ _ _ a :: tr) r (Run.origin a hrun)
    simpa [List.append_assoc] using this
  | spawn i hi =>
    rename_i bg k tr0
    have hset := poolOk_set h i _ ⟨k, tr0 ++ [.spawn bg]⟩ hi (by
      intro o _ hc tr r hrun
      have := hc (Step.spawn bg :: tr) r (Run.spawn hrun)
      simpa [List.append_assoc] using this)
    refine ⟨origs ++ [bg], ⟨by simp [hset.1], ?_⟩, ?_⟩
    · intro j o t ho ht
      by_cases hj : j < origs.length
      · rw [List.getElem?_append_left hj] at ho
        rw [List.getElem?_append_left (by rw [← hset.1]; exact hj)] at ht
        exact hset.2 j o t ho ht
      · have hj' : j ≥ origs.length := Nat.le_of_not_lt hj
        rw [List.getElem?_append_right hj'] at ho
        rw [List.getElem?_append_right (by rw [← hset.1]; exact hj')] at ht
        rw [← hset.1] at ht
        cases hd : j - origs.length with
        | zero =>
          simp only [hd, List.getElem?_cons_zero, Option.some.injEq] at ho ht
          subst ho; subst ht
          exact completes_init _
        | succ n => simp [hd] at ho
    · intro j o ho
      have hlt : j < origs.length := (List.getElem?_eq_some_iff.mp ho).1
      rw [List.getElem?_append_left hlt]; exact ho

theorem poolOk_steps (progs : List Prog) (pool : List Thread) (h : PoolSteps (progs.map fun p => ⟨p, []⟩) pool) :
    ∃ origs, PoolOk origs pool ∧ ∀ (i : Nat) (o : Prog), progs[i]? = some o → origs[i]? = some o := by
  generalize hinit : (progs.map fun p => (⟨p, []⟩ : Thread)) = init at h
  induction h with
  | refl =>
    subst hinit
    refine ⟨progs, ⟨by simp, ?_⟩, fun _ _ h' => h'⟩
    intro j o t ho ht
    simp only [List.getElem?_map] at ht
    rw [ho] at ht
    simp only [Option.map_some, Option.some.injEq] at ht
    subst ht
    exact completes_init o
  | step _ st ih =>
    obtain ⟨origs, hok, hpre⟩ := ih
    obtain ⟨origs', hok', hpre'⟩ := poolOk_step hok st
    exact ⟨origs', hok', fun i o ho => hpre' i o (hpre i o ho)⟩

/-- Main theorem: start any number of programs; after ANY schedule with ANY answers, a thread that
    has finished (its remaining program is `ret r`) has performed a trace that is an execution
    (`Run`) of the program it started as — so every theorem proved for all executions of a single
    program holds for each of the concurrent programs, under every interleaving. -/
theorem every_interleaving_is_a_run (progs : List Prog) (pool : List Thread)
    (h : PoolSteps (progs.map fun p => ⟨p, []⟩) pool) (i : Nat) (p : Prog) (hp : progs[i]? = some p)
    (tr : List Step) (r : Result) (hfin : pool[i]? = some ⟨.ret r, tr⟩) : Run p tr r := by
  obtain ⟨origs, hok, hpre⟩ := poolOk_steps progs pool h
  have := hok.2 i p ⟨.ret r, tr⟩ (hpre i p hp) hfin [] r (Run.ret r)
  simpa using this

end Httpcache
