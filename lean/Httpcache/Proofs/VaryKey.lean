import Httpcache.Proofs.Store
import Httpcache.Proofs.UrlKey
/- The variant key (internal/normalization.go makeVaryKey): the hash input is an injective encoding of the
   recorded (name, value) pairs, hence — under collision-freeness of the 64-bit hash on the variant
   descriptions that occur — the id determines them. -/
namespace Httpcache

theorem natToStr_eq (n : Nat) : natToStr n = Nat.toDigits 10 n := by
  unfold natToStr
  rw [Nat.toString_eq_ofList_toDigits]
  simp

theorem natToStr_inj (a b : Nat) (h : natToStr a = natToStr b) : a = b := by
  rw [natToStr_eq, natToStr_eq] at h
  have ha := @Nat.ofDigitChars_ten_toDigits a
  have hb := @Nat.ofDigitChars_ten_toDigits b
  rw [h] at ha
  omega

theorem natToStr_no_colon (n : Nat) : ':' ∉ natToStr n := by
  rw [natToStr_eq]
  intro hm
  have := Nat.isDigit_of_mem_toDigits (b := 10) (by omega) (by omega) hm
  revert this; decide

theorem natToStr_ne_nil (n : Nat) : natToStr n ≠ [] := by
  rw [natToStr_eq]; exact Nat.toDigits_ne_nil

/-- one length-prefixed field "<len>:<bytes>" -/
def lpField (s : Str) : Str := natToStr s.length ++ [':'] ++ s

/-- a length-prefixed field can be read back in one way only, whatever follows it -/
theorem lpField_inj (s1 s2 r1 r2 : Str) (h : lpField s1 ++ r1 = lpField s2 ++ r2) : s1 = s2 ∧ r1 = r2 := by
  unfold lpField at h
  simp only [List.append_assoc, List.singleton_append] at h
  obtain ⟨hl, hr⟩ := split_unique ':' _ _ _ _ (natToStr_no_colon _) (natToStr_no_colon _) h
  have hlen := natToStr_inj _ _ hl
  exact List.append_inj hr hlen

theorem varyHashInput_cons (p : Str × Str) (rest : List (Str × Str)) :
    varyHashInput (p :: rest) = lpField p.1 ++ (lpField p.2 ++ varyHashInput rest) := by
  simp [varyHashInput, lpField, List.append_assoc]

/-- the byte stream fed to the variant hash determines the (name, value) list: names and values are
    delimited, so no value can imitate a following name (the defect of the pinned tree) -/
theorem varyHashInput_inj : ∀ (a b : List (Str × Str)), varyHashInput a = varyHashInput b → a = b
  | [], [] , _ => rfl
  | [], p :: r, h => by
    rw [varyHashInput_cons] at h
    have : varyHashInput [] = [] := rfl
    rw [this] at h
    have hne : lpField p.1 ++ (lpField p.2 ++ varyHashInput r) ≠ [] := by
      unfold lpField
      cases hx : natToStr p.1.length with
      | nil => exact absurd hx (natToStr_ne_nil _)
      | cons c cs => simp
    exact absurd h.symm hne
  | p :: r, [], h => by
    rw [varyHashInput_cons] at h
    have : varyHashInput [] = [] := rfl
    rw [this] at h
    have hne : lpField p.1 ++ (lpField p.2 ++ varyHashInput r) ≠ [] := by
      unfold lpField
      cases hx : natToStr p.1.length with
      | nil => exact absurd hx (natToStr_ne_nil _)
      | cons c cs => simp
    exact absurd h hne
  | p :: r, q :: s, h => by
    rw [varyHashInput_cons, varyHashInput_cons] at h
    obtain ⟨h1, h⟩ := lpField_inj _ _ _ _ h
    obtain ⟨h2, h⟩ := lpField_inj _ _ _ _ h
    have := varyHashInput_inj r s h
    rw [this]
    congr 1
    exact Prod.ext h1 h2

/-- what the theorems assume of the 64-bit hash, on the variant descriptions that occur for one URI:
    no two of them collide and none hashes to the value reserved for "no Vary" -/
def HashSeparates (hash : Str → Nat) (S : List (List (Str × Str))) : Prop :=
  (∀ a ∈ S, ∀ b ∈ S, hash (varyHashInput a) = hash (varyHashInput b) → varyHashInput a = varyHashInput b) ∧
  (∀ a ∈ S, a ≠ [] → hash (varyHashInput a) ≠ 0)

theorem makeVaryKey_inj (hash : Str → Nat) (S : List (List (Str × Str))) (hs : HashSeparates hash S)
    (K : Str) (a b : List (Str × Str)) (ha : a ∈ S) (hb : b ∈ S)
    (h : makeVaryKeyWith hash K a = makeVaryKeyWith hash K b) : a = b := by
  unfold makeVaryKeyWith at h
  have zero : natToStr 0 = ['0'] := by decide
  by_cases ea : a.isEmpty = true <;> by_cases eb : b.isEmpty = true
  · have : a = [] := by simpa using ea
    have : b = [] := by simpa using eb
    simp_all
  · simp only [ea, eb, ↓reduceIte, Bool.false_eq_true, List.append_assoc, List.singleton_append] at h
    have h' := List.append_cancel_left h
    simp only [List.cons.injEq, true_and] at h'
    have hz : natToStr (hash (varyHashInput b)) = natToStr 0 := by rw [zero]; exact h'.symm
    have := natToStr_inj _ _ hz
    exact absurd this (hs.2 b hb (by intro hb0; apply eb; simp [hb0]))
  · simp only [ea, eb, ↓reduceIte, Bool.false_eq_true, List.append_assoc, List.singleton_append] at h
    have h' := List.append_cancel_left h
    simp only [List.cons.injEq, true_and] at h'
    have hz : natToStr (hash (varyHashInput a)) = natToStr 0 := by rw [zero]; exact h'
    have := natToStr_inj _ _ hz
    exact absurd this (hs.2 a ha (by intro ha0; apply ea; simp [ha0]))
  · simp only [ea, eb, ↓reduceIte, Bool.false_eq_true, List.append_assoc, List.singleton_append] at h
    have h' := List.append_cancel_left h
    simp only [List.cons.injEq, true_and] at h'
    have := natToStr_inj _ _ h'
    exact varyHashInput_inj a b (hs.1 a ha b hb this)


/-- a reference is named by its URL key and its recorded selecting values -/
def RefNamed (key : Str) (r : Ref) : Prop := r.id = makeVaryKey key r.resolved

theorem mem_dedupe (refs : List Ref) (idx : Nat) (ref x : Ref) (h : x ∈ dedupeRefs refs idx ref) : x ∈ refs := by
  unfold dedupeRefs at h
  obtain ⟨p, hp, e⟩ := List.mem_map.mp h
  have := (List.mem_filter.mp hp).1
  rw [List.mem_zipIdx_iff_getElem?] at this
  rw [← e]
  exact List.mem_of_getElem? this

theorem mem_placeRef (refs : List Ref) (ri : Option Nat) (ref x : Ref) (h : x ∈ (placeRef refs ri ref).1) : x ∈ refs ∨ x = ref := by
  unfold placeRef at h
  split at h
  · split at h
    · rcases List.mem_or_eq_of_mem_set h with h | h
      · exact Or.inl h
      · exact Or.inr h
    · simp at h; exact h
  · simp at h; exact h

/-- the selecting values StoreResponse records for a response and the request that fetched it -/
def storedVary (r : Resp) : Str :=
  if (Header.values (removeHopByHop r.header) sVary).any varyHasWildcard then ['*']
  else joinWith [',', ' '] (Header.values (removeHopByHop r.header) sVary)

def storedSelecting (cfg : Cfg) (reqH : Header) (r : Resp) : List (Str × Str) :=
  normalizeVary cfg.normQ (storedVary r) reqH

/-- what StoreResponse writes: nothing, or the entry under the id made of the URL key and the storing
    request's normalised selecting values, then an index in which every reference is an old one or the
    new one, which carries exactly those values -/
def NamedWrites (cfg : Cfg) (reqH : Header) (r : Resp) (key : Str) (refs : List Ref) (tr1 : List Step) : Prop :=
  tr1 = [] ∨
  (∃ en, tr1 = [.setEntry (makeVaryKey key (storedSelecting cfg reqH r)) en false]) ∨
  (∃ en rs ok post, tr1 = [.setEntry (makeVaryKey key (storedSelecting cfg reqH r)) en true, .setRefs key rs ok] ++ post ∧
    en.id = makeVaryKey key (storedSelecting cfg reqH r) ∧
    (∀ x ∈ rs, x ∈ refs ∨ (x.id = makeVaryKey key (storedSelecting cfg reqH r) ∧ x.resolved = storedSelecting cfg reqH r)) ∧
    -- then nothing, or the removal of the response the replaced reference named, which no reference of the new index names
    (post = [] ∨ ∃ old, post = [.delete old] ∧ ∀ x ∈ rs, x.id ≠ old))

theorem placed_refs_named (refs : List Ref) (ri : Option Nat) (ref : Ref) :
    ∀ x ∈ dedupeRefs (placeRef refs ri ref).1 (placeRef refs ri ref).2 ref, x ∈ refs ∨ x = ref := by
  intro x hx
  have hx1 := mem_dedupe _ _ _ _ hx
  exact mem_placeRef _ _ _ _ hx1

theorem storeResponse_names (cfg : Cfg) (reqH : Header) (r : Resp) (bodyOk : Bool) (key : Str) (refs : List Ref)
    (reqT respT : Int) (ri : Option Nat) (k : Resp → Prog) (tr : List Step) (res : Result)
    (h : Run (storeResponse cfg reqH r bodyOk key refs reqT respT ri k) tr res) :
    ∃ tr1 tr2, tr = tr1 ++ tr2 ∧ NamedWrites cfg reqH r key refs tr1 ∧
      Run (k (respWith r (removeHopByHop r.header))) tr2 res := by
  unfold NamedWrites storedSelecting storedVary
  unfold storeResponse at h
  simp only [respWith] at h
  split at h
  · exact ⟨[], tr, rfl, Or.inl rfl, h⟩
  · cases h with
    | setEntry ok h1 =>
      dsimp only at h1
      split at h1
      · rename_i hok
        have : ok = false := by simpa using hok
        subst this
        exact ⟨[_], _, rfl, Or.inr (Or.inl ⟨_, rfl⟩), h1⟩
      · rename_i hok
        have : ok = true := by simpa using hok
        subst this
        cases h1 with
        | setRefs ok2 h2 =>
          dsimp only at h2
          rcases dropReplaced_run _ _ _ _ _ _ _ h2 with hk | ⟨old, tr', e, hk, _, _, _, hnot⟩
          · refine ⟨[_, _], _, rfl, Or.inr (Or.inr ⟨_, _, ok2, [], rfl, rfl, ?_, Or.inl rfl⟩), hk⟩
            intro x hx
            rcases placed_refs_named _ _ _ x hx with hx2 | hx2
            · exact Or.inl hx2
            · right; subst hx2; exact ⟨rfl, rfl⟩
          · subst e
            refine ⟨[_, _, _], _, rfl, Or.inr (Or.inr ⟨_, _, ok2, [_], rfl, rfl, ?_, Or.inr ⟨old, rfl, hnot⟩⟩), hk⟩
            intro x hx
            rcases placed_refs_named _ _ _ x hx with hx2 | hx2
            · exact Or.inl hx2
            · right; subst hx2; exact ⟨rfl, rfl⟩

/-- the naming invariant of an index is preserved by StoreResponse -/
theorem namedWrites_keep_naming (cfg : Cfg) (reqH : Header) (r : Resp) (key : Str) (refs : List Ref) (tr1 : List Step)
    (hn : ∀ x ∈ refs, RefNamed key x) (hw : NamedWrites cfg reqH r key refs tr1) :
    ∀ k' rs ok, Step.setRefs k' rs ok ∈ tr1 → k' = key ∧ ∀ x ∈ rs, RefNamed key x := by
  intro k' rs ok hm
  rcases hw with hw | ⟨en, hw⟩ | ⟨en, rs', ok', post, hw, _, hall, hpost⟩
  · subst hw; cases hm
  · subst hw; simp at hm
  · subst hw
    have hm : Step.setRefs k' rs ok = Step.setRefs key rs' ok' := by
      rcases hpost with hp | ⟨old, hp, _⟩ <;> subst hp <;>
        simpa only [List.cons_append, List.nil_append, List.mem_cons, reduceCtorEq, List.not_mem_nil, or_false, false_or] using hm
    simp only [Step.setRefs.injEq] at hm
    obtain ⟨h1, h2, _⟩ := hm
    subst h1; subst h2
    refine ⟨rfl, ?_⟩
    intro x hx
    rcases hall x hx with h | ⟨h1, h2⟩
    · exact hn x h
    · unfold RefNamed; rw [h1, h2]

/-- Pairing (C04 at the level of histories): if a reference is named by its recorded values, the entry
    found under its id is the one StoreResponse wrote for request A (whose response nominated the fields
    of `storedSelecting`), the hash separates the variant descriptions of this URI, and request B matches
    the reference — then B has the same normalised value as A for EVERY field A's response nominated.
    Two requests that differ in a nominated field therefore never receive each other's stored response. -/
theorem pairing (cfg : Cfg) (S : List (List (Str × Str))) (hs : HashSeparates fnv64a S) (key : Str)
    (reqA reqB : Header) (rA : Resp) (ref : Ref)
    (hnamed : RefNamed key ref) (hrS : ref.resolved ∈ S) (hAS : storedSelecting cfg reqA rA ∈ S)
    (hent : ref.id = makeVaryKey key (storedSelecting cfg reqA rA))
    (hm : varyMatchOne cfg.normQ ref reqB = true) :
    ∀ p ∈ storedSelecting cfg reqA rA, reqValue cfg.normQ reqB p.1 = reqValue cfg.normQ reqA p.1 := by
  unfold RefNamed at hnamed
  rw [hnamed] at hent
  have e := makeVaryKey_inj fnv64a S hs key _ _ hrS hAS hent
  intro p hp
  have := match_means_same_selecting_values cfg.normQ _ reqA reqB ref (by rw [e]; rfl) hm p (by rw [e]; exact hp)
  exact this

end Httpcache
