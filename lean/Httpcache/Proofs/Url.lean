import Httpcache.Proofs.Validation
/- The model's URL-key functions against the RFC 3986 level definitions of Spec/Defs.lean. -/
namespace Httpcache

theorem char_le_iff (a b : Char) : a ≤ b ↔ a.toNat ≤ b.toNat := by
  rw [Char.le_def]
  exact UInt32.le_iff_toNat_le

theorem isHex_eq (c : Char) : Spec.isHex c = isHexDigit c := by
  unfold Spec.isHex isHexDigit isDigit
  cases h1 : decide ('0' ≤ c) <;> cases h2 : decide (c ≤ '9') <;> cases h3 : decide ('a' ≤ c) <;> cases h4 : decide (c ≤ 'f') <;>
    cases h5 : decide ('A' ≤ c) <;> cases h6 : decide (c ≤ 'F') <;> simp_all

theorem isUnres_eq (c : Char) : Spec.isUnreservedASCII c = isUnreserved c := by
  unfold Spec.isUnreservedASCII isUnreserved isAlpha isUpper isLower isDigit
  cases h1 : decide ('0' ≤ c) <;> cases h2 : decide (c ≤ '9') <;> cases h3 : decide ('a' ≤ c) <;> cases h4 : decide (c ≤ 'z') <;>
    cases h5 : decide ('A' ≤ c) <;> cases h6 : decide (c ≤ 'Z') <;> simp_all

theorem hexValue_eq (c : Char) (h : isHexDigit c = true) : Spec.hexValue c = fromHex c := by
  unfold isHexDigit isDigit at h
  unfold Spec.hexValue fromHex isDigit
  simp only [Bool.or_eq_true, Bool.and_eq_true, decide_eq_true_eq, char_le_iff] at h ⊢
  have e0 : ('0' : Char).toNat = 48 := rfl
  have e9 : ('9' : Char).toNat = 57 := rfl
  have ea : ('a' : Char).toNat = 97 := rfl
  have ef : ('f' : Char).toNat = 102 := rfl
  have eA : ('A' : Char).toNat = 65 := rfl
  have eF : ('F' : Char).toNat = 70 := rfl
  rw [e0, e9, ea, ef, eA, eF] at h
  simp only [e0, e9, ea, ef, eA, eF]
  split
  · rfl
  · split
    · omega
    · split
      · omega
      · omega

theorem fromHex_lt (c : Char) : fromHex c < 16 := by
  unfold fromHex isDigit
  simp only [Bool.and_eq_true, decide_eq_true_eq, char_le_iff]
  have e0 : ('0' : Char).toNat = 48 := rfl
  have e9 : ('9' : Char).toNat = 57 := rfl
  have ea : ('a' : Char).toNat = 97 := rfl
  have ef : ('f' : Char).toNat = 102 := rfl
  have eA : ('A' : Char).toNat = 65 := rfl
  have eF : ('F' : Char).toNat = 70 := rfl
  simp only [e0, e9, ea, ef, eA, eF]
  split
  · omega
  · split
    · omega
    · split <;> omega

theorem hexUpper_eq : ∀ n : Fin 16, Spec.hexUpper n.val = hexDigitUpper n.val := by decide

theorem pct_step (a b : Char) (hh : (isHexDigit a && isHexDigit b) = true) (x y : Str) (hxy : x = y) :
    (if Spec.isUnreservedASCII (Char.ofNat (Spec.hexValue a * 16 + Spec.hexValue b)) = true then
      Char.ofNat (Spec.hexValue a * 16 + Spec.hexValue b) :: x
    else '%' :: Spec.hexUpper ((Spec.hexValue a * 16 + Spec.hexValue b) / 16) ::
          Spec.hexUpper ((Spec.hexValue a * 16 + Spec.hexValue b) % 16) :: x) =
    (if isUnreserved (Char.ofNat (fromHex a * 16 + fromHex b)) = true then
      Char.ofNat (fromHex a * 16 + fromHex b) :: y
    else '%' :: hexDigitUpper ((fromHex a * 16 + fromHex b) / 16) ::
          hexDigitUpper ((fromHex a * 16 + fromHex b) % 16) :: y) := by
  have ha : isHexDigit a = true := by simp only [Bool.and_eq_true] at hh; exact hh.1
  have hb : isHexDigit b = true := by simp only [Bool.and_eq_true] at hh; exact hh.2
  rw [hexValue_eq a ha, hexValue_eq b hb, isUnres_eq, hxy]
  have hv : fromHex a * 16 + fromHex b < 256 := by have := fromHex_lt a; have := fromHex_lt b; omega
  have h1 := hexUpper_eq ⟨(fromHex a * 16 + fromHex b) / 16, by omega⟩
  have h2 := hexUpper_eq ⟨(fromHex a * 16 + fromHex b) % 16, by omega⟩
  simp only at h1 h2
  rw [h1, h2]

theorem pctNorm_eq_aux : ∀ (n : Nat) (s : Str), s.length ≤ n → Spec.pctNorm s = normalizePercentEncoding s := by
  intro n
  induction n with
  | zero => intro s hs; cases s with
    | nil => simp [Spec.pctNorm, normalizePercentEncoding]
    | cons c r => simp at hs
  | succ n ih =>
    intro s hs
    match s with
    | [] => simp [Spec.pctNorm, normalizePercentEncoding]
    | [c] =>
      by_cases hc : c = '%'
      · subst hc; simp [Spec.pctNorm, normalizePercentEncoding]
      · simp [Spec.pctNorm, normalizePercentEncoding]
    | [c, a] =>
      have i1 := ih [a] (by simp at hs ⊢; omega)
      by_cases hc : c = '%'
      · subst hc; simp [Spec.pctNorm, normalizePercentEncoding] at i1 ⊢
      · simp [Spec.pctNorm, normalizePercentEncoding] at i1 ⊢
    | c :: a :: b :: r =>
      have i1 := ih (a :: b :: r) (by simp at hs ⊢; omega)
      have i2 := ih r (by simp at hs ⊢; omega)
      by_cases hc : c = '%'
      · subst hc
        unfold Spec.pctNorm normalizePercentEncoding
        simp only [isHex_eq]
        by_cases hh : (isHexDigit a && isHexDigit b) = true
        · simp only [hh, ↓reduceIte]
          exact pct_step a b hh _ _ i2
        · simp only [hh, Bool.false_eq_true, ↓reduceIte]
          rw [i1]
      · have e1 : Spec.pctNorm (c :: a :: b :: r) = c :: Spec.pctNorm (a :: b :: r) := by
          rw [Spec.pctNorm]; intro a' b' r' h' _; exact hc h'
        have e2 : normalizePercentEncoding (c :: a :: b :: r) = c :: normalizePercentEncoding (a :: b :: r) := by
          rw [normalizePercentEncoding]; intro a' b' r' h' _; exact hc h'
        rw [e1, e2, i1]

theorem pctNorm_eq (s : Str) : Spec.pctNorm s = normalizePercentEncoding s := pctNorm_eq_aux s.length s (Nat.le_refl _)


end Httpcache
