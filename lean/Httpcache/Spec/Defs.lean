import Httpcache.Model.Types
/-
What the properties MEAN: RFC 9111 / 9110 / 5861 / 8246 / 3986 level definitions, written from
the RFC text and the property statements, not by calling the model. (Only `Core` helpers —
saturation, byte predicates — and the data types are shared.)
-/
namespace Httpcache.Spec
open Httpcache

/-! ### list syntax (RFC 9110 §5.6.1) and Cache-Control (RFC 9111 §5.2) -/

def isOWS (c : Char) : Bool := c = ' ' || c = '\t'

/-- split a field value at the commas that are outside quoted-strings; a backslash inside a
    quoted-string escapes the next byte -/
def splitList : Str → Bool → Str → List Str
  | [], _, cur => [cur.reverse]
  | '\\' :: c :: r, true, cur => splitList r true (c :: '\\' :: cur)
  | '"' :: r, q, cur => splitList r (!q) ('"' :: cur)
  | ',' :: r, false, cur => cur.reverse :: splitList r false []
  | c :: r, q, cur => splitList r q (c :: cur)

def trimOWS (s : Str) : Str :=
  ((s.dropWhile isOWS).reverse.dropWhile isOWS).reverse

/-- the members of a list-valued field: all field lines combined (RFC 9110 §5.3), empty members
    dropped, OWS around members removed -/
def listMembers (h : Header) (name : Str) : List Str :=
  ((Header.values h name).flatMap (fun v => splitList v false [])).map trimOWS |>.filter (!·.isEmpty)

/-- the members of a field whose members are TOKENS (Connection: 1#connection-option; Vary; the argument of a
    qualified no-cache): there is no quoted-string in such a list, it is split at every comma -/
def tokenListMembers (h : Header) (name : Str) : List Str :=
  ((Header.values h name).flatMap (fun v => splitOnComma v [])).map trimOWS |>.filter (!·.isEmpty)

/-- quoted-string → its content (quoted-pairs resolved); a token is returned as is -/
def unquote : Str → Str
  | '"' :: r =>
    let rec go : Str → Str
      | [] => []
      | ['"'] => []
      | '\\' :: c :: r => c :: go r
      | c :: r => c :: go r
    go r
  | s => s

/-- an argument is a token, or a quoted-string that ends with its closing quote and nothing after it -/
def wellQuoted : Str → Bool
  | '"' :: r =>
    let rec go : Str → Bool
      | [] => false
      | ['"'] => true
      | '"' :: _ => false
      | '\\' :: _ :: r => go r
      | _ :: r => go r
    go r
  | _ => true

/-- directives of all Cache-Control field lines: (lower-case name, argument with quotes removed) -/
def directives (h : Header) : List (Str × Option Str) :=
  (listMembers h sCacheControl).map fun m =>
    match cutAt '=' m with
    | none => (lowerASCII m, none)
    | some (n, a) => (lowerASCII n, some (unquote (trimOWS a)))

/-- A reading of Cache-Control: for a header list and a (lower-case) directive name, `none` =
    absent, `some none` = present without argument, `some (some a)` = present with argument `a`
    (quotes removed). The RFC-level reading is `rfc`; the theorems instantiate the model's. -/
structure Reader where
  read : Header → Str → Option (Option Str)

/-- the RFC reading: the argument of the FIRST occurrence (RFC 9111 §4.2.1: with more than one value for a
    directive "either the first occurrence should be used or the response should be considered stale" — a
    cache may therefore only rely on what the first one grants), except for no-cache: an unqualified one
    (the stricter form) is not relaxed by another occurrence, and several qualified ones name the
    fields of all their lists (each occurrence is a statement of the origin; none withdraws another) -/
def rfcRead (h : Header) (name : Str) : Option (Option Str) :=
  let occ := (directives h).filter (·.1 = name)
  if name = (str% "no-cache") then
    if occ.isEmpty then none
    else if occ.any (fun d => d.2 = none || d.2 = some []) then some none
    else some (some (joinWith [','] (occ.filterMap (·.2))))
  else occ.head?.map (·.2)

/-- a directive occurs more than once with different arguments (then "considered stale" is as conforming as
    "first occurrence": liveness is not demanded) -/
def conflictingDuplicate (h : Header) (name : Str) : Bool :=
  let occ := ((directives h).filter (·.1 = name)).map (·.2)
  match occ with
  | [] => false
  | a :: r => r.any (· ≠ a)

def rfc : Reader := ⟨rfcRead⟩

def hasDirective (R : Reader) (h : Header) (name : Str) : Bool := (R.read h name).isSome

def directiveArg (R : Reader) (h : Header) (name : Str) : Option (Option Str) := R.read h name

/-- delta-seconds (RFC 9111 §1.2.2): 1*DIGIT; values too large to represent act as the largest
    representable one (which is ≥ 2^31). Result in nanoseconds. -/
def deltaSeconds (s : Str) : Option Int :=
  if s.isEmpty || !s.all isDigit then none
  else some (min (natOfDigits s : Int) maxDeltaSeconds * nsPerSec)

def directiveSeconds (R : Reader) (h : Header) (name : Str) : Option Int :=
  match directiveArg R h name with
  | some (some a) => deltaSeconds a
  | _ => none

/-! ### age and freshness (RFC 9111 §4.2) with saturating arithmetic -/

structure Stored where
  status : Nat
  header : Header
  requestTime : Int
  responseTime : Int

/-- the stored response an entry stands for -/
def storedOfEntry (e : Entry) : Stored :=
  { status := e.resp.status, header := e.resp.header, requestTime := e.requestedAt, responseTime := e.receivedAt }

def httpTime (parse : Str → Option Int) (h : Header) (name : Str) : Option Int :=
  let v := Header.get h name
  if v.isEmpty then none else (parse v).map (· * nsPerSec)

/-- §4.2.3 -/
def currentAge (parse : Str → Option Int) (s : Stored) (now : Int) : Int :=
  -- RFC 9111 §5.1: of a list-based Age value the first member is used; if that is not delta-seconds the field is ignored
  let ageValue := (deltaSeconds (firstListMember (Header.values s.header sAge))).getD 0
  let apparentAge := match httpTime parse s.header sDate with
    | some d => max 0 (sat (s.responseTime - d))
    | none => maxI64   -- no usable Date: nothing bounds the age from above
  let responseDelay := max 0 (sat (s.responseTime - s.requestTime))
  let correctedAgeValue := sat (ageValue + responseDelay)
  let correctedInitialAge := max apparentAge correctedAgeValue
  let residentTime := max 0 (sat (now - s.responseTime))
  sat (correctedInitialAge + residentTime)

/-- statuses that are heuristically cacheable (RFC 9110 §15.1) -/
def heuristicallyCacheable : List Nat := [200, 203, 204, 206, 300, 301, 308, 404, 405, 410, 414, 501]

/-- §4.2.1–4.2.2 for a private cache: max-age; else Expires − Date; else at most 10 % of
    Date − Last-Modified, only when no explicit expiry is present and the status allows
    heuristics (or the response is marked public). An explicit but invalid expiry gives 0. -/
def freshnessLifetime (R : Reader) (parse : Str → Option Int) (s : Stored) : Int :=
  if hasDirective R s.header (str% "max-age") then (directiveSeconds R s.header (str% "max-age")).getD 0
  else if Header.has s.header sExpires then
    match httpTime parse s.header sExpires, httpTime parse s.header sDate with
    | some e, some d => max 0 (sat (e - d))
    | _, _ => 0
  else if heuristicallyCacheable.contains s.status || hasDirective R s.header (str% "public") then
    match httpTime parse s.header sLastModified, httpTime parse s.header sDate with
    | some lm, some d => max 0 (sat (d - lm)) / 10
    | _, _ => 0
  else 0

def isFresh (R : Reader) (parse : Str → Option Int) (s : Stored) (now : Int) : Bool :=
  currentAge parse s now < freshnessLifetime R parse s

/-- staleness = age − lifetime (meaningful when not fresh) -/
def staleness (R : Reader) (parse : Str → Option Int) (s : Stored) (now : Int) : Int :=
  currentAge parse s now - freshnessLifetime R parse s

/-- "staleness below N", with saturating arithmetic: age < lifetime + N -/
def withinWindow (R : Reader) (parse : Str → Option Int) (s : Stored) (now : Int) (n : Int) : Bool :=
  currentAge parse s now < sat (freshnessLifetime R parse s + n)

/-! ### what a request permits / demands -/

/-- request max-stale allows age `age` for a response of lifetime `life` -/
def maxStaleCovers (R : Reader) (reqH : Header) (age life : Int) : Bool :=
  match directiveArg R reqH (str% "max-stale") with
  | none => false
  | some none => true
  | some (some a) => if a.isEmpty then true else match deltaSeconds a with
    | some n => age < sat (life + n)
    | none => false

/-- the stored response carries no-cache without field names -/
def noCacheUnqualified (R : Reader) (h : Header) : Bool :=
  match R.read h (str% "no-cache") with
  | some none => true
  | some (some a) => a.isEmpty
  | none => false

/-- field names listed by a qualified no-cache directive -/
def noCacheFields (R : Reader) (h : Header) : List Str :=
  -- (an argument that is not a well-formed quoted-string — unterminated, or with bytes after the closing quote — names
  --  nothing that can be judged: the malformed-directive family; only the shrinker of bin/check ever produced one)
  if (listMembers h sCacheControl).any (fun m => match cutAt '=' m with
      | some (n, a) => lowerASCII (trimOWS n) = (str% "no-cache") && !wellQuoted (trimOWS a)
      | none => false) then [] else
  match R.read h (str% "no-cache") with
  -- (the argument, once unquoted, is a list of field names — tokens: it is split at EVERY comma; a quote that
  --  was escaped inside the quoted-string is a byte of a bogus name, not the start of another quoted-string)
  | some (some a) => ((splitOnComma a []).map trimOWS).filter (!·.isEmpty)
  | _ => []

/-- validation that nothing may waive (C02): unqualified response no-cache, stale + must-revalidate,
    request no-cache -/
def strictValidate (R : Reader) (parse : Str → Option Int) (reqH : Header) (s : Stored) (now : Int) : Bool :=
  noCacheUnqualified R s.header ||
  (!isFresh R parse s now && hasDirective R s.header (str% "must-revalidate")) ||
  hasDirective R reqH (str% "no-cache")

/-- the request carries a max-age that the response's age exceeds, also after the request's own
    max-stale allowance -/
def requestMaxAgeExceeded (R : Reader) (parse : Str → Option Int) (reqH : Header) (s : Stored) (now : Int) : Bool :=
  match directiveSeconds R reqH (str% "max-age") with
  | none => false
  | some m =>
    let age := currentAge parse s now
    age ≥ m && !maxStaleCovers R reqH age m

/-! ### hop-by-hop fields (RFC 9110 §7.6.1, RFC 9111 §3.1) -/

def hopByHopFixed : List Str :=
  [str% "Connection", str% "Keep-Alive", str% "Te", str% "Transfer-Encoding", str% "Upgrade",
   str% "Proxy-Connection", str% "Proxy-Authenticate", str% "Proxy-Authentication-Info", str% "Proxy-Authorization"]

def statusTokens : List Str := [str% "HIT", str% "MISS", str% "STALE", str% "REVALIDATED", str% "BYPASS"]

end Httpcache.Spec

namespace Httpcache.Spec
open Httpcache

/-! ### URI equivalence (RFC 3986 §6.2.2–6.2.3) on the components of an absolute http(s) URI whose
    dot segments were already removed -/

def isUnreservedASCII (c : Char) : Bool :=
  ('a' ≤ c && c ≤ 'z') || ('A' ≤ c && c ≤ 'Z') || ('0' ≤ c && c ≤ '9') || c = '-' || c = '.' || c = '_' || c = '~'

def isHex (c : Char) : Bool := ('0' ≤ c && c ≤ '9') || ('a' ≤ c && c ≤ 'f') || ('A' ≤ c && c ≤ 'F')
def hexValue (c : Char) : Nat :=
  if '0' ≤ c && c ≤ '9' then c.toNat - 48 else if 'a' ≤ c && c ≤ 'f' then c.toNat - 87 else c.toNat - 55
def hexUpper (n : Nat) : Char := if n < 10 then Char.ofNat (48 + n) else Char.ofNat (55 + n)

/-- percent-encoding normal form: escapes of unreserved ASCII decoded, all other escapes upper-case -/
def pctNorm : Str → Str
  | '%' :: a :: b :: r =>
    if isHex a && isHex b then
      let v := hexValue a * 16 + hexValue b
      if isUnreservedASCII (Char.ofNat v) then Char.ofNat v :: pctNorm r
      else '%' :: hexUpper (v / 16) :: hexUpper (v % 16) :: pctNorm r
    else '%' :: pctNorm (a :: b :: r)
  | c :: r => c :: pctNorm r
  | [] => []

def schemeDefaultPort (scheme : Str) : Str :=
  if scheme = (str% "http") then str% "80" else if scheme = (str% "https") then str% "443" else []

/-- (host, port) of an authority without userinfo; an IP literal keeps its brackets -/
def splitAuthority (hostport : Str) : Str × Str :=
  let rev := hostport.reverse
  let digits := rev.takeWhile isDigit
  match rev.dropWhile isDigit with
  | ':' :: hostRev => (hostRev.reverse, digits.reverse)
  | _ => (hostport, [])

/-- RFC 3986 §5.2.4 remove_dot_segments, on the segments of an absolute path: "." and ".." are whole
    segments; an empty segment is a segment like any other; a trailing "." or ".." leaves a trailing "/" -/
def dotSegs : List Str → List Str → List Str
  | out, [] => out
  | out, [seg] =>
    if seg = ['.'] then out ++ [[]] else if seg = ['.', '.'] then out.dropLast ++ [[]] else out ++ [seg]
  | out, seg :: rest =>
    if seg = ['.'] then dotSegs out rest else if seg = ['.', '.'] then dotSegs out.dropLast rest else dotSegs (out ++ [seg]) rest

def splitOnSlash (s : Str) : List Str :=
  let rec go (cur : Str) : Str → List Str
    | [] => [cur.reverse]
    | c :: r => if c = '/' then cur.reverse :: go [] r else go (c :: cur) r
  go [] s

def joinSlash : List Str → Str
  | [] => []
  | [x] => x
  | x :: xs => x ++ '/' :: joinSlash xs

def removeDots (path : Str) : Str :=
  match path with
  | '/' :: r => '/' :: joinSlash (dotSegs [] (splitOnSlash r))
  | _ => path

/-- the path of a URI with an authority is empty or begins with "/" -/
def rooted (host path : Str) : Str :=
  match host, path with
  | _ :: _, c :: _ => if c = '/' then path else '/' :: path
  | _, _ => path

/-- normal form of (scheme, authority, path, query); fragment and userinfo are not part of it.
    Percent-encoding is normalised first ("%2E" is a dot), then dot segments are removed. -/
def urlNorm (scheme host path query : Str) : Str :=
  let s := lowerASCII scheme
  let (h, p) := splitAuthority host
  let p := if p = schemeDefaultPort s then [] else p
  let auth := if p.isEmpty then lowerASCII h else lowerASCII h ++ [':'] ++ p
  -- a URI with an authority has a path that is empty or begins with "/" (RFC 3986 §3.3). A url.URL value can
  -- carry a host and a path without the slash (URL.JoinPath on a base without a path): the URI it stands for is
  -- the one url.URL.String writes, with the slash between authority and path
  let path := removeDots (pctNorm (rooted host path))
  let path := if path.isEmpty then ['/'] else path
  s ++ (str% "://") ++ auth ++ path ++ (if query.isEmpty then [] else '?' :: pctNorm query)

/-- … with the "?" of a query that is present and empty: "http://example.com/?" cannot be assumed
    equivalent to "http://example.com/" (RFC 3986 §6.2.3) -/
def urlNormQ (scheme host path query : Str) (forceQuery : Bool) : Str :=
  if forceQuery && query.isEmpty then urlNorm scheme host path query ++ ['?'] else urlNorm scheme host path query

/-- RFC 3986 §5.2.3 merge of a base path (of a URI with an authority) and a relative-path reference -/
def mergePaths (basePath refPath : Str) : Str :=
  if basePath.isEmpty then '/' :: refPath
  else (basePath.reverse.dropWhile (· ≠ '/')).reverse ++ refPath

/-- RFC 3986 §5.2.2 (transform references), on the components of the base (an http(s) request URI) and of the
    reference; a query is "defined" when it is non-empty or the "?" is there. The dot segments are NOT removed here:
    `urlNorm` does that, after the percent-encoding normalisation, exactly as for a request URI — so a reference and
    a request that spell the same URI the same way have the same normal form.
    Result: (scheme, authority, path, query, query-present-and-empty). -/
def resolveRef (bScheme bHost bPath bQuery : Str) (bFq : Bool) (rScheme rHost rPath rQuery : Str) (rFq : Bool) :
    Str × Str × Str × Str × Bool :=
  if !rScheme.isEmpty then (rScheme, rHost, rPath, rQuery, rFq)
  else if !rHost.isEmpty then (bScheme, rHost, rPath, rQuery, rFq)
  else if rPath.isEmpty then
    if rQuery.isEmpty && !rFq then (bScheme, bHost, bPath, bQuery, bFq) else (bScheme, bHost, bPath, rQuery, rFq)
  else if rPath.head? = some '/' then (bScheme, bHost, rPath, rQuery, rFq)
  else (bScheme, bHost, mergePaths (rooted bHost bPath) rPath, rQuery, rFq)

/-- same origin: scheme, host and effective port -/
def sameOrigin (s1 h1 s2 h2 : Str) : Bool :=
  let (a, p) := splitAuthority h1
  let (b, q) := splitAuthority h2
  let p := if p.isEmpty then schemeDefaultPort (lowerASCII s1) else p
  let q := if q.isEmpty then schemeDefaultPort (lowerASCII s2) else q
  lowerASCII s1 = lowerASCII s2 && lowerASCII a = lowerASCII b && p = q

/-- methods registered as safe (IANA HTTP Method Registry) -/
def ianaSafe : List Str := [str% "GET", str% "HEAD", str% "OPTIONS", str% "TRACE", str% "PROPFIND", str% "REPORT",
  str% "SEARCH", str% "PRI", str% "QUERY"]

/-! ### selecting header fields (RFC 9111 §4.1) -/

/-- the combined value of all field lines of a request header (RFC 9110 §5.3) -/
def combined (h : Header) (name : Str) : Option Str :=
  match Header.values h name with
  | [] => none
  | vs => some (joinWith [',', ' '] vs)

def insertSorted (x : Str) : List Str → List Str
  | [] => [x]
  | y :: ys => if strLe x y then x :: y :: ys else y :: insertSorted x ys

def sortStrs (l : List Str) : List Str := l.foldr insertSorted []

def trimWS (s : Str) : Str :=
  let ws := fun (c : Char) => c = ' ' || c = '\t' || c = '\n' || c = '\r' || c.toNat = 11 || c.toNat = 12
  ((s.dropWhile ws).reverse.dropWhile ws).reverse

/-- the equivalence class representative of a selecting value, by the documented class of its
    field (tables regenerated from internal/normalization.go): list fields up to member order and
    OWS, case-insensitive fields up to ASCII case, date fields up to surrounding white space, the
    Authorization scheme up to case; everything else byte for byte. absent ≡ empty. -/
def selCanon (orderInsensitive caseInsensitive timeInsensitive : List String) (field : Str) (v : Option Str) : Str :=
  match v with
  | none => []
  | some v =>
    if v.isEmpty then []
    else if (orderInsensitive.map String.toList).contains field then
      joinWith [','] (sortStrs (((splitList v false []).map trimOWS).filter (!·.isEmpty)))
    else if (caseInsensitive.map String.toList).contains field then lowerASCII v
    else if (timeInsensitive.map String.toList).contains field then trimWS v
    else if field = (str% "Authorization") then
      match cutAt ' ' v with
      | some (a, b) => lowerASCII a ++ [' '] ++ b
      | none => v
    else v

/-- a request validates the stored response when the preconditions it carries are exactly the stored
    validators (RFC 9111 §4.3.1: If-None-Match from the stored ETag, If-Modified-Since from the stored
    Last-Modified). When a precondition of the client's own reaches the origin because the stored
    response has no validator of that kind, a 304 may be about the client's copy and says nothing about
    the stored one: it is the origin's answer to the client, not a validation result. -/
def isValidationOf (stored call : Header) : Bool :=
  let own (v : Str) : List Str := if v.isEmpty then [] else [v]
  -- (a field line of white space only carries no value: it is trimmed on the wire, RFC 9110 §5.5)
  let nonEmpty (l : List Str) : List Str := l.filter (fun v => !(trimString v).isEmpty)
  if !(Header.get stored sETag).isEmpty then
    -- the stored ETag is what the origin evaluates; it ignores If-Modified-Since then (RFC 9110 §13.2.2)
    nonEmpty (Header.values call sIfNoneMatch) = [Header.get stored sETag]
  else
    nonEmpty (Header.values call sIfNoneMatch) = [] &&
    nonEmpty (Header.values call sIfModifiedSince) = own (Header.get stored sLastModified)

/-- the q-value classes (Accept, Accept-Charset, Accept-Language, Accept-Encoding, TE): what a cache makes of
    weights, parameters and wildcards is its own business (glue), but for a value that is a list of PLAIN
    tokens — no ";", no "*", no "=" — equivalence is decided by RFC 9110 alone: member order, optional
    white space and repetition do not matter, "x-gzip" is "gzip" and "x-compress" is "compress" (§8.4.1)
    as whole members; nothing else is equal. `none` = not a plain list (no judgement). -/
def qPlainCanon (v : Option Str) : Option Str :=
  match v with
  | none => some []
  | some v =>
    let ms := ((splitList v false []).map trimOWS).filter (!·.isEmpty)
    -- (bytes outside ASCII — obs-text — are bytes of the member like the letters: no rule of RFC 9110 equates two of them)
    let tok (m : Str) : Bool := !m.isEmpty && m.all fun c => isAlpha c || isDigit c || c = '-' || c = '.' || c = '_' || c = '/' || c = '+' || c.toNat ≥ 128
    -- a member is a plain token, or a token with parameters "name=token" none of which is a weight ("q"): the
    -- parameters belong to the member ("text/plain;charset=utf-8" is not "text/plain"), their order does not matter
    -- (the ";" that separate parameters are those outside quoted-strings: a parameter value may be a quoted-string,
    --  RFC 9110 §5.6.6, and a ";" or "," inside one is a byte of the value)
    let parts (m : Str) : List Str := (splitList (m.map fun c => if c = ';' then ',' else if c = ',' then ';' else c) false []).map
      fun p => trimOWS (p.map fun c => if c = ';' then ',' else if c = ',' then ';' else c)
    let paramOk (p : Str) : Bool := match cutAt '=' p with
      | some (n, val) => tok n && (tok val || (val.head? = some '"' && wellQuoted val)) && lowerASCII n ≠ ['q']
      | none => false
    let okMember (m : Str) : Bool := match parts m with
      | main :: ps => tok main && ps.all paramOk
      | [] => false
    if !ms.all okMember then none
    else
      let alias (m : Str) : Str := if m = (str% "x-gzip") then (str% "gzip") else if m = (str% "x-compress") then (str% "compress") else m
      let canonMember (m : Str) : Str := match parts m with
        | main :: ps => joinWith [';'] (alias main :: sortStrs ps)
        | [] => m
      some (joinWith [','] (sortStrs ((ms.map canonMember).eraseDups)))

/-- 304 freshening (RFC 9111 §4.3.4 / §3.2): every field of the 304 except hop-by-hop fields,
    the fields its Connection names and Content-Length replaces the stored field; a stored Age is
    dropped (the age restarts from the 304) -/
def merge304 (canon : Str → Str) (stored new : Header) : Header :=
  let named := (tokenListMembers new sConnection).map canon   -- every Connection field line (RFC 9110 §5.3)
  let skip := sContentLength :: (hopByHopFixed ++ named)
  let base := Header.del stored sAge
  (Header.names new).foldl (fun acc n =>
    if skip.contains n then acc else Header.setValues acc n (Header.values new n)) base

end Httpcache.Spec
