/-
Core definitions shared by the model, the specification and the driver.
Byte strings are `List Char` with one `Char` per byte (code < 256); every
operation below is byte-wise, as the Go code's are.
-/
namespace Httpcache

abbrev Str := List Char

/-- `str% "abc"` elaborates to the explicit list `['a','b','c']` (so that `decide`,
`simp` and `rfl` see constructor applications, never `String.toList`). -/
syntax "str%" str : term
open Lean in
macro_rules
  | `(str% $s:str) => do
      let cs := s.getString.toList
      let elems := cs.toArray.map fun c => Syntax.mkCharLit c
      `(([ $[$elems],* ] : List Char))

/-! ### int64 arithmetic as Go performs it -/

def maxI64 : Int := 9223372036854775807
def minI64 : Int := -9223372036854775808

/-- clamp to the int64 range: `time.Time.Sub` and `SatAdd` (internal/freshness.go). -/
def sat (x : Int) : Int :=
  if x > maxI64 then maxI64 else if x < minI64 then minI64 else x

def satAdd (a b : Int) : Int := sat (a + b)
def satSub (a b : Int) : Int := sat (a - b)

def nsPerSec : Int := 1000000000
/-- maxDeltaSeconds (internal/ccdirectives.go): largest number of seconds a Duration holds. -/
def maxDeltaSeconds : Int := 9223372036

/-! ### ASCII helpers -/

def isDigit (c : Char) : Bool := '0' ≤ c && c ≤ '9'
def isUpper (c : Char) : Bool := 'A' ≤ c && c ≤ 'Z'
def isLower (c : Char) : Bool := 'a' ≤ c && c ≤ 'z'
def isAlpha (c : Char) : Bool := isUpper c || isLower c

/-- internal/helpers.go lowerASCII, one byte. -/
def lowerChar (c : Char) : Char := if isUpper c then Char.ofNat (c.toNat + 32) else c
def upperChar (c : Char) : Char := if isLower c then Char.ofNat (c.toNat - 32) else c
def lowerASCII (s : Str) : Str := s.map lowerChar

/-- net/textproto isASCIISpace -/
def isTextprotoSpace (c : Char) : Bool := c = ' ' || c = '\t' || c = '\n' || c = '\r'

def trimLeft (p : Char → Bool) : Str → Str
  | [] => []
  | c :: cs => if p c then trimLeft p cs else c :: cs

def trimBoth (p : Char → Bool) (s : Str) : Str :=
  (trimLeft p (trimLeft p s).reverse).reverse

/-- textproto.TrimString -/
def trimString (s : Str) : Str := trimBoth isTextprotoSpace s

/-- strings.Split(s, ",") -/
def splitOnComma : Str → Str → List Str
  | [], cur => [cur.reverse]
  | ',' :: r, cur => cur.reverse :: splitOnComma r []
  | c :: r, cur => splitOnComma r (c :: cur)

/-- the first member of a list-based field value given as its field lines: the lines are one comma-separated
    list (RFC 9110 §5.3), white space around members and empty members do not count (§5.6.1) -/
def firstListMember (lines : List Str) : Str :=
  (((lines.flatMap fun v => splitOnComma v []).map trimString).filter (!·.isEmpty)).headD []

/-- strings.TrimSpace restricted to ASCII white space -/
def isGoSpace (c : Char) : Bool :=
  c = ' ' || c = '\t' || c = '\n' || c = '\r' || c.toNat = 11 || c.toNat = 12
def trimSpace (s : Str) : Str := trimBoth isGoSpace s

/-- strings.Cut at the first occurrence of a byte -/
def cutAt (sep : Char) : Str → Option (Str × Str)
  | [] => none
  | c :: cs =>
    if c = sep then some ([], cs)
    else match cutAt sep cs with
      | none => none
      | some (a, b) => some (c :: a, b)

def joinWith (sep : Str) : List Str → Str
  | [] => []
  | [x] => x
  | x :: xs => x ++ sep ++ joinWith sep xs

def digitVal (c : Char) : Nat := c.toNat - 48

def natOfDigits (s : Str) : Nat := s.foldl (fun acc c => acc * 10 + digitVal c) 0

def natToStr (n : Nat) : Str := (toString n).toList
def intToStr (n : Int) : Str := (toString n).toList

/-- strconv.ParseInt(s, 10, 64): `none` = syntax error, `some (inl _)` = range error
    (ErrRange; the sign tells which bound), `some (inr v)` = value. -/
inductive ParseIntRes where
  | syntaxErr
  | rangeErr (neg : Bool)
  | ok (v : Int)
  deriving DecidableEq, Repr

def parseInt64 (s : Str) : ParseIntRes :=
  let (neg, ds) := match s with
    | '+' :: r => (false, r)
    | '-' :: r => (true, r)
    | r => (false, r)
  if ds.isEmpty || !ds.all isDigit then .syntaxErr
  else
    let n : Int := natOfDigits ds
    if neg then (if n > 9223372036854775808 then .rangeErr true else .ok (-n))
    else (if n > maxI64 then .rangeErr false else .ok n)

/-! ### association lists with Go-map semantics -/

def alookup {β} (k : Str) : List (Str × β) → Option β
  | [] => none
  | (k', v) :: r => if k' = k then some v else alookup k r

/-- insert-or-replace (a Go map assignment) -/
def ainsert {β} (k : Str) (v : β) : List (Str × β) → List (Str × β)
  | [] => [(k, v)]
  | (k', v') :: r => if k' = k then (k, v) :: r else (k', v') :: ainsert k v r

/-- lexicographic order on byte strings (Go string comparison) -/
def strLt : Str → Str → Bool
  | [], [] => false
  | [], _ :: _ => true
  | _ :: _, [] => false
  | a :: as, b :: bs => if a.toNat < b.toNat then true else if a.toNat > b.toNat then false else strLt as bs

def strLe (a b : Str) : Bool := !strLt b a

/-- stable insertion sort -/
def insertBy {α} (le : α → α → Bool) (x : α) : List α → List α
  | [] => [x]
  | y :: ys => if le x y then x :: y :: ys else y :: insertBy le x ys

def sortBy {α} (le : α → α → Bool) (l : List α) : List α :=
  l.foldr (fun x acc => insertBy le x acc) []

end Httpcache
