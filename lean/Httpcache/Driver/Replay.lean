import Httpcache.Driver.Parse
/-
Correspondence: the model's interaction tree is advanced with the answers the REAL
implementation received (store reads, origin replies, clock), and at every node the
operation the model performs is compared with the operation the implementation performed.
-/
namespace Httpcache.Driver
open Httpcache

def canonResp (r : Resp) : Resp := { r with header := Header.canon r.header }
def canonEntry (e : Entry) : Entry := { e with resp := canonResp e.resp }

/-- a stored value as the harness decodes it (http.ReadResponse): the serialisation
    (httputil.DumpResponse) writes its own `Connection: close` for close-delimited responses —
    a codec artefact, not part of the entry (ParseResponse strips hop-by-hop fields) -/
def canonStored (e : Entry) : Entry :=
  canonEntry { e with resp := { e.resp with header := Header.del e.resp.header sConnection } }

/-- the harness decodes a reference's `received_at` of Go's zero time as "none" (time.Time.IsZero): that
    is how an absent Date is recorded; a Date that IS the zero time is the same instant -/
def canonRef (r : Ref) : Ref :=
  { r with receivedAt := if r.receivedAt = some zeroTimeNs then none else r.receivedAt }

def showRef (r : Ref) : String :=
  s!"\{id={shw r.id} vary={shw r.vary} resolved={String.intercalate "," (r.resolved.map fun p => shw p.1 ++ "=" ++ shw p.2)} at={r.receivedAt}}"

def showEntry (e : Entry) : String :=
  s!"entry(id={shw e.id} req={e.requestedAt} recv={e.receivedAt} status={e.resp.status} hdr=[{showHdrs (Header.canon e.resp.header)}] body={shw e.resp.body})"

def showOp : Op → String
  | .ret (.resp r) => s!"ret resp {r.status} [{showHdrs (Header.canon r.header)}] body={shw r.body}"
  | .ret .err => "ret err"
  | .ret .done => "ret done"
  | .getRefs k => s!"getRefs {shw k}"
  | .getEntry i => s!"getEntry {shw i}"
  | .setEntry i e => s!"setEntry {shw i} {showEntry e}"
  | .setRefs k r => s!"setRefs {shw k} [{String.intercalate ", " (r.map showRef)}]"
  | .delete k => s!"delete {shw k}"
  | .origin m h d => s!"origin {shw m} [{showHdrs (Header.canon h)}] deadline={d}"
  | .spawn => "spawn"

def showEv : Ev → String
  | .store e =>
    let v := match e.val with
      | .none => "-"
      | .idx refs nulls => s!"idx[{String.intercalate ", " (refs.map showRef)}] nulls={nulls}"
      | .ent en _ => showEntry en
      | .raw l => s!"raw({l})"
    s!"{e.op} {shw e.key} -> {e.result} {v}"
  | .call e => s!"origin {shw e.method} [{showHdrs e.hdr}] -> {e.outcome} dl={e.deadline}"

instance : Inhabited CallEv := ⟨{ n := 0, stream := "", k := 0, t0 := 0, t1 := 0, method := [], url := [], hdr := [], outcome := "", deadline := false }⟩

structure Outcome where
  diff : Option String := none
  bg : Option Prog := none
  final : Option Result := none
  ops : Nat := 0

/-- one exchange stream: advance `p` along `evs` -/
def replay (h : Hist) (n : Nat) : Nat → Prog → List Ev → Outcome → Outcome
  | 0, _, _, o => { o with diff := some "replay fuel exhausted" }
  | fuel + 1, p, evs, o =>
    let o := { o with ops := o.ops + 1 }
    match p with
    | .ret r => if evs.isEmpty then { o with final := some r }
                else { o with final := some r, diff := some s!"model ends ({showOp p.op}) but implementation continues with: {showEv (evs.headD (.call default))}" }
    | .spawn bg k => replay h n fuel k evs { o with bg := some bg }
    | _ =>
      match evs with
      | [] => { o with diff := some s!"model performs {showOp p.op} but the implementation performed no further operation" }
      | ev :: rest =>
        let mism := { o with diff := some s!"model: {showOp p.op} | implementation: {showEv ev}" }
        match p, ev with
        | .getRefs key k, .store e =>
          if e.op == "get" && e.key = key then
            let ans := match e.result, e.val with
              | "ok", .idx refs _ => some refs
              | _, _ => none
            replay h n fuel (k ans) rest o
          else mism
        | .getEntry id k, .store e =>
          if e.op == "get" && e.key = id then
            let ans := match e.result, e.val with
              | "ok", .ent en true => some en
              | _, _ => none
            replay h n fuel (k ans) rest o
          else mism
        | .setEntry id en k, .store e =>
          match e.val with
          | .ent en' _ =>
            if e.op == "set" && e.key = id && canonEntry en = canonStored en' then replay h n fuel (k (e.result == "ok")) rest o
            else mism
          | _ => mism
        | .setRefs key refs k, .store e =>
          match e.val with
          | .idx refs' 0 =>
            if e.op == "set" && e.key = key && refs.map canonRef = refs'.map canonRef then replay h n fuel (k (e.result == "ok")) rest o
            else mism
          | _ => mism
        | .delete key k, .store e =>
          if e.op == "del" && e.key = key then replay h n fuel k rest o else mism
        | .origin m hd dl k, .call e =>
          -- a deadline of the caller's own context (Cancel = "dl:<ns>") shows on every upstream request of the exchange
          let callerDl := match h.reqs.find? (·.n = n) with
            | some ri => ri.cancel.startsWith "dl:"
            | none => false
          if m = e.method && Header.canon hd = Header.canon e.hdr && (dl.isSome || callerDl) = e.deadline then
            let ans : OriginAns := match e.outcome, h.reply n e.k with
              -- (a body that fails part way, or ends before its declared length, cannot be serialised: nothing is stored)
              | "resp", some rp => .resp rp.resp e.t1 ((rp.bodyFail < 0 || rp.resp.body.isEmpty) && !rp.short)
              | _, _ => .err e.t1
            replay h n fuel (k ans) rest o
          else mism
        | _, _ => mism

def cfgFor (h : Hist) (n : Nat) : Cfg :=
  let k := match (h.stream n "fg").findSome? (fun | .call e => some e.k | _ => none) with
    | some k => k
    | none => 0
  { glue := h.glue, normQ := h.normQ,
    loc := fun hdr => match h.locs.find? (fun l => l.n = n && l.k = k && l.hdr = hdr) with
      | some l => if l.ok then some l.g else none
      | none => none,
    swrTimeout := swrTimeoutOf h.swrNs }

/-- Canonicalisation of the Age field: Go prints `int(d.Seconds())`, a float64 computation that
    may round x.999999999 s up once x exceeds 2^22 s; the model floors. Beyond that threshold
    an implementation value one above the model's is the same observation. -/
def ageTolerant (model impl : Header) : Header :=
  let am := Header.get model sAge
  let ai := Header.get impl sAge
  if am.all isDigit && ai.all isDigit && !am.isEmpty && natOfDigits am ≥ 4194304 && natOfDigits ai = natOfDigits am + 1
  then Header.set impl sAge am else impl

def resultMatches (r : Result) (e : ResEv) : Bool :=
  match r with
  | .resp rp => e.kind == "resp" && e.status = rp.status && Header.canon (ageTolerant rp.header e.hdr) = Header.canon rp.header &&
                (e.bodyErr || e.body = rp.body)
  | .err => e.kind == "err"
  | .done => false

/-- correspondence verdict for exchange n: `none` = agrees -/
def checkExchange (h : Hist) (ri : ReqIn) : Option String :=
  match h.res ri.n with
  | none => some "no RES line"
  | some res =>
    if res.kind == "badreq" then none else
    let fg := h.stream ri.n "fg"
    let p := roundTrip (cfgFor h ri.n) res.t0 ri.req
    let o := replay h ri.n (2 * fg.length + 16) p fg {}
    match o.diff with
    | some d => some s!"exchange {ri.n} (fg): {d}"
    | none =>
      match o.final with
      | none => some s!"exchange {ri.n} (fg): model did not finish"
      | some r =>
        if !resultMatches r res then
          some s!"exchange {ri.n} result: model {showOp (.ret r)} | implementation: {res.kind} {res.status} [{showHdrs res.hdr}] body={shw res.body}"
        else
          let bg := h.stream ri.n "bg"
          match o.bg with
          | none => if bg.isEmpty then none else some s!"exchange {ri.n}: implementation did background work, model spawned none: {showEv (bg.headD (.call default))}"
          | some bp =>
            let ob := replay h ri.n (2 * bg.length + 16) bp bg {}
            match ob.diff with
            | some d => some s!"exchange {ri.n} (bg): {d}"
            | none => none

def checkHistory (h : Hist) : Option String :=
  match h.fatal with
  | some m => some s!"harness fatal: {m}"
  | none => h.reqs.findSome? (checkExchange h)

end Httpcache.Driver
