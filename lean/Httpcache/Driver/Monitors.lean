import Httpcache.Driver.Replay
import Httpcache.Spec.Defs
/-
Executable monitors: each property's statement (Spec) evaluated on the IMPLEMENTATION's trace.
-/
namespace Httpcache.Driver
open Httpcache

/-- the origin token "tok-<n>-<k>|" at the start of a body -/
def tokenOf (body : Str) : Option (Nat × Nat) :=
  match body with
  | 't' :: 'o' :: 'k' :: '-' :: r =>
    let ns := r.takeWhile isDigit
    match r.dropWhile isDigit with
    | '-' :: r2 =>
      let ks := r2.takeWhile isDigit
      match r2.dropWhile isDigit with
      | '|' :: _ => if ns.isEmpty || ks.isEmpty then none else some (natOfDigits ns, natOfDigits ks)
      | _ => none
    | _ => none
  | _ => none

def Hist.calls (h : Hist) (n : Nat) (s : String) : List CallEv :=
  (h.stream n s).filterMap fun | .call e => some e | _ => none

def Hist.stores (h : Hist) (n : Nat) (s : String) : List StoreEv :=
  (h.stream n s).filterMap fun | .store e => some e | _ => none

/-- the entry the implementation read from the store in the foreground of exchange n (last one) -/
def Hist.entryRead (h : Hist) (n : Nat) : Option Entry :=
  ((h.stores n "fg").reverse.findSome? fun e => match e.op, e.result, e.val with
    | "get", "ok", .ent en true => some en
    | _, _, _ => none)

def storedOf (e : Entry) : Spec.Stored := Spec.storedOfEntry e

def statusValues (hd : Header) : List Str := Header.values hd sStatusHeader

structure Ex where
  ri : ReqIn
  res : ResEv
  fgCalls : List CallEv
  bgCalls : List CallEv
  entry : Option Entry
  token : Option (Nat × Nat)

def Hist.ex (h : Hist) (ri : ReqIn) : Option Ex :=
  (h.res ri.n).map fun res =>
    { ri := ri, res := res, fgCalls := h.calls ri.n "fg", bgCalls := h.calls ri.n "bg",
      entry := h.entryRead ri.n, token := if res.kind == "resp" then tokenOf res.body else none }

/-- the reply the k-th... the foreground call of this exchange received, if it got one -/
def Ex.fgReply (h : Hist) (x : Ex) : Option ReplyIn :=
  match x.fgCalls.getLast? with
  | some c => if c.outcome == "resp" then h.reply x.ri.n c.k else none
  | none => none

/-- served from the store: a response that is not the reply of this exchange's own origin call -/
def Ex.fromStore (x : Ex) : Bool :=
  x.res.kind == "resp" &&
  match x.token with
  | some (n, _) => n ≠ x.ri.n
  | none =>
    -- no token (empty body): from the store iff the cache says so or nobody was asked
    (statusValues x.res.hdr).any (fun v => v = (str% "HIT") || v = (str% "STALE") || v = (str% "REVALIDATED"))

/-- the foreground call of this exchange was answered 304 AND that call validates the entry read
    (`Spec.isValidationOf`: it carried the stored validators and no other precondition) -/
def Ex.got304 (h : Hist) (x : Ex) : Bool :=
  match x.fgReply h with
  | some rp => rp.resp.status = 304 &&
      (match x.entry, x.fgCalls.getLast? with
       | some e, some c => Spec.isValidationOf e.resp.header c.hdr
       | _, _ => true)
  | none => false

def isPlainGet (ri : ReqIn) : Bool := ri.method = sGET && !(Header.has ri.req.header sRange)

def isSynth504 (x : Ex) : Bool :=
  x.res.kind == "resp" && x.res.status = 504 && x.fgCalls.isEmpty && x.res.body.isEmpty

def first? {α} (l : List (Option α)) : Option α := l.findSome? id


/-- may the 304 `rp`, received for the request `reqH` by a call carrying `callH`, be written into the
    stored response with header `stored`? Not when the request or the 304 carries no-store (RFC 9111
    §5.2.1.5, §5.2.2.5: no part of the response is stored), and not when it is not a validation result
    for that stored response (`Spec.isValidationOf`). -/
def freshenForbidden (reqH callH stored : Header) (rp : Resp) (storedStatus : Nat := 200) (conservative : Bool := false) : Option String :=
  if Spec.hasDirective Spec.rfc reqH (str% "no-store") then some "the request carries no-store"
  else if Spec.hasDirective Spec.rfc rp.header (str% "no-store") then some "the 304 carries no-store"
  else if !Spec.isValidationOf stored callH then
    some s!"it answers the client's own precondition (request [{showHdrs callH}], stored validators [{showHdrs (stored.filter fun p => p.1 = sETag || p.1 = sLastModified)}])"
  else
    -- the response as it would be stored: the stored status with the merged fields. What may not be stored when
    -- it arrives directly may not be stored when a 304 turns the stored response into it either.
    let merged := Spec.merge304 canonicalHeaderKey stored rp.header
    if Spec.hasDirective Spec.rfc merged (str% "must-understand") && !Generated.statusUnderstood.contains storedStatus then
      some s!"the merged response carries must-understand with status {storedStatus}, which is not understood"
    else if !Spec.hasDirective Spec.rfc merged (str% "max-age") && !Header.has merged sExpires && !Spec.hasDirective Spec.rfc merged (str% "public") &&
            !Spec.heuristicallyCacheable.contains storedStatus then
      some s!"the merged response (status {storedStatus}) has no explicit freshness and is not heuristically cacheable"
    -- `conservative` (used where a write is DEMANDED, C08, not where one is forbidden): a cache may decline to store
    -- what it could store. The implementation's own table of heuristically cacheable statuses is shorter than RFC 9110's
    -- (no 204, 300), and an Expires field without a value is no explicit freshness to it: a merged response it would not
    -- have stored had it arrived directly has a lifetime of zero in its own terms, so no later request is "within the new lifetime".
    else if conservative && !Spec.hasDirective Spec.rfc merged (str% "max-age") && (Header.get merged sExpires).isEmpty &&
            !Spec.hasDirective Spec.rfc merged (str% "public") && !Generated.heuristicStatus.contains storedStatus then
      some s!"the merged response (status {storedStatus}) has no explicit freshness and the cache does not assign heuristic freshness to that status"
    else none

/-! ### the stored response as the ORIGIN's replies define it (ghost)

Monitors that read the stored response from the implementation's own store see what the cache wrote,
so a field lost or kept wrongly at WRITE time (e.g. the Age of a 304 while freshening) is invisible
to them. The ghost recomputes, from the scripted replies alone, the header and the two instants each
stored response must have (RFC 9111 §3, §4.3.4): a full reply replaces it, a 304 freshens it with
`Spec.merge304`, a delete forgets it. It is defined only for histories without store faults and only
for sequential ones; otherwise the monitors fall back to the stored copy. -/

def dateFixed (h : Hist) (hd : Header) (t1 : Int) : Header :=
  match Spec.httpTime h.glue.parseTime hd sDate with
  | some _ => hd
  | none => Header.set hd sDate (httpDate (t1 / nsPerSec))

/-- the ghost of the entry read by the foreground of exchange `n` -/
def Hist.ghostAt (h : Hist) (n : Nat) : Option Spec.Stored :=
  if !h.faults.isEmpty || !h.own.isEmpty || h.cls == "concurrent" || h.cls == "inval-race" || h.cls == "reval-race" then none else
  let rec go (evs : List Ev) (m : List (Str × Option Spec.Stored)) : Option Spec.Stored :=
    match evs with
    | [] => none
    | .call _ :: r => go r m
    | .store e :: r =>
      if e.n = n && e.stream == "fg" && e.op == "get" && (match e.val with | .ent _ _ => true | _ => false) then
        (alookup e.key m).join
      else match e.op, e.val with
        | "set", .ent _ _ =>
          let cause := ((h.calls e.n e.stream).getLast?).bind fun c =>
            if c.outcome == "resp" then (h.reply e.n c.k).map fun rp => (c, rp) else none
          -- the entry a 304 is about is the one this stream READ (its key may differ from the key written: a 304
          -- that changes the Vary field makes the cache store the merged response anew under another identifier)
          let srcKey := ((h.stores e.n e.stream).filter (·.idx < e.idx)).reverse.findSome? (fun s => match s.op, s.result, s.val with
            | "get", "ok", .ent _ true => some s.key
            | _, _, _ => none) |>.getD e.key
          let v : Option Spec.Stored := match cause with
            | none => none
            | some (c, rp) =>
              if rp.kind != "resp" then none
              else if rp.resp.status = 304 then
                ((alookup srcKey m).join).map fun old =>
                  -- not a validation result, or no-store on either side: nothing may change
                  if (match h.reqs.find? (·.n = e.n) with
                      | some ri => (freshenForbidden ri.req.header c.hdr old.header rp.resp old.status).isSome
                      | none => !Spec.isValidationOf old.header c.hdr) then old else
                  { old with header := Spec.merge304 canonicalHeaderKey old.header (dateFixed h rp.resp.header c.t1),
                             requestTime := c.t0, responseTime := c.t1 }
              else some { status := rp.resp.status, header := dateFixed h rp.resp.header c.t1, requestTime := c.t0, responseTime := c.t1 }
          go r (ainsert e.key v m)
        | "del", _ => go r (ainsert e.key none m)
        | _, _ => go r m
  go h.evs []

/-- the views of the stored response a monitor judges: the stored copy and, when defined, the ghost -/
def Hist.storedViews (h : Hist) (n : Nat) (e : Entry) : List (String × Spec.Stored) :=
  ("", storedOf e) :: (match h.ghostAt n with
    | some g => [(" [by the header and instants the origin's replies imply; the stored copy differs]", g)]
    | none => [])

/-! ### C01 -/
def monC01 (h : Hist) : Option String :=
  let parse := h.glue.parseTime
  h.reqs.findSome? fun ri => do
    let x ← h.ex ri
    if !(x.fromStore && x.fgCalls.isEmpty && isPlainGet ri) then none else
    match x.entry with
    | none => some s!"exchange {ri.n}: answered from the store without an origin call, but no entry was read from the store"
    | some e =>
      (h.storedViews ri.n e).findSome? fun (note, s) =>
      let now := x.res.t0
      if Spec.isFresh Spec.rfc parse s now then none
      else
        if Spec.hasDirective Spec.rfc ri.req.header (str% "only-if-cached") then none
        else if Spec.maxStaleCovers Spec.rfc ri.req.header (Spec.currentAge parse s now) (Spec.freshnessLifetime Spec.rfc parse s) then none
        else
          let swrOk := match Spec.directiveSeconds Spec.rfc s.header (str% "stale-while-revalidate") with
            | some w => Spec.withinWindow Spec.rfc parse s now w && !x.bgCalls.isEmpty
            | none => false
          if swrOk then none
          else some s!"exchange {ri.n}: stale response served without origin contact: age={Spec.currentAge parse s now} lifetime={Spec.freshnessLifetime Spec.rfc parse s} (ns), request [{showHdrs ri.req.header}], stored [{showHdrs s.header}]{note}"

/-- C12, last sentence ("numeric arguments too large to represent act as a value of at least 2^31 seconds instead of
    wrapping around"), for the request's min-fresh — the one numeric directive the other clauses do not read: a
    request that demands at least N ≥ 2^31 seconds of remaining freshness is answered from the store without
    validation only if at least 2^31 seconds remain -/
def monHugeMinFresh (h : Hist) : Option String :=
  let parse := h.glue.parseTime
  h.reqs.findSome? fun ri => do
    let x ← h.ex ri
    if !(x.fromStore && x.fgCalls.isEmpty && isPlainGet ri) then none else
    match Spec.directiveArg Spec.rfc ri.req.header (str% "min-fresh") with
    | some (some a) =>
      if a.isEmpty || !a.all isDigit || natOfDigits a < 2147483648 then none else
      match x.entry with
      | none => none
      | some e =>
        let s := storedOf e
        let remaining := Spec.freshnessLifetime Spec.rfc parse s - Spec.currentAge parse s x.res.t0
        -- (a STALE response served under stale-while-revalidate, max-stale or only-if-cached is another question —
        --  which permission wins — and not one about numbers: only responses that are fresh are judged)
        if remaining ≥ 2147483648 * nsPerSec || !Spec.isFresh Spec.rfc parse s x.res.t0 ||
            Spec.hasDirective Spec.rfc ri.req.header (str% "only-if-cached") || Spec.hasDirective Spec.rfc ri.req.header (str% "max-stale") then none
        else some s!"exchange {ri.n}: request min-fresh={shw a} (≥ 2^31 s) answered from the store with {remaining} ns of freshness left: the number wrapped around or was ignored"
    | _ => none

/-! ### C02 -/
def condHeadersOk (reqH storedH callH : Header) : Bool :=
  let etag := Header.get storedH sETag
  let lm := Header.get storedH sLastModified
  let want := if etag.isEmpty then reqH else Header.set reqH sIfNoneMatch etag
  let want := if lm.isEmpty then want else Header.set want sIfModifiedSince lm
  Header.canon want = Header.canon callH

def monC02 (h : Hist) : Option String :=
  let parse := h.glue.parseTime
  h.reqs.findSome? fun ri => do
    let x ← h.ex ri
    if !isPlainGet ri then none else
    match h.reqcmp.find? (·.1 = ri.n) with
    | some (_, false) => some s!"exchange {ri.n}: the caller's request object was modified"
    | _ =>
    match x.entry with
    | none => none
    | some e =>
      let s := storedOf e
      let now := x.res.t0
      let strictG := match h.ghostAt ri.n with
        | some g => Spec.strictValidate Spec.rfc parse ri.req.header g now
        | none => false
      -- "requires validation" when the exchange starts, or — if the origin was asked and did not validate — when its
      -- answer arrives (a must-revalidate response may run out while the origin is being asked)
      let strict := Spec.strictValidate Spec.rfc parse ri.req.header s now ||
        (match x.fgCalls.getLast? with
         | some c => Spec.strictValidate Spec.rfc parse ri.req.header s c.t1
         | none => false)
      let soft := Spec.requestMaxAgeExceeded Spec.rfc parse ri.req.header s now
      let servedStored := x.fromStore && x.token == tokenOf e.resp.body
      -- a validation request, when one is sent for this entry, is the client's request + validators
      let condBad := match x.fgCalls.head? with
        | some c => if condHeadersOk ri.req.header s.header c.hdr then none
                    else some s!"exchange {ri.n}: validation request headers [{showHdrs c.hdr}] are not the client's [{showHdrs ri.req.header}] plus the stored validators [{showHdrs s.header}]"
        | none => none
      if condBad.isSome then condBad else
      if servedStored && !x.got304 h then
        if !strict && strictG then
          some s!"exchange {ri.n}: stored response that requires validation (by the header and instants the origin's replies imply; the stored copy differs) returned without a 304 in this exchange (request [{showHdrs ri.req.header}], stored copy [{showHdrs s.header}])"
        else if strict then
          some s!"exchange {ri.n}: stored response that requires validation returned without a 304 in this exchange (request [{showHdrs ri.req.header}], stored [{showHdrs s.header}], age={Spec.currentAge parse s now}, lifetime={Spec.freshnessLifetime Spec.rfc parse s})"
        else if soft && x.fgCalls.isEmpty then
          some s!"exchange {ri.n}: request max-age exceeded but the stored response was returned without contacting the origin (request [{showHdrs ri.req.header}], age={Spec.currentAge parse s now})"
        else
          -- fields named by a qualified no-cache are not replayed without validation
          -- (the fields the cache sets itself on what it serves — Age, its status fields — are the cache's own values there,
          -- not the origin's replayed: C11 decides what they must say)
          match (Spec.noCacheFields Spec.rfc s.header).find? (fun f =>
              !([sAge, sStatusHeader, sFromCache].contains (canonicalHeaderKey f)) && Header.has x.res.hdr (canonicalHeaderKey f)) with
          | some f => some s!"exchange {ri.n}: field {shw f} named by a qualified no-cache was replayed without validation"
          | none =>
            -- … nor in the trailer section of what is served: a field the origin sent as a trailer field is a field of
            -- the stored response like the others (the caller reads it from Response.Trailer once the body is read)
            match (Spec.noCacheFields Spec.rfc s.header).find? (fun f =>
                (h.trailers.find? (·.1 = ri.n)).any fun t => Header.has t.2 (canonicalHeaderKey f)) with
            | some f => some s!"exchange {ri.n}: trailer field {shw f} named by a qualified no-cache was replayed without validation"
            | none => none
      else if (strict || soft) && x.res.kind == "resp" && !servedStored && !isSynth504 x then
        -- then it must be the origin's own answer of this exchange
        match x.token with
        | some (n, _) => if n = ri.n then none else some s!"exchange {ri.n}: validation required, yet a response of exchange {n} was returned"
        | none => none
      else none

/-! ### C06 -/
def replyForbidsStoring (ri : ReqIn) (rp : ReplyIn) : Option String :=
  let hd := rp.resp.header
  let st := rp.resp.status
  if Spec.hasDirective Spec.rfc ri.req.header (str% "no-store") then some "request no-store"
  else if Spec.hasDirective Spec.rfc hd (str% "no-store") then some "response no-store"
  else if !isPlainGet ri then some "not a plain GET"
  else if st < 200 || st = 206 || st = 304 then some s!"status {st}"
  else if Spec.hasDirective Spec.rfc hd (str% "must-understand") && !Generated.statusUnderstood.contains st then some "must-understand with a status that is not understood"
  else if !Spec.hasDirective Spec.rfc hd (str% "max-age") && !Header.has hd sExpires && !Spec.hasDirective Spec.rfc hd (str% "public") &&
          !Spec.heuristicallyCacheable.contains st then some "no explicit freshness and not heuristically cacheable"
  else if rp.bodyFail ≥ 0 && !rp.resp.body.isEmpty then some "body could not be read completely"
  else if rp.short then some "body ended before the length the reply declares"
  else none

/-- an entry write caused by a 304 -/
def notAValidation (h : Hist) (e : StoreEv) : Option String :=
  match (h.calls e.n e.stream).getLast?, h.reqs.find? (·.n = e.n) with
  | some c, some ri =>
    if c.outcome != "resp" then none else
    match h.reply e.n c.k with
    | none => none
    | some rp =>
      if rp.resp.status ≠ 304 then none else
      -- the entry as it was read in this stream before the write (a 304 that changes Vary makes the cache store the
      -- merged response under ANOTHER identifier: whatever is written after a 304 is the entry that was read, merged)
      match ((h.stores e.n e.stream).filter (·.idx < e.idx)).reverse.findSome? (fun s => match s.op, s.result, s.val with
          | "get", "ok", .ent en true => some en
          | _, _, _ => none) with
      | none => none
      | some old =>
        (freshenForbidden ri.req.header c.hdr old.resp.header rp.resp old.resp.status).map fun why =>
          s!"exchange {e.n} ({e.stream}): a 304 was written into the stored response although {why}"
  | _, _ => none

def monC06 (h : Hist) : Option String :=
  first? [
    -- every entry write: the response whose body it carries may be stored
    h.evs.findSome? fun
      | .store e =>
        match e.op, e.val with
        | "set", .ent en _ =>
          (match tokenOf en.resp.body with
          | some (n, k) =>
            (match h.reqs.find? (·.n = n), h.reply n k with
            | some ri, some rp =>
              (match replyForbidsStoring ri rp with
              | some why => some s!"exchange {e.n} ({e.stream}): stored the response of exchange {n} although: {why}"
              | none => notAValidation h e)
            | _, _ => none)
          | none =>
            -- body-less entry: find the reply of this stream's call
            (match h.reqs.find? (·.n = e.n), ((h.calls e.n e.stream).getLast?).bind (fun c => h.reply e.n c.k) with
            | some ri, some rp =>
              if rp.resp.status = 304 then none   -- freshening write of an old entry
              else (replyForbidsStoring ri rp).map fun why => s!"exchange {e.n} ({e.stream}): stored a body-less response although: {why}"
            | _, _ => none))
        | "set", .idx refs _ =>
          -- an index write only references entries that exist: ids read before or written now
          let known : List Str := (h.stores e.n e.stream).flatMap fun s =>
            if s.idx < e.idx then match s.op, s.result, s.val with
              | "get", "ok", .idx rs _ => rs.map (·.id)
              | "set", "ok", .ent en _ => [en.id]
              | _, _, _ => []
            else []
          (refs.find? (fun r => !known.contains r.id)).map fun r =>
            s!"exchange {e.n} ({e.stream}): index references {shw r.id}, which was neither read nor successfully written"
        | _, _ => none
      | _ => none,
    -- nothing that must not be stored is served later; an unconditional GET never gets a 304
    h.reqs.findSome? fun ri => do
      let x ← h.ex ri
      if x.res.kind != "resp" then none else
      let st := x.res.status
      -- a precondition field whose lines are all empty or white space carries no precondition (trimmed on the wire)
      let hasValue (n : Str) : Bool := (Header.values ri.req.header n).any fun v => !(trimString v).isEmpty
      let clientConditional := hasValue sIfNoneMatch || hasValue sIfModifiedSince
      if x.fromStore && x.fgCalls.isEmpty && (st < 200 || st = 206 || st = 304) then
        some s!"exchange {ri.n}: status {st} served from the store"
      else if st = 304 && !clientConditional && isPlainGet ri then
        match x.fgCalls.head? with
        | none => some s!"exchange {ri.n}: unconditional GET answered with a 304 from the store"
        | some c => if (Header.values c.hdr sIfNoneMatch ++ Header.values c.hdr sIfModifiedSince).any (fun v => !(trimString v).isEmpty)
                    then some s!"exchange {ri.n}: unconditional GET answered with the 304 of the cache's own validation request"
                    else none
      else none ]

/-! ### C10 -/
def monC10 (h : Hist) : Option String :=
  first? [
    if h.leak > 0 then some s!"{h.leak} origin call(s) still pending after every timeout elapsed" else none,
    -- "nor hangs": once the origin's failure has arrived, the stored response that is served in its place is served
    -- then — not after the body of the failure reply, which nobody uses, has trickled in
    h.reqs.findSome? (fun ri => do
      let x ← h.ex ri
      let c ← x.fgCalls.getLast?
      if x.res.kind == "resp" && x.fromStore && c.outcome == "resp" && x.res.t1 > c.t1 + nsPerSec then
        some s!"exchange {ri.n}: the stored response was returned {(x.res.t1 - c.t1) / nsPerSec} s after the origin's reply had arrived: RoundTrip waited for a body it does not use"
      else none),
    h.bodyLeaks.head?.map fun p =>
      s!"exchange {p.1} ({p.2.1} call {p.2.2}): the origin's response body was neither read to its end nor closed (its connection is held for ever)",
    h.reqs.findSome? fun ri => do
      let x ← h.ex ri
      match x.res.kind with
      | "panic" => some s!"exchange {ri.n}: RoundTrip panicked: {shw x.res.body}"
      | "both" => some s!"exchange {ri.n}: RoundTrip returned a response and an error"
      | "neither" => some s!"exchange {ri.n}: RoundTrip returned neither a response nor an error"
      | "err" =>
        (match x.fgCalls.getLast? with
        | some c => if c.outcome == "resp" then some s!"exchange {ri.n}: error returned although the origin answered" else none
        | none => some s!"exchange {ri.n}: error returned without any origin call")
      | _ =>
        -- store faults: served by the origin, correct response
        let faulted := (h.faults.any fun f => f.n = ri.n && f.stream == "fg") ||
          ((h.stores ri.n "fg").any fun s => s.op == "get" && s.result == "err")
        if faulted && x.res.kind == "resp" && !Spec.hasDirective Spec.rfc ri.req.header (str% "only-if-cached") then
          let readFault := (h.stores ri.n "fg").any fun s => s.op == "get" &&
            (s.result == "err" || (match s.val with | .raw _ => true | .ent _ false => true | _ => false))
          -- a truncated entry is detectable whatever the framing of the reply was (Content-Length, chunked, or
          -- delimited by the end of the connection: the cache knows how many bytes it read)
          let truncated := h.faults.any fun f => f.n = ri.n && f.stream == "fg" && f.kind == "trunc"
          let shortBody := match x.token with
            | some (m, k) => (match h.reply m k, h.frame m k with
              | some rp, some (fr, _) => m ≠ ri.n && !fr.isEmpty && rp.bodyFail < 0 && !x.res.bodyErr && x.res.body ≠ rp.resp.body
              | _, _ => false)
            | none => false
          if readFault && x.fromStore && x.fgCalls.isEmpty then
            some s!"exchange {ri.n}: a store read failed or was undecodable, yet the response came from the store"
          else if truncated && x.fromStore && shortBody then
            some s!"exchange {ri.n}: the stored bytes were truncated, yet a response with a shortened body was served from the store"
          else if x.fromStore && x.res.bodyErr && (match x.token with | some (m, k) => (match h.reply m k with | some rp => rp.bodyFail < 0 | none => false) | none => false) then
            some s!"exchange {ri.n}: a response was served from the store whose body cannot be read to the end"
          else match x.fgReply h, x.token with
            | some rp, some (n, _) =>
              if n = ri.n && rp.resp.status ≠ x.res.status then some s!"exchange {ri.n}: status {x.res.status} differs from the origin's {rp.resp.status}" else none
            | _, _ => none
        else none ]

/-! ### C11 -/
def monC11 (h : Hist) : Option String :=
  let parse := h.glue.parseTime
  h.reqs.findSome? fun ri => do
    let x ← h.ex ri
    if x.res.kind != "resp" then none else
    let sv := statusValues x.res.hdr
    match sv with
    | [v] =>
      if !Spec.statusTokens.contains v then some s!"exchange {ri.n}: unknown cache status {shw v}" else
      let fromCacheHdr := Header.values x.res.hdr sFromCache
      let isCached := v = (str% "HIT") || v = (str% "STALE") || v = (str% "REVALIDATED")
      if isCached && fromCacheHdr ≠ [['1']] then some s!"exchange {ri.n}: status {shw v} but X-From-Cache is not exactly '1'"
      else if !isCached && !fromCacheHdr.isEmpty then some s!"exchange {ri.n}: status {shw v} but X-From-Cache present"
      else
        let ownReply := match x.token with
          | some (n, _) => n = ri.n
          | none => !x.fgCalls.isEmpty || isSynth504 x
        if v = (str% "HIT") && !(x.fgCalls.isEmpty && x.fromStore) then some s!"exchange {ri.n}: HIT but the origin was contacted or the response is not from the store"
        else if v = (str% "REVALIDATED") && !(x.fromStore && x.got304 h) then some s!"exchange {ri.n}: REVALIDATED without a 304 in this exchange"
        else if v = (str% "STALE") && !x.fromStore then some s!"exchange {ri.n}: STALE but the response is not from the store"
        else if v = (str% "STALE") && x.fgCalls.isEmpty &&
                (match x.entry with | some e => Spec.isFresh Spec.rfc parse (storedOf e) x.res.t0 | none => false) then
          some s!"exchange {ri.n}: STALE but the stored response is fresh and no validation failed"
        else if (v = (str% "MISS") || v = (str% "BYPASS")) && !ownReply then some s!"exchange {ri.n}: {shw v} but the response is not this exchange's origin reply (nor the synthesised 504)"
        else
          -- Age on everything served from the store without successful validation
          if x.fromStore && !x.got304 h then
            match x.entry with
            | none => none
            | some e =>
              (h.storedViews ri.n e).findSome? fun (note, s) =>
              let want := Spec.currentAge parse s x.res.t1 / nsPerSec
              match Header.values x.res.hdr sAge with
              | [a] =>
                if !a.isEmpty && a.all isDigit && ((natOfDigits a : Int) - want).natAbs ≤ 1 then none
                else some s!"exchange {ri.n}: Age is {shw a}, current age is {want} s{note}"
              | l => some s!"exchange {ri.n}: {l.length} Age fields on a response served from the store"
          else none
    | l => some s!"exchange {ri.n}: {l.length} X-Httpcache-Status values"

/-! ### C13 -/
def monC13 (h : Hist) : Option String :=
  let parse := h.glue.parseTime
  h.reqs.findSome? fun ri => do
    let x ← h.ex ri
    if !isPlainGet ri then none else
    let e ← x.entry
    let c ← x.fgCalls.getLast?
    let failed := c.outcome != "resp" || (match h.reply ri.n c.k with
      | some rp => [500, 502, 503, 504].contains rp.resp.status
      | none => false)
    let errStatusOther := c.outcome == "resp" && (match h.reply ri.n c.k with
      | some rp => rp.resp.status ≥ 400 && ![500, 502, 503, 504].contains rp.resp.status
      | none => false)
    let s := storedOf e
    let now := c.t1
    let servedStored := x.fromStore && x.token == tokenOf e.resp.body
    -- validation is mandatory when it is at the start of the exchange OR at the instant of the failure: a
    -- must-revalidate response that was fresh when the origin was asked and is stale when the answer fails
    -- (a slow origin) may not be served either
    let strict := Spec.strictValidate Spec.rfc parse ri.req.header s x.res.t0 || Spec.strictValidate Spec.rfc parse ri.req.header s now
    let ns := [Spec.directiveSeconds Spec.rfc s.header (str% "stale-if-error"), Spec.directiveSeconds Spec.rfc ri.req.header (str% "stale-if-error")].filterMap id
    let st := Spec.staleness Spec.rfc parse s now
    -- the window is measured from the response's own lifetime whatever max-age the request carries (a
    -- request max-age forces validation, RFC 9111 §5.2.1.1; it does not make the response "more stale")
    let simpleReq := !Spec.hasDirective Spec.rfc ri.req.header (str% "min-fresh")
    if errStatusOther && servedStored then
      some s!"exchange {ri.n}: stored response returned for a failure status outside 500/502/503/504"
    else if failed then
      if servedStored then
        if strict then some s!"exchange {ri.n}: stale-if-error applied although no-cache / must-revalidate demands validation"
        else if ns.isEmpty then some s!"exchange {ri.n}: stored response returned on failure without any stale-if-error on the stored response or the request"
        else if simpleReq && ns.all (fun n => !Spec.withinWindow Spec.rfc parse s now n) then some s!"exchange {ri.n}: stale-if-error applied outside its window: staleness {st} ns, windows {ns}"
        else if !(statusValues x.res.hdr == [str% "STALE"]) then some s!"exchange {ri.n}: stale-if-error response not marked STALE"
        else none
      else
        if !strict && simpleReq && ns.any (fun n => Spec.withinWindow Spec.rfc parse s now n) && !Spec.isFresh Spec.rfc parse s now &&
           !Spec.conflictingDuplicate s.header (str% "max-age") && !Spec.conflictingDuplicate s.header (str% "stale-if-error") &&
           !Spec.conflictingDuplicate ri.req.header (str% "stale-if-error") then
          some s!"exchange {ri.n}: validation failed inside the stale-if-error window (staleness {st} ns, windows {ns}) but the stored response was not returned"
        else none
    else none

/-! ### C18 -/
def monC18 (h : Hist) : Option String :=
  let parse := h.glue.parseTime
  h.reqs.findSome? fun ri => do
    let x ← h.ex ri
    if !(Spec.hasDirective Spec.rfc ri.req.header (str% "only-if-cached")) then none else
    if !x.fgCalls.isEmpty || !x.bgCalls.isEmpty then some s!"exchange {ri.n}: only-if-cached request caused an origin call"
    else if x.res.kind != "resp" then some s!"exchange {ri.n}: only-if-cached request did not get a response"
    else if x.fromStore then
      match x.entry with
      | some e => if Spec.strictValidate Spec.rfc parse ri.req.header (storedOf e) x.res.t0 then
          some s!"exchange {ri.n}: only-if-cached answered with a stored response that requires validation" else none
      | none => some s!"exchange {ri.n}: only-if-cached answered from the store without reading an entry"
    else if x.res.status = 504 then none
    else some s!"exchange {ri.n}: only-if-cached answered with status {x.res.status} that is neither stored nor the synthesised 504"

def monitorFor (prop : String) : Hist → Option String :=
  match prop with
  | "C01" => monC01
  | "C02" => monC02
  | "C06" => monC06
  | "C10" => monC10
  | "C11" => monC11
  | "C13" => monC13
  | "C18" => monC18
  | _ => fun _ => none

end Httpcache.Driver
