import Httpcache.Driver.Monitors
/-
History-level monitors (provenance through the origin token embedded in every body).
-/
namespace Httpcache.Driver
open Httpcache

def Hist.reqOf (h : Hist) (n : Nat) : Option ReqIn := h.reqs.find? (·.n = n)

def normOf (ri : ReqIn) : Str := Spec.urlNormQ ri.req.scheme ri.req.host ri.req.path ri.req.query ri.req.forceQuery

def selCanon (field : Str) (v : Option Str) : Str :=
  Spec.selCanon Generated.byOrderInsensitive Generated.byCaseInsensitive Generated.byTimeInsensitive field v

/-- the q-value classes, by canonical field name (request header maps are keyed canonically) -/
def isQClass (field : Str) : Bool :=
  ((Generated.byQValue ++ Generated.byEncoding).map fun n => canonicalHeaderKey n.toList).contains field

/-- members of all Vary field lines, canonical field names -/
def varyMembers (hd : Header) : List Str :=
  -- Vary is a list of field NAMES ("*" / 1#field-name): there is no quoted-string in it, a comma always separates
  ((((Header.values hd sVary).flatMap fun v => splitOnComma v []).map trimString).filter (!·.isEmpty)).map canonicalHeaderKey

/-- served from the store in exchange n without a 304 in that exchange -/
def Ex.servedUnvalidated (h : Hist) (x : Ex) : Bool := x.fromStore && !x.got304 h

/-! ### C03 -/
/-- a store read of exchange `n` or an earlier one was answered with altered bytes (bit flip, truncation,
    foreign bytes) that may still decode: what the cache then holds is not what it wrote, and properties
    stated over the cache's own writes (C03, C04) say nothing about it (C10 does) -/
def Hist.contentFaultUpTo (h : Hist) (n : Nat) : Bool :=
  h.faults.any fun f => f.n ≤ n && (f.kind == "flip" || f.kind == "bytes" || f.kind == "trunc" || f.kind == "cl")

def monC03 (h : Hist) : Option String :=
  h.reqs.findSome? fun ri => do
    let x ← h.ex ri
    if h.contentFaultUpTo ri.n then none else
    if !x.fromStore then none else
    if !isPlainGet ri then some s!"exchange {ri.n}: a {shw ri.method} / Range request was answered from the store" else
    match x.token with
    | none => none
    | some (m, _) =>
      match h.reqOf m with
      | none => none
      | some rm =>
        if !isPlainGet rm then some s!"exchange {ri.n}: served a response obtained by exchange {m}, which was not a plain GET"
        else if normOf rm ≠ normOf ri then
          some s!"exchange {ri.n}: {shw ri.url} was answered with the response stored for {shw rm.url} (normal forms {shw (normOf ri)} / {shw (normOf rm)})"
        else none

/-! ### C04 -/
def monC04 (h : Hist) : Option String :=
  h.reqs.findSome? fun ri => do
    let x ← h.ex ri
    if h.contentFaultUpTo ri.n then none else
    if !(x.servedUnvalidated h) then none else
    let (m0, _) ← x.token
    -- the request the stored response was last obtained or CONFIRMED for: the exchange that last wrote the
    -- entry that was read (a 304 confirms the stored response for the validating request — which matters
    -- when that 304 changes the Vary field and the response is stored anew for that request); else the
    -- exchange that fetched the body
    let m := match x.entry with
      | some e => (h.evs.foldl (fun acc ev => match ev with
          | .store s => if s.op == "set" && s.result == "ok" && s.key = e.id && s.n < ri.n &&
                           (match s.val with | .ent _ _ => true | _ => false) then some s.n else acc
          | _ => acc) none).getD m0
      | none => m0
    let rm ← h.reqOf m
    let storedHdr := match x.entry with
      | some e => e.resp.header
      | none => match h.reply m 0 with | some rp => rp.resp.header | none => []
    let members := varyMembers storedHdr
    if members.contains ['*'] then some s!"exchange {ri.n}: a response with Vary: * was returned without validation"
    else
      (members.find? fun f =>
          if isQClass f then
            -- plain token lists are judged by RFC 9110 alone; anything with weights or parameters is not judged
            match Spec.qPlainCanon (Spec.combined rm.req.header f), Spec.qPlainCanon (Spec.combined ri.req.header f) with
            | some a, some b => a ≠ b
            | _, _ => false
          else selCanon f (Spec.combined rm.req.header f) ≠ selCanon f (Spec.combined ri.req.header f)).map fun f =>
        s!"exchange {ri.n}: served the response selected by {shw f}={shw ((Spec.combined rm.req.header f).getD [])} (exchange {m}) to a request with {shw f}={shw ((Spec.combined ri.req.header f).getD [])}"

/-! ### C07 -/
def locTargets (h : Hist) (ri : ReqIn) (x : Ex) : List Str :=
  match x.fgCalls.head? with
  | none => []
  | some c =>
    (h.locs.filter (fun l => l.n = ri.n && l.k = c.k && l.ok)).filterMap fun l =>
      let present := match h.reply ri.n c.k with
        | some rp => Header.has rp.resp.header l.hdr
        | none => false
      -- an opaque reference ("mailto:x") names no http(s) URI
      if !l.g.kOpaq.isEmpty then none else
      let (ts, th, tp, tq, tfq) := Spec.resolveRef ri.req.scheme ri.req.host ri.req.path ri.req.query ri.req.forceQuery
        l.g.kScheme l.g.kHost l.g.kPath l.g.kQuery l.g.kForceQuery
      if present && Spec.sameOrigin ri.req.scheme ri.req.host ts th
      then some (Spec.urlNormQ ts th tp tq tfq) else none

def monC07 (h : Hist) : Option String :=
  h.reqs.findSome? fun rm => do
    let xm ← h.ex rm
    if Spec.ianaSafe.contains rm.method then none else
    if !(xm.res.kind == "resp" && 200 ≤ xm.res.status && xm.res.status < 400 && !xm.fgCalls.isEmpty) then none else
    let targets := normOf rm :: locTargets h rm xm
    first? [
      -- nothing stored before the unsafe request for one of its targets is reused without validation
      h.reqs.findSome? fun ri => do
        let x ← h.ex ri
        -- "after" / "before" the unsafe request: by position in a sequential history, by (strict) instants
        -- in a history with concurrent groups
        let conc := h.cls == "concurrent" || h.cls == "inval-race" || h.cls == "reval-race"
        if (if conc then ri.n = rm.n || decide (x.res.t0 ≤ xm.res.t1) else decide (ri.n ≤ rm.n)) then none else
        if !(x.servedUnvalidated h) then none else
        let (j, _) ← x.token
        let before : Bool := if conc then (match h.res j with | some rj => j ≠ rm.n && decide (rj.t1 < xm.res.t0) | none => false) else decide (j < rm.n)
        if !before then none else
        let rj ← h.reqOf j
        if targets.contains (normOf rj) then
          some s!"exchange {ri.n}: response stored by exchange {j} for {shw rj.url} reused without validation after the successful {shw rm.method} of exchange {rm.n} ({shw rm.url})"
        else none,
      -- only keys of the target (and of same-origin Location / Content-Location) are deleted
      (h.stores rm.n "fg").findSome? fun s =>
        if s.op == "del" then
          let base := s.key.takeWhile (· ≠ '#')
          if targets.any (fun t => t = base) then none
          else some s!"exchange {rm.n}: {shw rm.method} deleted key {shw s.key}, which belongs to none of its targets {targets.map shw}"
        else none ]

/-! ### C08 -/
def monC08 (h : Hist) : Option String :=
  h.reqs.findSome? fun ri =>
    ["fg", "bg"].findSome? fun stream => do
      let calls := h.calls ri.n stream
      let c ← calls.getLast?
      if c.outcome != "resp" then none else
      let rp ← h.reply ri.n c.k
      let stores := h.stores ri.n stream
      -- the entry under validation: the last entry read before the writes of this stream
      let e ← (stores.reverse.findSome? fun s => match s.op, s.result, s.val with
        | "get", "ok", .ent en true => some en
        | _, _, _ => none)
      -- a validation request for e: it carries the stored validators and no other precondition
      let condCall := Spec.isValidationOf e.resp.header c.hdr
      if !isPlainGet ri || !condCall then none else
      if rp.resp.status = 304 then
        -- no-store on the request or on the 304: nothing of it is written (C06 decides that side)
        if (freshenForbidden ri.req.header c.hdr e.resp.header rp.resp e.resp.status true).isSome then none else
        -- freshening: the entry is written back with merged fields, same body, new timestamps
        let want := Spec.merge304 canonicalHeaderKey e.resp.header
          (match timeOfDate h rp.resp.header c.t1 with | hd => hd)
        -- a 304 that changes the Vary field: the merged response is stored anew (under the identifier of what it
        -- now varies on, which need not be the old one); otherwise it is written back under its own identifier
        let varyChanged := joinWith [',', ' '] (Header.values want sVary) ≠ joinWith [',', ' '] (Header.values e.resp.header sVary)
        match stores.findSome? (fun s => match s.op, s.val with
            | "set", .ent en _ => if s.key = e.id || varyChanged then some (s, en) else none
            | _, _ => none) with
        | none =>
          -- a background revalidation may legitimately skip the write-back when the entry was replaced meanwhile
          if stream == "bg" then none else some s!"exchange {ri.n} ({stream}): 304 received but the stored entry {shw e.id} was not written back"
        | some (_, en) =>
          if en.resp.body ≠ e.resp.body || en.resp.status ≠ e.resp.status then some s!"exchange {ri.n} ({stream}): write-back after 304 changed the body or status"
          else if en.requestedAt ≠ c.t0 || en.receivedAt ≠ c.t1 then some s!"exchange {ri.n} ({stream}): write-back after 304 does not restart the age (timestamps {en.requestedAt}/{en.receivedAt}, validation {c.t0}/{c.t1})"
          else if Header.canon en.resp.header ≠ Header.canon want then
            some s!"exchange {ri.n} ({stream}): freshened header fields [{showHdrs (Header.canon en.resp.header)}] differ from stored ⊕ 304 [{showHdrs (Header.canon want)}]"
          else none
      else
        -- full reply: every other variant of the index that was read stays listed
        let readIdx := stores.reverse.findSome? fun s => match s.op, s.result, s.val with
          | "get", "ok", .idx refs _ => some refs
          | _, _, _ => none
        let wroteIdx := stores.findSome? fun s => match s.op, s.val with
          | "set", .idx refs _ => some refs
          | _, _ => none
        match readIdx, wroteIdx with
        | some r0, some r1 =>
          (r0.find? fun r => r.id ≠ e.id && !(r1.any fun r' => r'.id = r.id)).map fun r =>
            s!"exchange {ri.n} ({stream}): replacing {shw e.id} dropped the other variant {shw r.id} from the index"
        | _, _ =>
          -- a full reply that may be stored and carries explicit freshness REPLACES the validated response — whatever
          -- its status (a cacheable 503 is the origin's new representation like a 200), unless stale-if-error takes
          -- the failure. Sequential, fault-free histories only; the write is recognised by the reply's body token.
          let sieAround := Spec.hasDirective Spec.rfc e.resp.header (str% "stale-if-error") || Spec.hasDirective Spec.rfc ri.req.header (str% "stale-if-error")
          let failure := [500, 502, 503, 504].contains rp.resp.status
          -- (a background revalidation that overlaps another exchange's origin call may find the entry replaced when its own
          --  reply arrives, and rightly leaves it alone: only background work that ran alone is judged)
          let overlapped := stream == "bg" && h.evs.any fun
            | .call c' => c'.n ≠ ri.n && c'.t0 ≤ c.t1 && c'.t1 ≥ c.t0
            | _ => false
          if !h.faults.isEmpty || h.concurrent || overlapped || (replyForbidsStoring ri rp).isSome || (failure && sieAround) ||
             !(Spec.hasDirective Spec.rfc rp.resp.header (str% "max-age") || !(Header.get rp.resp.header sExpires).isEmpty) ||
             rp.bodyFail ≥ 0 || rp.resp.status < 200 || Spec.hasDirective Spec.rfc rp.resp.header (str% "must-understand") then none
          else if stores.any (fun s => match s.op, s.result, s.val with
              | "set", "ok", .ent en _ => tokenOf en.resp.body = some (ri.n, c.k)
              | _, _, _ => false) then none
          else some s!"exchange {ri.n} ({stream}): the origin's full reply to the validation of {shw e.id} (status {rp.resp.status}, cacheable) was not stored: the validated response stays in place"
where
  /-- the 304 as the cache sees it: a Date is added when the origin sent none -/
  timeOfDate (h : Hist) (hd : Header) (t1 : Int) : Header :=
    match (Spec.httpTime h.glue.parseTime hd sDate) with
    | some _ => hd
    | none => Header.set hd sDate (httpDate (t1 / nsPerSec))

/-- "never the replaced one": no write puts, under a key, a representation whose origin reply arrived
    strictly EARLIER than the reply of the representation the key already holds (a late write-back of a
    background revalidation over a response that was replaced meanwhile) -/
def monC08Resurrect (h : Hist) : Option String :=
  let recvOf := fun (m k : Nat) => h.evs.findSome? fun
    | .call c => if c.n = m && c.k = k && c.outcome == "resp" then some c.t1 else none
    | _ => none
  let rec go (evs : List Ev) (held : List (Str × (Nat × Nat × Int))) : Option String :=
    match evs with
    | [] => none
    | .call _ :: r => go r held
    | .store s :: r =>
      match s.op, s.result, s.val with
      | "set", "ok", .ent en _ =>
        match tokenOf en.resp.body with
        | none => go r held
        | some (m, k) =>
          match recvOf m k with
          | none => go r held
          | some t =>
            -- … unless the origin CONFIRMED it since: the write is caused by a reply (a 304) to a request that
            -- was sent after the held representation had arrived
            let confirmed := match (h.calls s.n s.stream).getLast? with
              | some c => if c.outcome == "resp" then max t c.t0 else t
              | none => t
            match alookup s.key held with
            | some (m', k', t') =>
              if (m', k') ≠ (m, k) && confirmed < t' then
                some s!"exchange {s.n} ({s.stream}): wrote the representation received in exchange {m} (at {t}) back under {shw s.key}, over the newer one received in exchange {m'} (at {t'})"
              else go r (ainsert s.key (m, k, t) held)
            | none => go r (ainsert s.key (m, k, t) held)
      | "del", _, _ => go r (held.filter (·.1 ≠ s.key))
      | _, _, _ => go r held
  if !h.faults.isEmpty then none else go h.evs []

/-! ### C09 -/
def storedBy (h : Hist) (n : Nat) : Option Entry :=
  ["fg", "bg"].findSome? fun stream =>
    let ss := h.stores n stream
    let ent := ss.findSome? fun s => match s.op, s.result, s.val with
      | "set", "ok", .ent en _ => some en
      | _, _, _ => none
    let idxOk := ss.any fun s => s.op == "set" && s.result == "ok" && (match s.val with | .idx _ _ => true | _ => false)
    if idxOk then ent else none

def monC09 (h : Hist) : Option String :=
  let parse := h.glue.parseTime
  if !h.faults.isEmpty then none else
  h.reqs.findSome? fun ri => do
    let x ← h.ex ri
    if !isPlainGet ri || Header.has ri.req.header sCacheControl then none else
    -- the storing exchanges for this resource before n
    let prev := h.reqs.filter fun rj => rj.n < ri.n && normOf rj = normOf ri
    let storing := prev.filter fun rj => (storedBy h rj.n).isSome
    -- any other request to the resource between (unsafe methods, other variants, validations) makes the expectation unclear
    match storing with
    | [rj] =>
      if prev.any (fun r => r.n > rj.n) then none else
      if h.reqs.any (fun r => r.n > rj.n && r.n < ri.n && !Spec.ianaSafe.contains r.method) then none else
      let e ← storedBy h rj.n
      -- the stored response as the origin's reply defines it (ghost: its header with the Date a recipient must add
      -- when there is none, the instants of the exchange) where that is defined, else the stored copy: a cache that
      -- WRITES a wrong Date or instant makes a fresh response look stale to itself, and that is a miss all the same
      let s := (h.ghostAt ri.n).getD (storedOf e)
      let members := varyMembers e.resp.header
      let tokenJ := tokenOf e.resp.body
      if !isPlainGet rj || members.contains ['*'] then none else
      -- q-value classes: only plain token lists are judged (Spec.qPlainCanon)
      if members.any (fun f => isQClass f &&
          ((Spec.qPlainCanon (Spec.combined rj.req.header f)).isNone || (Spec.qPlainCanon (Spec.combined ri.req.header f)).isNone)) then none else
      if members.any (fun f =>
          if isQClass f then Spec.qPlainCanon (Spec.combined rj.req.header f) ≠ Spec.qPlainCanon (Spec.combined ri.req.header f)
          else selCanon f (Spec.combined rj.req.header f) ≠ selCanon f (Spec.combined ri.req.header f)) then none else
      if Spec.strictValidate Spec.rfc parse ri.req.header s x.res.t0 then none else
      -- max-age given twice with different values: "considered stale" conforms as well as "first occurrence"
      if Spec.conflictingDuplicate s.header (str% "max-age") then none else
      if !(Spec.currentAge parse s x.res.t0 + nsPerSec < Spec.freshnessLifetime Spec.rfc parse s) then none else
      if x.fgCalls.isEmpty && x.fromStore && x.token == tokenJ then none
      else some s!"exchange {ri.n}: a fresh matching response (stored by exchange {rj.n}, age {Spec.currentAge parse s x.res.t0} ns, lifetime {Spec.freshnessLifetime Spec.rfc parse s} ns) was not served from the store: {exTagS x}"
    | _ => none
where
  exTagS (x : Ex) : String := s!"{x.res.kind} {x.res.status} calls={x.fgCalls.length}"

/-! ### C19 -/

/-- store faults that can legitimately leave an entry without a reference: a write or a delete that failed, an index
    that could not be read or decoded, an entry that came back with another identifier than its key (altered bytes
    that still decode). An entry that merely cannot be READ (missing, truncated, garbage) excuses nothing: the
    exchange stores its response in place of that reference, and the replaced response is removed. -/
def faultOnIndex (h : Hist) : Bool :=
  h.faults.any fun f => (h.stores f.n f.stream).any fun s => s.idx = f.idx && !s.key.contains '#'

def storeFaultThatOrphans (h : Hist) : Bool :=
  -- any injected fault on an operation on an INDEX key (a read answered "not there" makes the cache start a new index)
  faultOnIndex h ||
  h.evs.any fun
    | .store s =>
      ((s.op == "set" || s.op == "del") && s.result != "ok") ||
      (s.op == "get" && !s.key.contains '#' && (s.result == "err" || (match s.val with | .raw _ => true | _ => false))) ||
      (s.op == "get" && (match s.val with | .ent en _ => en.id ≠ s.key | _ => false))
    | _ => false

def monC19 (h : Hist) : Option String :=
  -- final key set
  let keys : List Str := h.evs.foldl (fun acc ev => match ev with
    | .store s =>
      if s.op == "set" && s.result == "ok" then (if acc.contains s.key then acc else s.key :: acc)
      else if s.op == "del" && s.result == "ok" then acc.filter (· ≠ s.key)
      else acc
    | _ => acc) []
  let urls := (h.reqs.map normOf).eraseDups
  -- distinct (resource, Vary value, selecting values) of the plain GETs of the history
  let combos := (h.reqs.flatMap fun ri =>
    (h.replies.filter (·.n = ri.n)).map fun rp =>
      -- a Vary value with a "*" member is the one unusable variant {*}, however it is spelled
      let members := if (varyMembers rp.resp.header).contains ['*'] then [['*']] else varyMembers rp.resp.header
      (normOf ri, members, members.map fun f => (Spec.combined ri.req.header f).getD [])).eraseDups
  let bound := urls.length + combos.length
  first? [
    if keys.length > bound then some s!"{keys.length} keys in the store for {urls.length} resources and {combos.length} (resource, Vary, selecting values) combinations" else none,
    h.evs.findSome? fun
      | .store s => match s.op, s.val with
        | "set", .idx refs _ =>
          -- (an index whose bytes a store fault altered and that still decodes names responses nobody stored: C19
          --  speaks of histories without store faults; thorough seed 11 flipped one byte inside a recorded identifier)
          if faultOnIndex h then none
          else if refs.length > combos.length then some s!"exchange {s.n}: index {shw s.key} has {refs.length} references for {combos.length} combinations"
          else if (refs.map (·.id)).eraseDups.length < refs.length &&
                  refs.any (fun r => (refs.filter (fun r' => r' = r)).length > 1) then
            some s!"exchange {s.n}: index {shw s.key} holds identical references"
          -- one stored response named twice: two references with the same identifier AND the same nominated fields
          -- and values are one variant, however the origin spelled its Vary value ("A, B", "B, A", "a,b"). A second
          -- reference survives the replacement of the first and keeps the replaced response alive (C08), and
          -- every new spelling adds one (C19). (Same identifier with DIFFERENT values is the recorded hash collision.)
          else if h.cls != "collide" && (refs.zipIdx.any fun (r, i) => refs.zipIdx.any fun (r', j) => i < j && r.id = r'.id && r.resolved = r'.resolved) then
            some s!"exchange {s.n}: index {shw s.key} names the stored response of one variant twice (Vary spelled differently)"
          else none
        | _, _ => none
      | _ => none,
    -- invalidation removes every key it makes unreachable: after the index of a resource is deleted, no entry of it remains
    h.reqs.findSome? fun rm =>
      let dels := (h.stores rm.n "fg").filter (fun s => s.op == "del")
      dels.findSome? fun d =>
        if d.key.contains '#' then none else
        -- entries under this index key that existed before and were not deleted in this exchange
        let before : List Str := h.evs.foldl (fun acc ev => match ev with
          | .store s =>
            if s.n ≥ rm.n then acc
            else if s.op == "set" && s.result == "ok" then (if acc.contains s.key then acc else s.key :: acc)
            else if s.op == "del" && s.result == "ok" then acc.filter (· ≠ s.key)
            else acc
          | _ => acc) []
        let idxRefs : List Str := ((h.stores rm.n "fg").findSome? fun s => match s.op, s.result, s.val with
          | "get", "ok", .idx refs _ => if s.key = d.key then some (refs.map (·.id)) else none
          | _, _, _ => none).getD []
        (idxRefs.find? fun id => before.contains id && !(dels.any fun d' => d'.key = id)).map fun id =>
          s!"exchange {rm.n}: invalidation deleted index {shw d.key} but left the referenced entry {shw id}",
    -- ... also when the write-back of a background revalidation arrives after the invalidation: once
    -- everything has come to rest no entry is left whose resource has no index any more
    (if h.cls == "swr-inval" then
      match h.finalKeys with
      | some ks => (ks.find? fun k => k.contains '#' && !ks.contains (k.takeWhile (· ≠ '#'))).map fun k =>
          s!"at rest the store holds the entry {shw k} but no index for its resource: an invalidated key was written back"
      | none => none
     else none),
    -- no garbage: in a sequential history without store faults every entry the store holds at rest is referenced by the
    -- index of its resource. An entry that nothing refers to can never be read, replaced or invalidated again; a
    -- resource whose replies keep changing what they vary on would leave one behind per request (one URI, one request
    -- header combination, a number of keys that grows with the number of requests). Histories with overlapping
    -- exchanges are left out (the recorded lost-update family), as are identifier collisions (recorded) and store faults.
    (if storeFaultThatOrphans h || h.concurrent || h.cls == "collide" || h.cls == "concurrent" || h.cls == "inval-race" ||
        h.cls == "reval-race" || h.cls == "swr" || h.cls == "swr-inval" || (h.evs.any fun | .call c => c.stream == "bg" | .store e => e.stream == "bg") then none else
      -- (the memory backend cannot list its keys: there the key set is the one the recorded writes and deletes leave)
      match (some (h.finalKeys.getD keys) : Option (List Str)) with
      | none => none
      | some ks =>
        -- the ids every index names as last written (one pass; only the entry keys at rest are then looked up)
        let named : List (Str × List Str) := h.evs.foldl (fun acc ev => match ev with
          | .store s =>
              (match s.op, s.result, s.val with
               | "set", "ok", .idx refs _ => (s.key, refs.map (·.id)) :: acc.filter (·.1 ≠ s.key)
               | "del", "ok", _ => if s.key.contains '#' then acc else acc.filter (·.1 ≠ s.key)
               | _, _, _ => acc)
          | _ => acc) []
        let idxOf (k : Str) : List Str := ((named.find? (·.1 = k)).map (·.2)).getD []
        (ks.find? fun k => k.contains '#' && !(idxOf (k.takeWhile (· ≠ '#'))).contains k).map fun k =>
          s!"at rest the store holds the entry {shw k}, which the index of its resource does not reference: a replaced response was left behind") ]

def monitorFor2 (prop : String) : Hist → Option String :=
  match prop with
  | "C03" => monC03
  | "C04" => monC04
  | "C07" => monC07
  | "C08" => fun h => first? [monC08 h, monC08Resurrect h]
  | "C09" => monC09
  | "C19" => monC19
  | p => monitorFor p

end Httpcache.Driver

namespace Httpcache.Driver
open Httpcache

/-! ### C20 -/
def effTimeout (h : Hist) : Int := if h.swrNs > 0 then h.swrNs else Generated.defaultSWRTimeoutNs

def monC20 (h : Hist) : Option String :=
  first? [
    if h.leak > 0 then some s!"{h.leak} origin call(s) still pending long after every timeout" else none,
    -- what the background request received is released when the background work ends: read to its end or closed
    -- (whatever the upstream keeps alive for an open body — a connection, a goroutine — outlives the request otherwise)
    (h.bodyLeaks.find? fun p => p.2.1 == "bg").map fun p =>
      s!"exchange {p.1} (background call {p.2.2}): the origin's response body was neither read to its end nor closed when the background revalidation ended",
    h.reqs.findSome? fun ri => do
      let x ← h.ex ri
      let isSwr := x.res.kind == "resp" && statusValues x.res.hdr == [str% "STALE"] && x.fgCalls.isEmpty
      if !isSwr then
        (if !x.bgCalls.isEmpty then some s!"exchange {ri.n}: background origin call without a stale-while-revalidate response ({x.res.kind} {x.res.status})" else none)
      else
        if x.res.t1 ≠ x.res.t0 then some s!"exchange {ri.n}: the stale-while-revalidate response took {x.res.t1 - x.res.t0} ns of virtual time" else
        match x.bgCalls with
        | [c] =>
          let e ← x.entry
          if !condHeadersOk ri.req.header e.resp.header c.hdr then
            some s!"exchange {ri.n}: background revalidation request [{showHdrs c.hdr}] is not the client's request plus the stored validators"
          else if !c.deadline then some s!"exchange {ri.n}: background revalidation request carries no deadline"
          else if c.t0 ≠ x.res.t0 then some s!"exchange {ri.n}: background revalidation started {c.t0 - x.res.t0} ns after the response was returned"
          else
            -- the background request is bounded by the configured timeout and by nothing else: not by the caller's
            -- deadline, and not by the caller cancelling its context before or after it got the response (an
            -- http.Client with a Timeout cancels it as soon as the body has been read) — C20 quantifies over
            -- "caller contexts cancelled before or after the response is returned"
            let T := effTimeout h
            let rp ← h.reply ri.n c.k
            if rp.kind == "hang" || rp.delay > T then
              if c.outcome == "cancel" && c.t1 - c.t0 = T then none
              else some s!"exchange {ri.n}: slow background request ended with {c.outcome} after {c.t1 - c.t0} ns, timeout is {T} ns"
            else if rp.delay < T then
              if c.outcome != "cancel" && c.t1 - c.t0 = rp.delay then none
              else some s!"exchange {ri.n}: background request (latency {rp.delay} ns < timeout {T} ns) ended with {c.outcome} after {c.t1 - c.t0} ns"
            else none
        | l => some s!"exchange {ri.n}: {l.length} background revalidation requests for one stale-while-revalidate response" ]

def monitorFor3 (prop : String) : Hist → Option String :=
  match prop with
  | "C20" => monC20
  | p => monitorFor2 p

end Httpcache.Driver

namespace Httpcache.Driver
open Httpcache

/-! ### C05 -/
def hopNames (hd : Header) : List Str :=
  Spec.hopByHopFixed ++ (((Spec.tokenListMembers hd sConnection)).map canonicalHeaderKey)

def cacheOwn : List Str := [sAge, sStatusHeader, sFromCache]

/-- the origin's end-to-end fields, as a canonical list -/
def endToEnd (hd : Header) : Header :=
  let hop := hopNames hd
  Header.canon (hd.filter fun p => !hop.contains p.1 && !cacheOwn.contains p.1)

def monC05 (h : Hist) : Option String :=
  first? [
    -- nothing hop-by-hop is ever stored
    h.evs.findSome? fun
      | .store s => match s.op, s.val with
        | "set", .ent en _ =>
          (match tokenOf en.resp.body with
          | some (n, k) => (h.reply n k).bind fun rp =>
              -- the codec's own Connection: close aside, no hop-by-hop field of the origin reply is in the entry
              ((hopNames rp.resp.header).find? fun f => f ≠ sConnection && Header.has en.resp.header f).map fun f =>
                s!"exchange {s.n}: hop-by-hop field {shw f} stored with the response of exchange {n}"
          | none => none)
        | _, _ => none
      | _ => none,
    -- an origin body that broke off is not handed over as a complete, shorter one (the caller sees the failure):
    -- judged on the exchange's own last origin call, whether or not enough of the body arrived to identify it
    h.reqs.findSome? fun ri => do
      let x ← h.ex ri
      let c ← x.fgCalls.getLast?
      let rp ← h.reply ri.n c.k
      if x.res.kind == "resp" && !x.fromStore && rp.bodyFail ≥ 0 && !x.res.bodyErr && x.res.status = rp.resp.status &&
         x.res.body.length < rp.resp.body.length && rp.resp.body.take x.res.body.length = x.res.body then
        some s!"exchange {ri.n}: the origin's body broke off after {rp.bodyFail} bytes and the caller was given {x.res.body.length} of its {rp.resp.body.length} bytes as a complete body"
      else none,
    h.reqs.findSome? fun ri => do
      let x ← h.ex ri
      if x.res.kind != "resp" then none else
      let (m, k) ← x.token
      let rp ← h.reply m k
      if x.res.bodyErr && rp.bodyFail < 0 then some s!"exchange {ri.n}: body of the response of exchange {m} could not be read by the caller" else
      -- an origin body that broke off is not handed over as a complete, shorter one: the caller sees the failure
      if rp.bodyFail ≥ 0 && m = ri.n && !x.res.bodyErr && x.res.body.length < rp.resp.body.length then
        some s!"exchange {ri.n}: the origin's body broke off after {rp.bodyFail} bytes and the caller was given {x.res.body.length} bytes of it as a complete body" else
      if rp.bodyFail ≥ 0 then none else
      if x.res.body ≠ rp.resp.body then
        some s!"exchange {ri.n}: body differs from what the origin sent in exchange {m} ({x.res.body.length} vs {rp.resp.body.length} bytes shown)"
      else if x.res.status ≠ rp.resp.status then some s!"exchange {ri.n}: status {x.res.status}, origin sent {rp.resp.status}"
      else if (match h.frame m k, h.trailers.find? (·.1 = ri.n) with
          | some (_, sent), some (_, got) =>
            -- (served from the store without validation, the trailer fields named by the stored response's qualified
            --  no-cache are withheld like its header fields: C02)
            let named := if m = ri.n then [] else (Spec.noCacheFields Spec.rfc rp.resp.header).map canonicalHeaderKey
            -- hop-by-hop fields (the fixed ones and those the reply's Connection names) are removed from the TRAILER section
            -- of what is stored as from the header section (RFC 9110 §7.6.1: "header or trailer field(s)"); a reply that is
            -- only passed on may keep them or not
            let hop := hopNames rp.resp.header
            let sentE : Header := if m = ri.n then sent else sent.filter fun (p : Str × Str) => !hop.contains (canonicalHeaderKey p.1)
            let sent' : Header := sentE.filter fun (p : Str × Str) => !named.contains (canonicalHeaderKey p.1)
            let sentH : Header := sent.filter fun (p : Str × Str) => !hop.contains (canonicalHeaderKey p.1)
            -- (whether the named ones ARE withheld is C02's business; for C05 nothing may be added, altered or otherwise lost)
            !x.res.bodyErr && ri.method = sGET && Header.canon got ≠ Header.canon sent' && Header.canon got ≠ Header.canon sentE &&
              !(m = ri.n && Header.canon got = Header.canon sentH)
          | _, _ => false) then
        let got := (h.trailers.find? (·.1 = ri.n)).map (·.2) |>.getD []
        match (if m = ri.n then none else (hopNames rp.resp.header).find? fun f => Header.has got f) with
        | some f => some s!"exchange {ri.n}: hop-by-hop field {shw f} of the trailer section of exchange {m} was stored and replayed"
        | none => some s!"exchange {ri.n}: trailer fields [{showHdrs got}] differ from the trailer section the origin sent in exchange {m} [{showHdrs ((h.frame m k).map (·.2) |>.getD [])}]"
      else if m = ri.n then none   -- forwarded on a miss: the body (and status) is what is required
      else
        -- served from the store: every end-to-end field of the origin response, nothing else but the cache's own
        let freshened := h.reqs.any fun rj => rj.n > m && rj.n ≤ ri.n && (["fg", "bg"].any fun s =>
          (h.calls rj.n s).any fun c => c.outcome == "resp" && (match h.reply rj.n c.k with | some r2 => r2.resp.status = 304 | none => false))
        if freshened then none else
        let want := endToEnd rp.resp.header
        let got := endToEnd x.res.hdr
        let dateSynth := !(Spec.httpTime h.glue.parseTime rp.resp.header sDate).isSome
        -- fields named by a qualified no-cache are withheld from unvalidated responses (C02)
        let withheld := (Spec.noCacheFields Spec.rfc rp.resp.header).map canonicalHeaderKey
        let want := want.filter fun p => !withheld.contains p.1
        let want' := if dateSynth then want.filter (·.1 ≠ sDate) else want
        let got' := if dateSynth then got.filter (·.1 ≠ sDate) else got
        if want' = got' then
          (match (hopNames rp.resp.header).find? (fun f => Header.has x.res.hdr f) with
          | some f => some s!"exchange {ri.n}: hop-by-hop field {shw f} of the origin response replayed from the store"
          | none => none)
        else some s!"exchange {ri.n}: end-to-end fields served [{showHdrs got'}] differ from the origin's [{showHdrs want'}]" ]

/-! ### C16 -/
def monC16 (h : Hist) : Option String :=
  first? [
    h.own.head?.map fun n => s!"exchange {n}: the header map of a response was modified after it had been returned to the caller",
    h.reqcmp.findSome? fun p => if p.2 then none else some s!"exchange {p.1}: the caller's request object was modified",
    h.share.reverse.head?.map fun p =>
      if p.2.startsWith "response-header" then s!"exchange {p.1}: the response returned shares its header map with the {p.2.replace "-" " "}: a response belongs to its caller"
      else s!"exchange {p.1}: the background revalidation uses the caller's own {p.2} after RoundTrip has returned (the caller may reuse it once the body is closed)",
    h.reqs.findSome? fun ri => do
      let x ← h.ex ri
      match x.res.kind with
      | "panic" => some s!"exchange {ri.n}: RoundTrip panicked under concurrent use: {shw x.res.body}"
      | "neither" | "both" => some s!"exchange {ri.n}: RoundTrip returned {x.res.kind}"
      | _ =>
        -- a self-consistent response: status and body of ONE origin reply
        match x.token with
        | some (m, k) =>
          (h.reply m k).bind fun rp =>
            if x.res.body ≠ rp.resp.body then some s!"exchange {ri.n}: body is not the body the origin sent in exchange {m}"
            else if x.res.status ≠ rp.resp.status then some s!"exchange {ri.n}: status {x.res.status} with the body of a {rp.resp.status} response"
            else none
        | none => none,
    monC03 h, monC04 h,
    if h.leak > 0 then some s!"{h.leak} origin call(s) still pending at quiescence" else none ]

def monitorFor4 (prop : String) : Hist → Option String :=
  match prop with
  | "C05" => monC05
  | "C16" => monC16
  | p => monitorFor3 p

end Httpcache.Driver
