import Httpcache.Model.Backend
import Httpcache.Driver.Parse
import Httpcache.Properties.C17
/-
Driver for the backend harness (C14, C15, C17): replays the operation sequence through the map
model, compares every answer and the file names on disk, and evaluates the C15 / C17 observations.
-/
namespace Httpcache.Driver
open Httpcache

structure StoreSt where
  id : String := ""
  prop : String := ""
  backend : String := ""
  kv : KV := []
  err : Option String := none
  ops : Nat := 0
  -- C15 concurrent history: (op, token, t0, t1, result)
  conc : List (String × String × Int × Int × String) := []
  tamperTotal : Nat := 0
  nonUtf8 : Bool := false
  longKey : Bool := false
  /-- the implementation differs from the model where the property does not say which of them is right -/
  diff : Option String := none

def setDiff (st : StoreSt) (m : String) : StoreSt := if st.diff.isSome then st else { st with diff := some m }

def setErr (st : StoreSt) (m : String) : StoreSt := if st.err.isSome then st else { st with err := some m }

/-- a comma-separated list of hex-encoded keys; the empty list is the empty string, "-" is ONE empty key -/
def splitComma (s : String) : List Str := if s == "" then [] else (s.splitOn ",").map unhex

def sortStrsD (l : List Str) : List Str := sortBy strLe l

def storeLine (st : StoreSt) (line : String) : StoreSt :=
  let st := { st with ops := st.ops + 1 }
  match line.splitOn "\t" with
  | ["H", id, prop, backend] => { id := id, prop := prop, backend := backend }
  | ["S", "FATAL", m] => setErr st s!"harness: {String.ofList (unhex m)}"
  | ["S", "SET", k, v, res] =>
    if res == "ok" then { st with kv := kvSet st.kv (unhex k) (unhex v) }
    else setErr st s!"Set({shw (unhex k)}) failed: {res}"
  | ["S", "GET", k, res, v] =>
    let isExpapiMem := st.backend == "expapi-mem"
    match kvGet st.kv (unhex k), res with
    | some want, "ok" => if want = unhex v then st else setErr st s!"Get({shw (unhex k)}) returned other bytes than the latest Set"
    | none, "notexist" => st
    | some _, r => setErr st (if isExpapiMem then s!"expapi over memcache: key {shw (unhex k)} was Set on the application's connection but the maintenance API answers {r}"
                              else if st.backend.startsWith "expapi" then s!"expapi: GET /debug/httpcache/<key> for the key {shw (unhex k)} (length {(unhex k).length}) answers {r}, the store holds a value under it"
                              else s!"Get({shw (unhex k)}) = {r}, the map holds a value")
    | none, r => setErr st s!"Get({shw (unhex k)}) = {r}, the map holds nothing"
  | ["S", "DEL", k, res] =>
    match kvGet st.kv (unhex k), res with
    | some _, "ok" => { st with kv := kvDel st.kv (unhex k) }
    | none, "notexist" => st
    | some _, r => setErr st s!"Delete({shw (unhex k)}) = {r}, the key exists"
    | none, r => setErr st s!"Delete({shw (unhex k)}) = {r}, the key does not exist"
  | ["S", "KEYS", p, res, ks] =>
    if res != "ok" then setErr st (if st.longKey then s!"Keys({shw (unhex p)}) fails once a 3 KB key has been stored (and still after it was deleted): the listing walks complete path names"
                                   else s!"Keys({shw (unhex p)}) failed") else
    let got := sortStrsD (splitComma ks)
    let want := sortStrsD (kvKeys st.kv (unhex p))
    if got = want then st
    else if st.nonUtf8 && st.backend.startsWith "expapi" && got.length = want.length then
      setErr st "expapi list endpoint: a key that is not valid UTF-8 is altered by the JSON encoding of the answer"
    else setErr st s!"Keys({shw (unhex p)}) = {got.map shw}, the map has {want.map shw}"
  | ["S", "NOTE", "longkey"] => { st with longKey := true }
  | ["S", "NOKEYS"] => if st.backend == "expapi-mem" then st else setErr st "key listing not supported by a backend that implements it"
  | ["S", "HELD", "changed", k] => setErr st s!"the bytes returned by an earlier Get({shw (unhex k)}) changed while later operations ran: results are not isolated from the backend's buffers"
  | ["S", "REOPEN"] => st
  | ["S", "NONUTF8"] => { st with nonUtf8 := true }
  | ["S", "FILES", fs] =>
    let got := sortStrsD (splitComma fs)
    let want := sortStrsD (st.kv.map fun p => pathString (fileName p.1))
    if got = want then st else setErr st s!"files on disk {got.map shw} are not the file names of the live keys {want.map shw}"
  -- C17
  | ["S", "CFG", name, want, got] =>
    if want == got || (want == "notplain" && got != "plain") then st
    else setErr st s!"encryption wiring '{name}': expected {want}, observed {got}"
  | ["S", "CFGM", kind, p, dk, ek, got] =>
    let cl (x : String) : String := if x == "-" then "" else x
    let want := if kind == "option" then C17.withEncryptionClass (cl dk) else C17.fromURLClass kind p (cl dk) (cl ek)
    if want == got then st
    else if got == "plain" && kind != "option" && p != "-" && p != "off" then
      setErr st s!"a DSN ({kind}) with encrypt={p} (encrypt_key: {dk}, environment key: {ek}) opened a store that writes plaintext"
    else if want == "fail" && got == "enc" && (dk == "bad" || (dk == "-" && ek == "bad")) then
      setErr st s!"encryption enabled by {kind} with an unusable key did not fail at open (a key that is not a 16, 24 or 32 byte AES key was accepted)"
    else if got == "plain" then setErr st s!"encryption requested by {kind} (key: {dk}, environment key: {ek}) and the store writes plaintext"
    else setDiff st s!"encryption wiring: {kind} encrypt={p} encrypt_key={dk} environment={ek}: the model (C17.fromURL) says {want}, observed {got}"
  | ["S", "SCAN", k, leak] => if leak == "true" then setErr st s!"a file contains a plaintext fragment of the value of {shw (unhex k)}" else st
  | ["S", "SAMECT", k, same] => if same == "true" then setErr st s!"two writes of the same value of {shw (unhex k)} produced identical file bytes" else st
  | ["S", "TAMPER", "accepted", len, _] => setErr st s!"a modified ciphertext file of {len} bytes was accepted by Get"
  | ["S", "TAMPERSUM", total, _] => { st with tamperTotal := toNat total }
  | ["S", "NONCES", _, dups, panics] =>
    if toNat dups > 0 then setErr st s!"{dups} pairs of files written by overlapping Sets start with the same nonce"
    else if toNat panics > 0 then setErr st s!"{panics} Set call(s) panicked under concurrent use"
    else st
  | ["S", "WRONGKEY", res, _] => if res == "ok" then setErr st "Get with a wrong key returned data" else st
  | ["S", "NOKEY", leak] => if leak == "true" then setErr st "the raw stored bytes contain the plaintext" else st
  -- C15
  | ["S", "CUT", k, n, withPrev, setOK, res, _] =>
    let ok := if setOK == "true" then res == "new"
              else res == "new" || (if withPrev == "true" then res == "prev" else res == "absent")
    if ok then st else setErr st s!"a Set of {n} bytes cut at byte {k} (previous value: {withPrev}, Set ok: {setOK}) left Get = {res}"
  | ["S", "KILL", res, len] =>
    if res == "prev" || res == "new" then st else setErr st s!"after SIGKILL of a writer Get = {res} ({len} bytes)"
  | ["C", op, tok, t0, t1, res] => { st with conc := (op, tok, toInt t0, toInt t1, res) :: st.conc }
  | _ => st

/-- necessary conditions of atomic-register linearizability for the concurrent history -/
def concCheck (ops : List (String × String × Int × Int × String)) : Option String :=
  let writes := ops.filter fun o => (o.1 == "W" || o.1 == "D") && o.2.2.2.2 == "ok"
  let reads := ops.filter fun o => o.1 == "R"
  reads.findSome? fun r =>
    let (_, tok, r0, r1, res) := r
    if res == "err" then some s!"a concurrent Get failed"
    else if tok.startsWith "torn" then some s!"a concurrent Get returned a partial or mixed value ({tok})"
    else if res == "ok" then
      match writes.find? (fun w => w.1 == "W" && w.2.1.toNat? == tok.toNat?) with
      | none => some s!"Get returned value {tok} that no Set wrote"
      | some w =>
        let (_, _, w0, w1, _) := w
        if w0 > r1 then some s!"Get returned value {tok} before its Set started"
        else if writes.any (fun w' => w'.2.2.1 > w1 && w'.2.2.2.1 < r0) then
          some s!"Get returned value {tok} although a later write had completed before the Get started (stale read)"
        else none
    else
      -- not found: a Delete (or the initial state) must not have been overwritten by a Set that completed before the read
      let dels := writes.filter (·.1 == "D")
      let initialOk := !(writes.any fun w' => w'.1 == "W" && w'.2.2.2.1 < r0 &&
        !(dels.any fun d => d.2.2.1 < r1 && d.2.2.2.1 > w'.2.2.1))
      let delOk := dels.any fun d => d.2.2.1 < r1 && !(writes.any fun w' => w'.1 == "W" && w'.2.2.1 > d.2.2.2.1 && w'.2.2.2.1 < r0)
      if initialOk || delOk then none else some s!"Get reported the key absent although a Set had completed and no Delete could explain it"

def storeFinish (st : StoreSt) : Option String :=
  match st.err with
  | some e => some e
  | none => if st.conc.isEmpty then none else concCheck st.conc.reverse

end Httpcache.Driver
