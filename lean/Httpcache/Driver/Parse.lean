import Httpcache.Model.RoundTrip
/-
Parser of the harness's trace lines (DESIGN.md Appendix B). Not part of the model: this is
the tie's plumbing and is in the trusted base.
-/
namespace Httpcache.Driver
open Httpcache

def hexVal (c : Char) : Nat :=
  if '0' ≤ c && c ≤ '9' then c.toNat - 48 else if 'a' ≤ c && c ≤ 'f' then c.toNat - 87 else 0

def unhexL : List Char → Str
  | a :: b :: r => Char.ofNat (hexVal a * 16 + hexVal b) :: unhexL r
  | _ => []

/-- "-" is the empty string -/
def unhex (s : String) : Str := if s == "-" then [] else unhexL s.toList

def hexDigit (n : Nat) : Char := "0123456789abcdef".toList.getD n '0'
def tohex (s : Str) : String :=
  if s.isEmpty then "-" else String.ofList (s.flatMap fun c => [hexDigit (c.toNat / 16), hexDigit (c.toNat % 16)])

def shw (s : Str) : String := String.ofList (s.map fun c => if c.toNat < 32 || c.toNat > 126 then '?' else c)

def parseHdrs (s : String) : Header :=
  if s == "-" then [] else
  (s.splitOn ";").filterMap fun item =>
    match item.splitOn "=" with
    | [k, v] => some (unhex k, unhex v)
    | _ => none

def showHdrs (h : Header) : String :=
  String.intercalate "; " (h.map fun p => shw p.1 ++ ": " ++ shw p.2)

def toInt (s : String) : Int := s.toInt?.getD 0
def toNat (s : String) : Nat := s.toNat?.getD 0

structure ReqIn where
  n : Nat
  atNs : Int
  method : Str
  url : Str
  urlOk : Bool
  req : Req
  cancel : String
  deriving Repr

structure ReplyIn where
  n : Nat
  k : Nat
  kind : String      -- resp | err | hang
  resp : Resp
  delay : Int
  bodyFail : Int
  /-- the body ended (a clean end, no error) before the length the reply declares: what the upstream delivered is
      `resp.body`, which is shorter than its Content-Length says -/
  short : Bool := false
  deriving Repr

structure LocIn where
  n : Nat
  k : Nat
  hdr : Str
  ok : Bool
  g : LocGlue
  deriving Repr

inductive Val where
  | none
  | idx (refs : List Ref) (nulls : Nat)
  | ent (e : Entry) (bodyOk : Bool)
  | raw (len : Nat)
  deriving Repr

structure FaultIn where
  n : Nat
  stream : String
  idx : Nat
  kind : String
  val : Val
  deriving Repr

structure StoreEv where
  n : Nat
  stream : String
  idx : Nat
  op : String      -- get | set | del
  key : Str
  result : String  -- ok | notexist | err
  val : Val
  deriving Repr

structure CallEv where
  n : Nat
  stream : String
  k : Nat
  t0 : Int
  t1 : Int
  method : Str
  url : Str
  hdr : Header
  outcome : String  -- resp | err | cancel | leak | builderr
  deadline : Bool
  deriving Repr

structure ResEv where
  n : Nat
  t0 : Int
  t1 : Int
  kind : String     -- resp | err | panic | both | neither | badreq
  status : Nat
  hdr : Header
  body : Str        -- body bytes, or the error class / panic text for other kinds
  bodyErr : Bool
  deriving Repr

inductive Ev where
  | store (e : StoreEv)
  | call (e : CallEv)
  deriving Repr

structure Hist where
  id : String := ""
  prop : String := ""
  cls : String := ""
  backend : String := ""
  swrNs : Int := 0
  logger : String := ""
  reqs : List ReqIn := []
  replies : List ReplyIn := []
  locs : List LocIn := []
  faults : List FaultIn := []
  reopens : List Nat := []
  dates : List (Str × Option Int) := []
  norms : List (Str × Str × Str) := []
  evs : List Ev := []        -- reversed while parsing
  ress : List ResEv := []    -- reversed while parsing
  reqcmp : List (Nat × Bool) := []
  leak : Nat := 0
  own : List Nat := []
  share : List (Nat × String) := []
  bodyLeaks : List (Nat × String × Nat) := []
  finalKeys : Option (List Str) := none
  concurrent : Bool := false   -- requests issued at one instant run concurrently
  frames : List (Nat × Nat × String × Header) := []   -- (exchange, call, cl | chunked | close, trailer section sent)
  trailers : List (Nat × Header) := []                 -- trailer fields the caller saw after reading the body
  fatal : Option String := none
  t0 : Int := 0
  deriving Repr

def parseRef (s : String) : Option Ref :=
  match s.splitOn "," with
  | [id, vary, res, ra] =>
    let resolved : List (Str × Str) :=
      if res == "-" then [] else (res.splitOn "+").filterMap fun kv =>
        match kv.splitOn ":" with
        | [k, v] => some (unhex k, unhex v)
        | _ => none
    some { id := unhex id, vary := unhex vary, resolved := resolved,
           receivedAt := if ra == "-" then none else some (toInt ra) }
  | _ => none

/-- the value description written by describeValue: fields after the result column -/
def parseVal : List String → Val
  | ["idx", _cnt, refs] =>
    if refs == "-" then .idx [] 0 else
    let items := refs.splitOn ";"
    .idx (items.filterMap parseRef) (items.filter (· == "null")).length
  | ["ent", id, t1, t2, status, hdrs, body, be] =>
    .ent { id := unhex id, requestedAt := toInt t1, receivedAt := toInt t2,
           resp := { status := toNat status, header := parseHdrs hdrs, body := unhex body } } (be == "ok")
  | ["raw", len, _] => .raw (toNat len)
  | _ => .none

def parseLine (h : Hist) (line : String) : Hist :=
  match line.splitOn "\t" with
  | ["H", id, prop, cls, backend, swr, logger] =>
    { h with id := String.ofList (unhex id), prop := prop, cls := String.ofList (unhex cls), backend := backend, swrNs := toInt swr, logger := logger }
  | ["I", "REQ", n, atv, method, url, ok, scheme, host, path, query, opaq, fq, hdrs, cancel] =>
    -- net/http: "For client requests, an empty string means GET" — the request the caller made IS a GET
    let method := if (unhex method).isEmpty then "474554" else method
    let r : Req := { method := unhex method, scheme := unhex scheme, host := unhex host, path := unhex path,
                     query := unhex query, opaq := unhex opaq, header := parseHdrs hdrs, forceQuery := (fq == "1") }
    let ri : ReqIn := { n := toNat n, atNs := toInt atv, method := unhex method, url := unhex url,
                        urlOk := (ok == "ok"), req := r, cancel := cancel }
    { h with reqs := h.reqs ++ [ri] }
  | ["I", "REPLY", n, k, kind, status, hdrs, body, delay, bf] =>
    let rp : Resp := { status := toNat status, header := parseHdrs hdrs, body := unhex body }
    let ri : ReplyIn := { n := toNat n, k := toNat k, kind := (if kind == "resp-short" then "resp" else kind), resp := rp, delay := toInt delay,
                          bodyFail := toInt bf, short := (kind == "resp-short") }
    { h with replies := h.replies ++ [ri] }
  | ["I", "LOC", n, k, hdr, ok, scheme, host, _ok2, ks, kh, kp, kq, ko, fq] =>
    let g : LocGlue := { scheme := unhex scheme, host := unhex host, kScheme := unhex ks, kHost := unhex kh, kPath := unhex kp, kQuery := unhex kq, kOpaq := unhex ko, kForceQuery := (fq == "1") }
    let li : LocIn := { n := toNat n, k := toNat k, hdr := unhex hdr, ok := (ok == "ok"), g := g }
    { h with locs := h.locs ++ [li] }
  | ["I", "LOC", n, k, hdr, "bad", _, _, _, _, _, _, _] =>
    let g : LocGlue := { scheme := [], host := [], kScheme := [], kHost := [], kPath := [], kQuery := [], kOpaq := [] }
    let li : LocIn := { n := toNat n, k := toNat k, hdr := unhex hdr, ok := false, g := g }
    { h with locs := h.locs ++ [li] }
  | "I" :: "FAULT" :: n :: stream :: idx :: kind :: rest =>
    let f : FaultIn := { n := toNat n, stream := stream, idx := toNat idx, kind := kind, val := parseVal rest }
    { h with faults := h.faults ++ [f] }
  | ["I", "REOPEN", n, _] => { h with reopens := h.reopens ++ [toNat n] }
  | ["I", "DATE", s, v] => { h with dates := (unhex s, if v == "x" then none else some (toInt v)) :: h.dates }
  | ["I", "NORM", f, v, r] => { h with norms := (unhex f, unhex v, unhex r) :: h.norms }
  | ["O", "T0", t] => { h with t0 := toInt t }
  | "O" :: "STORE" :: n :: stream :: idx :: op :: key :: result :: rest =>
    let e : StoreEv := { n := toNat n, stream := stream, idx := toNat idx, op := op, key := unhex key, result := result, val := parseVal rest }
    { h with evs := .store e :: h.evs }
  -- (the names of a call's fields are canonicalised: under which map key a field of the caller's request reaches the
  --  upstream is not an observation any property is about — whether the CALLER's map was rewritten is: `REQCMP`)
  | ["O", "CALL", n, stream, k, t0, t1, method, url, hdrs, outcome, dl] =>
    let e : CallEv := { n := toNat n, stream := stream, k := toNat k, t0 := toInt t0, t1 := toInt t1, method := unhex method, url := unhex url, hdr := (parseHdrs hdrs).map (fun p => (canonicalHeaderKey p.1, p.2)), outcome := outcome, deadline := (dl == "dl") }
    { h with evs := .call e :: h.evs }
  | ["O", "RES", n, t0, t1, kind, status, hdrs, body, be] =>
    let b : Str := if kind == "resp" || kind == "panic" then unhex body else body.toList
    let e : ResEv := { n := toNat n, t0 := toInt t0, t1 := toInt t1, kind := kind, status := toNat status, hdr := parseHdrs hdrs, body := b, bodyErr := (be == "bodyerr") }
    { h with ress := e :: h.ress }
  | ["O", "REQCMP", n, v] => { h with reqcmp := h.reqcmp ++ [(toNat n, v == "same")] }
  | ["O", "LEAK", n] => { h with leak := toNat n }
  | ["O", "BODYLEAK", n, stream, k] => { h with bodyLeaks := h.bodyLeaks ++ [(toNat n, stream, toNat k)] }
  | ["O", "OWN", n, "changed", _] => { h with own := toNat n :: h.own }
  | ["I", "FRAME", n, k, fr, tr] => { h with frames := (toNat n, toNat k, fr, parseHdrs tr) :: h.frames }
  | ["O", "TRAILER", n, tr] => { h with trailers := (toNat n, parseHdrs tr) :: h.trailers }
  | ["I", "CONC"] => { h with concurrent := true }
  | ["O", "KEYS", ks] => { h with finalKeys := some (if ks == "" then [] else (ks.splitOn ",").map unhex) }
  | ["O", "SHARE", n, what] => { h with share := (toNat n, what) :: h.share }
  | ["O", "FATAL", m] => { h with fatal := some (String.ofList (unhex m)) }
  | _ => h

def Hist.finish (h : Hist) : Hist := { h with evs := h.evs.reverse, ress := h.ress.reverse }

def Hist.glue (h : Hist) : Glue :=
  { parseTime := fun s => match h.dates.find? (fun p => p.1 = s) with
      | some (_, v) => v
      | none => none }

def Hist.normQ (h : Hist) : Str → Str → Str := fun f v =>
  match h.norms.find? (fun p => p.1 = f && p.2.1 = v) with
  | some (_, _, r) => r
  | none => v

def Hist.reply (h : Hist) (n k : Nat) : Option ReplyIn :=
  let rs := h.replies.filter (·.n = n)
  match rs.find? (·.k = k) with
  | some r => some r
  | none => rs.getLast?

def Hist.res (h : Hist) (n : Nat) : Option ResEv := h.ress.find? (·.n = n)

def Hist.frame (h : Hist) (n k : Nat) : Option (String × Header) :=
  (h.frames.find? fun f => f.1 = n && f.2.1 = k).map fun f => (f.2.2.1, f.2.2.2)

def Hist.stream (h : Hist) (n : Nat) (s : String) : List Ev :=
  h.evs.filter fun
    | .store e => e.n = n && e.stream == s
    | .call e => e.n = n && e.stream == s

end Httpcache.Driver
