import Httpcache.Model.Storable
/-
The transport as an interaction tree: every store operation and every origin call is a
node whose continuation receives the environment's answer. Time is constant within an
exchange except across an origin call, whose answer carries its completion instant.
-/
namespace Httpcache

inductive OriginAns where
  /-- a reply, the instant it arrived, and whether its body stream can be read to the end -/
  | resp (r : Resp) (t1 : Int) (bodyOk : Bool)
  /-- a transport error (including cancellation of the request's context) at t1 -/
  | err (t1 : Int)
  deriving Repr

inductive Result where
  | resp (r : Resp)
  | err
  | done
  deriving DecidableEq, Repr

inductive Prog where
  | ret (r : Result)
  | getRefs (key : Str) (k : Option (List Ref) → Prog)
  | getEntry (id : Str) (k : Option Entry → Prog)
  | setEntry (id : Str) (e : Entry) (k : Bool → Prog)
  | setRefs (key : Str) (refs : List Ref) (k : Bool → Prog)
  | delete (key : Str) (k : Prog)
  | origin (method : Str) (hdr : Header) (deadline : Option Int) (k : OriginAns → Prog)
  | spawn (bg : Prog) (k : Prog)

/-- what a node asks of the environment (its label) -/
inductive Op where
  | ret (r : Result)
  | getRefs (key : Str)
  | getEntry (id : Str)
  | setEntry (id : Str) (e : Entry)
  | setRefs (key : Str) (refs : List Ref)
  | delete (key : Str)
  | origin (method : Str) (hdr : Header) (deadline : Option Int)
  | spawn
  deriving Repr

/-- an answer of the environment -/
inductive Ans where
  | refs (r : Option (List Ref))
  | entry (e : Option Entry)
  | ok (b : Bool)
  | unit
  | origin (a : OriginAns)
  deriving Repr

def Prog.op : Prog → Op
  | .ret r => .ret r
  | .getRefs k _ => .getRefs k
  | .getEntry i _ => .getEntry i
  | .setEntry i e _ => .setEntry i e
  | .setRefs k r _ => .setRefs k r
  | .delete k _ => .delete k
  | .origin m h d _ => .origin m h d
  | .spawn _ _ => .spawn

/-- advance one node with the environment's answer; `none` when the answer has the wrong shape
    or the program has ended -/
def Prog.step : Prog → Ans → Option Prog
  | .getRefs _ k, .refs r => some (k r)
  | .getEntry _ k, .entry e => some (k e)
  | .setEntry _ _ k, .ok b => some (k b)
  | .setRefs _ _ k, .ok b => some (k b)
  | .delete _ k, .unit => some k
  | .origin _ _ _ k, .origin a => some (k a)
  | .spawn _ k, .unit => some k
  | _, _ => none

/-- run against a list of answers, collecting the labels met; stops at `ret`, at the end of
    the answers or at a shape mismatch -/
def Prog.run : Prog → List Ans → List Op
  | p, [] => [p.op]
  | p, a :: as =>
    match p.step a with
    | some p' => p.op :: Prog.run p' as
    | none => [p.op]

end Httpcache
