import Httpcache.Model.Headers
/-
internal/urlkeyer.go, internal/helpers.go (splitHostPort, defaultPort, sameOrigin, method predicates).
url.Parse / ResolveReference / EscapedPath are glue: the model receives their results.
-/
namespace Httpcache

def defaultPort (scheme : Str) : Str :=
  if scheme = (str% "http") then str% "80" else if scheme = (str% "https") then str% "443" else []

/-- validOptionalPort -/
def validOptionalPort : Str → Bool
  | [] => true
  | c :: r => c = ':' && r.all isDigit

/-- index of the last occurrence of `c` -/
def lastIndexOf (c : Char) (s : Str) : Option Nat :=
  let rec go (i : Nat) (best : Option Nat) : Str → Option Nat
    | [] => best
    | x :: r => go (i + 1) (if x = c then some i else best) r
  go 0 none s

/-- internal/helpers.go splitHostPort (brackets of an IP literal are kept) -/
def splitHostPort (hostPort : Str) : Str × Str :=
  match lastIndexOf ':' hostPort with
  | none => (hostPort, [])
  | some i =>
    if validOptionalPort (hostPort.drop i) then (hostPort.take i, hostPort.drop (i + 1))
    else (hostPort, [])

def isHexDigit (c : Char) : Bool :=
  isDigit c || ('A' ≤ c && c ≤ 'F') || ('a' ≤ c && c ≤ 'f')

def fromHex (c : Char) : Nat :=
  if isDigit c then c.toNat - 48
  else if 'a' ≤ c && c ≤ 'f' then c.toNat - 97 + 10
  else if 'A' ≤ c && c ≤ 'F' then c.toNat - 65 + 10
  else 0

def isUnreserved (c : Char) : Bool :=
  isAlpha c || isDigit c || c = '-' || c = '.' || c = '_' || c = '~'

def hexDigitUpper (n : Nat) : Char := (str% "0123456789ABCDEF").getD n '0'

/-- normalizePercentEncoding -/
def normalizePercentEncoding : Str → Str
  | '%' :: a :: b :: r =>
    if isHexDigit a && isHexDigit b then
      let v := fromHex a * 16 + fromHex b
      let c := Char.ofNat v
      if isUnreserved c then c :: normalizePercentEncoding r
      else '%' :: hexDigitUpper (v / 16) :: hexDigitUpper (v % 16) :: normalizePercentEncoding r
    else '%' :: normalizePercentEncoding (a :: b :: r)
  | c :: r => c :: normalizePercentEncoding r
  | [] => []

/-- strings.Split(s, "/") -/
def splitSlash (s : Str) : List Str :=
  let rec go (cur : Str) : Str → List Str
    | [] => [cur.reverse]
    | c :: r => if c = '/' then cur.reverse :: go [] r else go (c :: cur) r
  go [] s

/-- the loop of removeDotSegments over the segments after the leading "/" -/
def dotLoop : List Str → List Str → List Str
  | out, [] => out
  | out, [seg] =>
    if seg = ['.'] then out ++ [[]]
    else if seg = ['.', '.'] then out.dropLast ++ [[]]
    else out ++ [seg]
  | out, seg :: rest =>
    if seg = ['.'] then dotLoop out rest
    else if seg = ['.', '.'] then dotLoop out.dropLast rest
    else dotLoop (out ++ [seg]) rest

/-- internal/urlkeyer.go removeDotSegments: RFC 3986 §5.2.4 on an absolute (or empty) path -/
def removeDotSegments (path : Str) : Str :=
  match path with
  | '/' :: r => '/' :: joinWith ['/'] (dotLoop [] (splitSlash r))
  | _ => path

/-- a path without its leading slash under a non-empty host gets the slash (what url.URL.String writes) -/
def rootedPath (host path : Str) : Str :=
  match host, path with
  | _ :: _, c :: _ => if c = '/' then path else '/' :: path
  | _, _ => path

/-- makeURLKey over the components url.Parse delivers (path = EscapedPath) -/
def makeURLKeyOf (scheme host path query opaq : Str) : Str :=
  if !opaq.isEmpty then opaq
  else
    let (h, port0) := splitHostPort host
    let defP := defaultPort scheme
    let port := if port0.isEmpty then defP else port0
    let hostPort := if !port.isEmpty && port ≠ defP then lowerASCII h ++ [':'] ++ port else lowerASCII h
    let path := removeDotSegments (normalizePercentEncoding (rootedPath host path))
    let path := if path.isEmpty && (scheme = (str% "http") || scheme = (str% "https")) then ['/'] else path
    let base := scheme ++ (str% "://") ++ hostPort ++ path
    if query.isEmpty then base else base ++ ['?'] ++ normalizePercentEncoding query

/-- … and the "?" of a URL whose query is present but empty (url.URL.ForceQuery) -/
def makeURLKeyQ (scheme host path query opaq : Str) (forceQuery : Bool) : Str :=
  if forceQuery && query.isEmpty && opaq.isEmpty then makeURLKeyOf scheme host path query opaq ++ ['?']
  else makeURLKeyOf scheme host path query opaq

def makeURLKey (r : Req) : Str := makeURLKeyQ r.scheme r.host r.path r.query r.opaq r.forceQuery

/-- isRequestMethodUnderstood -/
def isRequestMethodUnderstood (r : Req) : Bool :=
  r.method = sGET && (Header.values r.header sRange).isEmpty

/-- IsUnsafeMethod -/
def isUnsafeMethod (m : Str) : Bool := !(Generated.safeMethods.map String.toList).contains m

/-- IsNonErrorStatus -/
def isNonErrorStatus (s : Nat) : Bool := 200 ≤ s && s < 400

/-! net/url URL.Hostname / URL.Port (stdlib, transcribed) used by sameOrigin -/

def stdSplitHostPort (hostPort : Str) : Str × Str :=
  let (h, p) := match lastIndexOf ':' hostPort with
    | none => (hostPort, [])
    | some i => if validOptionalPort (hostPort.drop i) then (hostPort.take i, hostPort.drop (i + 1)) else (hostPort, [])
  match h with
  | '[' :: r => if r.getLast? = some ']' then (r.dropLast, p) else (h, p)
  | _ => (h, p)

def equalFoldASCII (a b : Str) : Bool := lowerASCII a = lowerASCII b

/-- sameOrigin over (scheme, host) pairs -/
def sameOrigin (aScheme aHost bScheme bHost : Str) : Bool :=
  let (ah, ap0) := stdSplitHostPort aHost
  let (bh, bp0) := stdSplitHostPort bHost
  let ap := if ap0.isEmpty then defaultPort aScheme else ap0
  let bp := if bp0.isEmpty then defaultPort bScheme else bp0
  equalFoldASCII aScheme bScheme && equalFoldASCII ah bh && ap = bp

end Httpcache
