import Httpcache.Core.Basic
/-
store/fscache/fscache.go set / get / delete at the granularity of file-system operations
(the step list of `set` is regenerated from the source into Generated.fsSetOps):

  set    = MkdirAll ; OpenFile(temp, O_CREATE|O_EXCL) ; Write ; Sync ; Close ; Rename(temp → name)
           (Remove(temp) on failure)
  get    = Open(name) ; ReadAll          — the open file description keeps its inode
  delete = Remove(name)

Any number of operations may be in progress; a writer may stop after any step (failed write, full
disk, process killed); a write may persist any prefix of the value.
-/
namespace Httpcache

/-- a Set between creating its temporary file and renaming it -/
structure Writer where
  key : Str
  value : Str
  ino : Nat
  deriving DecidableEq

structure Fs where
  content : Nat → Str            -- inode → bytes
  final : Str → Option Nat       -- file name of a key → inode
  published : List Nat           -- inodes that have ever been linked under a final name
  written : List (Str × Str)     -- ghost: (key, value) of every Set that has started
  writers : List Writer
  nextIno : Nat

def Fs.init : Fs := { content := fun _ => [], final := fun _ => none, published := [], written := [], writers := [], nextIno := 0 }

def setContent (c : Nat → Str) (i : Nat) (v : Str) : Nat → Str := fun j => if j = i then v else c j
def setFinal (f : Str → Option Nat) (k : Str) (v : Option Nat) : Str → Option Nat := fun j => if j = k then v else f j

inductive FsStep : Fs → Fs → Prop where
  /-- OpenFile(temp, O_CREATE|O_EXCL): a fresh inode under a temporary name -/
  | beginSet (s : Fs) (k v : Str) :
      FsStep s { s with content := setContent s.content s.nextIno [], written := (k, v) :: s.written,
                        writers := ⟨k, v, s.nextIno⟩ :: s.writers, nextIno := s.nextIno + 1 }
  /-- Write: any prefix of the value may have reached the temporary file -/
  | write (s : Fs) (w : Writer) (n : Nat) : w ∈ s.writers →
      FsStep s { s with content := setContent s.content w.ino (w.value.take n) }
  /-- the Set fails or its process dies: the temporary file is abandoned -/
  | abandon (s : Fs) (w : Writer) : w ∈ s.writers → FsStep s { s with writers := s.writers.filter (· ≠ w) }
  /-- Rename(temp → name), reached only after Write, Sync and Close succeeded: atomic -/
  | commit (s : Fs) (w : Writer) : w ∈ s.writers → s.content w.ino = w.value →
      FsStep s { s with final := setFinal s.final w.key (some w.ino), published := w.ino :: s.published,
                        writers := s.writers.filter (· ≠ w) }
  /-- Remove(name) -/
  | delete (s : Fs) (k : Str) : FsStep s { s with final := setFinal s.final k none }

inductive FsSteps : Fs → Fs → Prop where
  | refl (s : Fs) : FsSteps s s
  | step {a b c : Fs} : FsSteps a b → FsStep b c → FsSteps a c

end Httpcache
