import Httpcache.Core.Basic
/-
internal/entry.go ResponseRef.MarshalJSON / UnmarshalJSON: how the strings of a reference (id, Vary
value, recorded selecting values) travel through the JSON index. encoding/json is glue: it carries a
valid UTF-8 string unchanged and replaces the bytes of any other by U+FFFD; base64 is glue too.
-/
namespace Httpcache

def jsonOpaquePrefix : Str := [Char.ofNat 0, 'b', '6', '4', ':']

def stripPrefix : Str → Str → Option Str
  | [], s => some s
  | _ :: _, [] => none
  | p :: ps, c :: cs => if p = c then stripPrefix ps cs else none

/-- jsonSafeString -/
def jsonSafeString (validUtf8 : Str → Bool) (b64 : Str → Str) (s : Str) : Str :=
  if validUtf8 s && (stripPrefix jsonOpaquePrefix s).isNone then s else jsonOpaquePrefix ++ b64 s

/-- jsonOriginalString -/
def jsonOriginalString (unb64 : Str → Option Str) (s : Str) : Str :=
  match stripPrefix jsonOpaquePrefix s with
  | some rest => (unb64 rest).getD s
  | none => s

end Httpcache
