import Httpcache.Core.Basic
/-
Data carried by the model. Header lists hold canonical field names and keep the
order of field lines; all header operations below are those of Go's http.Header
(a map from canonical name to the list of values).
-/
namespace Httpcache

abbrev Header := List (Str × Str)

namespace Header
def values (h : Header) (n : Str) : List Str := (h.filter (fun p => p.1 = n)).map (·.2)
/-- http.Header.Get: first value or "" -/
def get (h : Header) (n : Str) : Str := ((h.find? (fun p => p.1 = n)).map (·.2)).getD []
def has (h : Header) (n : Str) : Bool := h.any (fun p => p.1 = n)
def del (h : Header) (n : Str) : Header := h.filter (fun p => p.1 ≠ n)
def set (h : Header) (n v : Str) : Header := del h n ++ [(n, v)]
/-- `h[n] = vs` -/
def setValues (h : Header) (n : Str) (vs : List Str) : Header := del h n ++ vs.map (fun v => (n, v))
def names (h : Header) : List Str := (h.map (·.1)).eraseDups
/-- canonical form used for comparisons: stable sort by field name -/
def canon (h : Header) : Header := sortBy (fun a b => strLe a.1 b.1) h
end Header

structure Req where
  method : Str
  /-- results of url.Parse + ResolveReference (glue): scheme, host, escaped path, raw query, opaque -/
  scheme : Str
  host : Str
  path : Str
  query : Str
  opaq : Str
  header : Header
  /-- url.URL.ForceQuery: the URL ends in "?" with an empty query ("/p?" is not "/p", RFC 3986 §6.2.3) -/
  forceQuery : Bool := false
  deriving DecidableEq, Repr

structure Resp where
  status : Nat
  header : Header
  body : Str
  deriving DecidableEq, Repr, Inhabited

/-- internal/entry.go Response (decoded) -/
structure Entry where
  id : Str
  requestedAt : Int
  receivedAt : Int
  resp : Resp
  deriving DecidableEq, Repr, Inhabited

/-- internal/entry.go ResponseRef -/
structure Ref where
  id : Str
  vary : Str
  resolved : List (Str × Str)   -- sorted by field name (a Go map; JSON object)
  receivedAt : Option Int       -- none: zero time (omitted from JSON)
  deriving DecidableEq, Repr, Inhabited

/-- stdlib results supplied to the model (never repo code): http.ParseTime. -/
structure Glue where
  parseTime : Str → Option Int    -- unix seconds

inductive CacheStatus where | hit | miss | stale | revalidated | bypass
  deriving DecidableEq, Repr

def sCacheControl : Str := str% "Cache-Control"
def sDate : Str := str% "Date"
def sExpires : Str := str% "Expires"
def sLastModified : Str := str% "Last-Modified"
def sAge : Str := str% "Age"
def sETag : Str := str% "Etag"
def sVary : Str := str% "Vary"
def sRange : Str := str% "Range"
def sConnection : Str := str% "Connection"
def sContentLength : Str := str% "Content-Length"
def sIfNoneMatch : Str := str% "If-None-Match"
def sIfModifiedSince : Str := str% "If-Modified-Since"
def sLocation : Str := str% "Location"
def sContentLocation : Str := str% "Content-Location"
def sStatusHeader : Str := str% "X-Httpcache-Status"
def sFromCache : Str := str% "X-From-Cache"
def sGET : Str := str% "GET"

end Httpcache
