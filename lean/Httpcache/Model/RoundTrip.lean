import Httpcache.Model.Prog
/-
roundtripper.go (RoundTrip, handleUnrecognizedMethod, handleCacheMiss, handleCacheHit,
serveFromCache, handleStaleWhileRevalidate, backgroundRevalidate, roundTripTimed),
internal/responsestorerer.go (StoreResponse, FreshenResponse), internal/cacheinvalidator.go,
internal/validationresponsehandler.go, internal/responsecache.go, internal/entry.go (ParseResponse).
Written from the code, node for node.
-/
namespace Httpcache

/-- the components url.Parse delivers for the value of a Location-like field (glue), unresolved;
    `scheme`/`host` repeat `kScheme`/`kHost` -/
structure LocGlue where
  scheme : Str
  host : Str
  kScheme : Str
  kHost : Str
  kPath : Str
  kQuery : Str
  kOpaq : Str
  kForceQuery : Bool := false
  deriving Repr

/-- internal/cacheinvalidator.go resolveReference: the reference resolved against the request URL by RFC 3986
    §5.2.2 WITHOUT removing dot segments (the keyer does that, after normalising the percent-encoding, as for a
    request URL — url.URL.ResolveReference removes them first and by other rules) -/
def resolveLoc (req : Req) (g : LocGlue) : LocGlue :=
  if !g.kScheme.isEmpty then g
  else if !g.kHost.isEmpty then { g with scheme := req.scheme, kScheme := req.scheme }
  else
    let t : LocGlue := { g with scheme := req.scheme, kScheme := req.scheme, host := req.host, kHost := req.host }
    if g.kPath.isEmpty then
      if g.kQuery.isEmpty && !g.kForceQuery then { t with kPath := req.path, kQuery := req.query, kForceQuery := req.forceQuery }
      else { t with kPath := req.path }
    else if g.kPath.head? = some '/' then t
    else { t with kPath := (req.path.reverse.dropWhile (· ≠ '/')).reverse ++ g.kPath }

/-- the URL key of the (resolved) Location / Content-Location URL -/
def LocGlue.key (g : LocGlue) : Str := makeURLKeyQ g.kScheme g.kHost g.kPath g.kQuery g.kOpaq g.kForceQuery

structure Cfg where
  glue : Glue
  /-- internal/normalization.go q-value normaliser (glue for the unmodelled classes) -/
  normQ : Str → Str → Str
  /-- glue for Location / Content-Location of the reply of this exchange; none = unparsable -/
  loc : Str → Option LocGlue
  swrTimeout : Int

/-- newTransport: `cmp.Or(max(swrTimeout, 0), DefaultSWRTimeout)` -/
def swrTimeoutOf (configured : Int) : Int :=
  if max configured 0 = 0 then Generated.defaultSWRTimeoutNs else max configured 0

/-- ParseResponse: the Connection field of the decoded entry (the dump's own "Connection: close" of an
    HTTP/1.0 entry) is dropped; nothing else — "close" is a connection option, not a field name -/
def parsedEntry (e : Entry) : Entry :=
  { e with resp := { e.resp with header := Header.del e.resp.header sConnection } }

def respWith (r : Resp) (h : Header) : Resp := { r with header := h }

/-! ### cacheinvalidator.go -/

def delOnce (deleted : List Str) (k : Str) (cont : List Str → Prog) : Prog :=
  if deleted.contains k then cont deleted else Prog.delete k (cont (k :: deleted))

def delMany (deleted : List Str) : List Str → (List Str → Prog) → Prog
  | [], cont => cont deleted
  | k :: r, cont => delOnce deleted k (fun d => delMany d r cont)

def invalidateLocation (cfg : Cfg) (req : Req) (respH : Header) (hdr : Str) (deleted : List Str)
    (cont : List Str → Prog) : Prog :=
  if (Header.get respH hdr).isEmpty then cont deleted
  else match cfg.loc hdr with
    | none => cont deleted
    | some g0 =>
      if sameOrigin req.scheme req.host (resolveLoc req g0).scheme (resolveLoc req g0).host then
        let locKey := (resolveLoc req g0).key
        Prog.getRefs locKey fun refs =>
          delMany deleted ((refs.getD []).map (·.id)) fun d => delOnce d locKey cont
      else cont deleted

/-- InvalidateCache -/
def invalidateCache (cfg : Cfg) (req : Req) (respH : Header) (refs : List Ref) (key : Str) (k : Prog) : Prog :=
  delMany [] (refs.map (·.id)) fun d =>
    invalidateLocation cfg req respH sLocation d fun d =>
      invalidateLocation cfg req respH sContentLocation d fun d =>
        delOnce d key fun _ => k

/-! ### responsestorerer.go -/

/-- one variant: the same identifier and the same nominated fields and values, however the Vary value was spelled -/
def sameVariant (a b : Ref) : Bool := a.id = b.id && a.resolved = b.resolved

def placeRef (refs : List Ref) (refIndex : Option Nat) (ref : Ref) : List Ref × Nat :=
  match refIndex with
  | some i => if i < refs.length then (refs.set i ref, i) else (refs ++ [ref], refs.length)
  | none => (refs ++ [ref], refs.length)

def dedupeRefs (refs : List Ref) (idx : Nat) (ref : Ref) : List Ref :=
  (refs.zipIdx.filter (fun p => p.2 = idx || !sameVariant p.1 ref)).map (·.1)

/-- the identifier named by the reference that `placeRef` overwrites, if it overwrites one -/
def replacedId (refs : List Ref) (refIndex : Option Nat) : Option Str :=
  match refIndex with
  | some i => (refs[i]?).map (·.id)
  | none => none

/-- after the index write: the response the replaced reference named is removed once no reference names it
    (the new response varies on other fields, so its identifier differs; left behind it could never be read,
    replaced or invalidated again) -/
def dropReplaced (refs newRefs : List Ref) (refIndex : Option Nat) (ok2 : Bool) (k : Prog) : Prog :=
  match replacedId refs refIndex with
  | some old => if ok2 && !old.isEmpty && !(newRefs.any fun x => x.id = old) then Prog.delete old k else k
  | none => k

/-- StoreResponse; the continuation receives the response as the caller sees it afterwards
    (its hop-by-hop fields are removed in place) -/
def storeResponse (cfg : Cfg) (reqH : Header) (r : Resp) (bodyOk : Bool) (key : Str) (refs : List Ref)
    (reqT respT : Int) (refIndex : Option Nat) (k : Resp → Prog) : Prog :=
  let r' := respWith r (removeHopByHop r.header)
  let vary0 := joinWith [',', ' '] (Header.values r'.header sVary)
  -- a Vary value with a "*" member is recorded as "*": one variant, however it is spelled
  -- (each field line is looked at on its own: a stray quote on one line must not hide a "*" on the next)
  let vary := if (Header.values r'.header sVary).any varyHasWildcard then ['*'] else vary0
  let resolved := normalizeVary cfg.normQ vary reqH
  let id := makeVaryKey key resolved
  let entry : Entry := { id := id, requestedAt := reqT, receivedAt := respT, resp := r' }
  if !bodyOk then k r'   -- MarshalBinary fails: nothing reaches the backend
  else Prog.setEntry id entry fun ok =>
    if !ok then k r'
    else
      let ref : Ref := { id := id, vary := vary, resolved := resolved,
                         receivedAt := timeOf cfg.glue (Header.get r'.header sDate) }
      let (refs1, idx) := placeRef refs refIndex ref
      Prog.setRefs key (dedupeRefs refs1 idx ref) fun ok2 =>
        dropReplaced refs (dedupeRefs refs1 idx ref) refIndex ok2 (k r')

/-! ### validationresponsehandler.go -/

/-- the header list of a stored response served WITHOUT validation in this exchange: fields named by
    a qualified no-cache removed, Age set, cache status applied (serveFromCache, the
    stale-while-revalidate path and the stale-if-error path all do exactly this) -/
def servedHeader (s : CacheStatus) (f : Freshness) (now : Int) (h : Header) (cc : Directives) : Header :=
  applyStatus s (setAgeHeader (stripNoCacheFields h cc) f now)

def serveStale (f : Freshness) (now : Int) (stored : Entry) : Resp :=
  respWith stored.resp (servedHeader .stale f now stored.resp.header (parseCC stored.resp.header))

/-- hasFieldValue: some field line of the field has a value -/
def hasFieldValue (h : Header) (n : Str) : Bool := (Header.values h n).any (fun v => !(trimString v).isEmpty)

/-- clientPreconditionForwarded: a precondition of the client's own decided the origin's answer because the
    stored response has no validator to put in its place. With a stored ETag the answer is about the stored
    response (If-None-Match takes precedence over any If-Modified-Since, RFC 9110 §13.2.2). -/
def clientPreconditionForwarded (reqH storedH : Header) : Bool :=
  (Header.get storedH sETag).isEmpty &&
  (hasFieldValue reqH sIfNoneMatch || (hasFieldValue reqH sIfModifiedSince && (Header.get storedH sLastModified).isEmpty))

/-- HandleValidationResponse; `reqH` is the header list of the CLIENT's request: what a full reply is
    stored for (the conditional request only goes upstream) -/
def handleValidation (cfg : Cfg) (method : Str) (reqH : Header) (key : Str) (stored : Entry)
    (refs : List Ref) (refIndex : Option Nat) (f : Freshness) (ccReq : Directives)
    (mustValidate : Bool) (start : Int) (ans : OriginAns) (k : Result → Prog) : Prog :=
  let storedCC := parseCC stored.resp.header
  match ans with
  | .err t1 =>
    if method = sGET && !mustValidate && !(staleAt f t1 && storedCC.mustRevalidate) && canStaleOnError f t1 [storedCC, ccReq]
    then k (.resp (serveStale f t1 stored))
    else k .err
  | .resp r t1 bodyOk =>
    if method = sGET && r.status = 304 && !clientPreconditionForwarded reqH stored.resp.header then
      let h := updateStoredHeaders (Header.del stored.resp.header sAge) r.header
      let stored' : Entry := { stored with requestedAt := start, receivedAt := t1, resp := respWith stored.resp h }
      let out := k (.resp (respWith stored.resp (applyStatus .revalidated h)))
      -- no-store on the request or on the 304: nothing of the 304 is written; neither is it when the merged
      -- response could not have been stored had it arrived like that
      if stored.id.isEmpty || ccReq.noStore || (parseCC r.header).noStore ||
         !canStoreResponse (respWith stored.resp h) ccReq (parseCC h) then out
      else if joinWith [',', ' '] (Header.values h sVary) ≠ joinWith [',', ' '] (Header.values stored.resp.header sVary) then
        -- the 304 changed the Vary field: the response is stored anew for this request, like a full reply
        storeResponse cfg reqH (respWith stored.resp h) true key refs start t1 refIndex fun r' =>
          k (.resp (respWith r' (applyStatus .revalidated r'.header)))
      else Prog.setEntry stored.id stored' fun _ => out
    else if isStaleErrorAllowed r.status && method = sGET && !mustValidate &&
            !(staleAt f t1 && storedCC.mustRevalidate) && canStaleOnError f t1 [storedCC, ccReq]
    then k (.resp (serveStale f t1 stored))
    else
      let ccResp := parseCC r.header
      if r.status ≠ 304 && canStoreResponse r ccReq ccResp then
        storeResponse cfg reqH r bodyOk key refs start t1 refIndex fun r' =>
          k (.resp (respWith r' (applyStatus .miss r'.header)))
      else k (.resp (respWith r (applyStatus .bypass r.header)))

/-- roundTripTimed's FixDateHeader on a reply -/
def fixAns (cfg : Cfg) : OriginAns → OriginAns
  | .resp r t1 b => .resp (respWith r (fixDateHeader cfg.glue r.header t1)) t1 b
  | a => a

/-! ### roundtripper.go -/

/-- backgroundRevalidate -/
def backgroundRevalidate (cfg : Cfg) (method : Str) (condH clientH : Header) (key : Str) (stored : Entry)
    (f : Freshness) (ccReq : Directives) (start : Int) : Prog :=
  Prog.origin method condH (some cfg.swrTimeout) fun ans =>
    match fixAns cfg ans with
    | .err _ => .ret .done
    | a@(.resp _ _ _) =>
      Prog.getRefs key fun
        | none => .ret .done
        | some refs =>
          match refs.findIdx? (fun r => r.id = stored.id) with
          | none => .ret .done
          | some i =>
            Prog.getEntry stored.id fun
              | none => .ret .done
              | some own0 =>
                let own := parsedEntry own0
                if own.requestedAt ≠ stored.requestedAt || own.receivedAt ≠ stored.receivedAt then .ret .done
                else handleValidation cfg method clientH key own refs (some i) f ccReq false start a
                       (fun _ => .ret .done)

/-- handleCacheMiss -/
def handleCacheMiss (cfg : Cfg) (t0 : Int) (req : Req) (key : Str) (refs : List Ref) (refIndex : Option Nat) : Prog :=
  let ccReq := parseCC req.header
  if ccReq.onlyIfCached then .ret (.resp make504)
  else Prog.origin req.method req.header none fun ans =>
    match fixAns cfg ans with
    | .err _ => .ret .err
    | .resp r t1 bodyOk =>
      let ccResp := parseCC r.header
      if r.status ≠ 304 && canStoreResponse r ccReq ccResp then
        storeResponse cfg req.header r bodyOk key refs t0 t1 refIndex fun r' =>
          .ret (.resp (respWith r' (applyStatus .miss r'.header)))
      else .ret (.resp (respWith r (applyStatus .miss r.header)))

/-- serveFromCache -/
def serveFromCache (f : Freshness) (now : Int) (stored : Entry) (ccResp : Directives) : Resp :=
  respWith stored.resp (servedHeader .hit f now stored.resp.header ccResp)

/-- the `revalidate:` label of handleCacheHit -/
def revalidateProg (cfg : Cfg) (t0 : Int) (req : Req) (stored : Entry) (key : Str) (refs : List Ref)
    (refIndex : Nat) (f : Freshness) (ccReq : Directives) (mustValidate : Bool) : Prog :=
  Prog.origin req.method (withConditional req.header stored.resp.header) none fun ans =>
    handleValidation cfg req.method req.header key stored refs
      (some refIndex) f ccReq mustValidate t0 (fixAns cfg ans) (fun r => .ret r)

/-- the response of the stale-while-revalidate path -/
def swrResponse (f : Freshness) (now : Int) (stored : Entry) (ccResp : Directives) : Resp :=
  respWith stored.resp (servedHeader .stale f now stored.resp.header ccResp)

/-- validation that nothing but successful validation satisfies (roundtripper.go mustValidate) -/
def mustValidateOf (f : Freshness) (ccReq ccResp : Directives) : Bool :=
  ccReq.noCache || (f.isStale && ccResp.mustRevalidate) || ccResp.noCacheUnqualified

/-- the stale-while-revalidate window test -/
def inSwrWindow (f : Freshness) (now : Int) (swr : Int) : Bool :=
  f.isStale && decide (satAdd f.ageValue (satSub now f.ageTimestamp) ≥ f.usefulLife) &&
    decide (satAdd f.ageValue (satSub now f.ageTimestamp) < satAdd f.usefulLife swr)

/-- handleCacheHit -/
def handleCacheHit (cfg : Cfg) (t0 : Int) (req : Req) (stored : Entry) (key : Str) (refs : List Ref) (refIndex : Nat) : Prog :=
  let ccReq := parseCC req.header
  let ccResp := parseCC stored.resp.header
  let tf := transportFreshness cfg.glue t0 stored ccReq ccResp
  let mv := mustValidateOf tf.1 ccReq ccResp
  if mv || tf.2 then
    (if ccReq.onlyIfCached then .ret (.resp make504)
     else revalidateProg cfg t0 req stored key refs refIndex tf.1 ccReq mv)
  else if !tf.1.isStale && ccResp.immutable && !ccReq.noCache then .ret (.resp (serveFromCache tf.1 t0 stored ccResp))
  else if ccReq.onlyIfCached || (!tf.1.isStale && !ccReq.noCache) then .ret (.resp (serveFromCache tf.1 t0 stored ccResp))
  else
    match ccResp.staleWhileRevalidate with
    | some swr =>
      if inSwrWindow tf.1 t0 swr then
        Prog.spawn (backgroundRevalidate cfg req.method (withConditional req.header stored.resp.header) req.header key stored tf.1 ccReq t0)
          (.ret (.resp (swrResponse tf.1 t0 stored ccResp)))
      else revalidateProg cfg t0 req stored key refs refIndex tf.1 ccReq mv
    | none => revalidateProg cfg t0 req stored key refs refIndex tf.1 ccReq mv

/-- handleUnrecognizedMethod -/
def handleUnrecognizedMethod (cfg : Cfg) (req : Req) (key : Str) : Prog :=
  if (parseCC req.header).onlyIfCached then .ret (.resp make504) else
  Prog.origin req.method req.header none fun
    | .err _ => .ret .err
    | .resp r _ _ =>
      let out := Prog.ret (.resp (respWith r (applyStatus .bypass r.header)))
      if isUnsafeMethod req.method && isNonErrorStatus r.status then
        Prog.getRefs key fun refs => invalidateCache cfg req r.header (refs.getD []) key out
      else out

/-- transport.RoundTrip at instant t0 -/
def roundTrip (cfg : Cfg) (t0 : Int) (req : Req) : Prog :=
  let key := makeURLKey req
  if !isRequestMethodUnderstood req then handleUnrecognizedMethod cfg req key
  else Prog.getRefs key fun
    | none => handleCacheMiss cfg t0 req key [] none
    | some [] => handleCacheMiss cfg t0 req key [] none
    | some refs =>
      match varyHeadersMatch cfg.normQ refs req.header with
      | (sorted, none) => handleCacheMiss cfg t0 req key sorted none
      | (sorted, some i) =>
        Prog.getEntry (sorted.getD i default).id fun
          | none => handleCacheMiss cfg t0 req key sorted (some i)
          | some e => handleCacheHit cfg t0 req (parsedEntry e) key sorted i

end Httpcache
