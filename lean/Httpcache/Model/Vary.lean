import Httpcache.Model.Url
/-
internal/normalization.go, internal/varymatcher.go
-/
namespace Httpcache

def inList (l : List String) (f : Str) : Bool := (l.map String.toList).contains f

open Generated in
def byQValue := Generated.byQValue
def byEncoding := Generated.byEncoding
def byTimeInsensitive := Generated.byTimeInsensitive
def byOrderInsensitive := Generated.byOrderInsensitive
def byCaseInsensitive := Generated.byCaseInsensitive

/-- normalizeOrderInsensitive -/
def normalizeOrderInsensitive (v : Str) : Str :=
  joinWith [','] (sortBy strLe (trimmedCSV v))

/-- Authorization: strings.SplitN(value, " ", 2) -/
def normalizeAuthorization (v : Str) : Str :=
  match cutAt ' ' v with
  | some (a, b) => lowerASCII a ++ [' '] ++ b
  | none => v

/-- normalizeHeaderValue for the modelled classes; `none` for the q-value classes
    (Accept, Accept-Charset, Accept-Language, Accept-Encoding, TE), which are glue. -/
def normalizeHeaderValue (field value : Str) : Option Str :=
  if value.isEmpty then some []
  else if inList byEncoding field then
    (if field = (str% "Content-Encoding") then none else none)
  else if inList byQValue field then none
  else if inList byOrderInsensitive field then some (normalizeOrderInsensitive value)
  else if inList byCaseInsensitive field then some (lowerASCII value)
  else if inList byTimeInsensitive field then some (trimSpace value)
  else if field = (str% "Authorization") then some (normalizeAuthorization value)
  else some value

/-- with the glue normaliser for the unmodelled classes -/
def normValue (normQ : Str → Str → Str) (field value : Str) : Str :=
  (normalizeHeaderValue field value).getD (normQ field value)

/-- combined request value of a nominated field: all field lines joined by ", " -/
def reqValue (normQ : Str → Str → Str) (reqH : Header) (field : Str) : Str :=
  let vs := Header.values reqH field
  if vs.isEmpty then [] else normValue normQ field (joinWith [',', ' '] vs)

/-- normalizeVaryHeaderSeq2 collected into a map (sorted by field name) -/
def normalizeVary (normQ : Str → Str → Str) (vary : Str) (reqH : Header) : List (Str × Str) :=
  let m := ((fieldNames vary).map canonicalHeaderKey).foldl (fun m n => ainsert n (reqValue normQ reqH n) m) []
  sortBy (fun a b => strLe a.1 b.1) m

/-! ### FNV-64a -/

def fnvOffset : Nat := 14695981039346656037
def fnvPrime : Nat := 1099511628211
def fnvStep (h : Nat) (c : Char) : Nat := ((Nat.xor h c.toNat) * fnvPrime) % 18446744073709551616
def fnv64a (s : Str) : Nat := s.foldl fnvStep fnvOffset

/-- the byte stream fed to the hash: "%d:%s%d:%s" per sorted (name, value) -/
def varyHashInput (resolved : List (Str × Str)) : Str :=
  resolved.foldr (fun p acc => natToStr p.1.length ++ [':'] ++ p.1 ++ natToStr p.2.length ++ [':'] ++ p.2 ++ acc) []

/-- makeVaryKey with an abstract hash (the theorems never assume more of it than stated) -/
def makeVaryKeyWith (hash : Str → Nat) (urlKey : Str) (resolved : List (Str × Str)) : Str :=
  if resolved.isEmpty then urlKey ++ ['#', '0']
  else urlKey ++ ['#'] ++ natToStr (hash (varyHashInput resolved))

def makeVaryKey := makeVaryKeyWith fnv64a

/-- varyHasWildcard -/
def varyHasWildcard (vary : Str) : Bool := (fieldNames vary).contains ['*']

def timeCmpLe (a b : Option Int) : Bool := (a.getD zeroTimeNs) ≤ (b.getD zeroTimeNs)

/-- `cmp a b ≤ 0` for the comparison function of VaryHeadersMatch -/
def refLe (a b : Ref) : Bool :=
  let av := trimSpace a.vary
  let bv := trimSpace b.vary
  let aStar := varyHasWildcard av
  let bStar := varyHasWildcard bv
  if aStar && !bStar then false
  else if bStar && !aStar then true
  else
    let aHas := !av.isEmpty
    let bHas := !bv.isEmpty
    if aHas && !bHas then true
    else if !aHas && bHas then false
    else timeCmpLe a.receivedAt b.receivedAt

/-- slices.SortFunc for fewer than 12 elements is an insertion sort (stable) -/
def sortRefs (refs : List Ref) : List Ref := sortBy refLe refs

/-- varyHeadersMatchOne -/
def varyMatchOne (normQ : Str → Str → Str) (ref : Ref) (reqH : Header) : Bool :=
  !varyHasWildcard ref.vary &&
  ref.resolved.all (fun p => reqValue normQ reqH p.1 = p.2)

/-- VaryHeadersMatch: the sorted list and the index of the first match -/
def varyHeadersMatch (normQ : Str → Str → Str) (refs : List Ref) (reqH : Header) : List Ref × Option Nat :=
  let s := sortRefs refs
  (s, s.findIdx? (fun r => varyMatchOne normQ r reqH))

end Httpcache
