import Httpcache.Model.Types
/-
internal/helpers.go TrimmedCSVSeq, internal/ccdirectives.go, internal/quotedstring.go
-/
namespace Httpcache

/-- state of the TrimmedCSVSeq loop -/
structure CsvSt where
  part : Str := []        -- current part, reversed
  inQuotes : Bool := false
  escape : Bool := false
  out : List Str := []    -- emitted parts, reversed
  deriving Repr

def csvEmit (st : CsvSt) : CsvSt :=
  let p := trimString st.part.reverse
  { st with part := [], out := if p.isEmpty then st.out else p :: st.out }

def csvStep (st : CsvSt) (c : Char) : CsvSt :=
  if st.escape then { st with part := c :: st.part, escape := false }
  else if c = '\\' && st.inQuotes then { st with part := c :: st.part, escape := true }
  else if c = '"' then { st with part := c :: st.part, inQuotes := !st.inQuotes }
  else if c = ',' && !st.inQuotes then csvEmit st
  else { st with part := c :: st.part }

/-- internal/helpers.go TrimmedCSVSeq, collected -/
def trimmedCSV (s : Str) : List Str :=
  let st := s.foldl csvStep {}
  (if st.part.isEmpty then st else csvEmit st).out.reverse

/-- http.CanonicalHeaderKey for valid tokens (textproto): first letter and letters after '-'
    upper-cased, others lower-cased; a name with a byte that is not a token char is returned
    unchanged. -/
def isTokenChar (c : Char) : Bool :=
  isAlpha c || isDigit c || c ∈ ['!','#','$','%','&','\'','*','+','-','.','^','_','`','|','~']

def canonAux : Bool → Str → Str
  | _, [] => []
  | up, c :: cs => (if up then upperChar c else lowerChar c) :: canonAux (c = '-') cs

def canonicalHeaderKey (s : Str) : Str :=
  if s.all isTokenChar then canonAux true s else s

/-- TrimmedCSVCanonicalSeq -/
def trimmedCSVCanonical (s : Str) : List Str := (trimmedCSV s).map canonicalHeaderKey

/-- fieldNameSeq: the members of a list of field names (Vary): split at every comma — a field name is a token,
    there is no quoted-string that a comma could be inside of — trimmed, empty members dropped -/
def fieldNames (s : Str) : List Str := ((splitOnComma s []).map trimString).filter (!·.isEmpty)

/-! ### quoted-string -/

def validQDText (c : Char) : Bool :=
  let b := c.toNat
  b = 9 || b = 32 || b = 0x21 || (0x23 ≤ b && b ≤ 0x5B) || (0x5D ≤ b && b ≤ 0x7E) || 0x80 ≤ b

/-- body of ParseQuotedStringE after the surrounding quotes were removed -/
def unquoteBody : Str → Option Str
  | [] => some []
  | '\\' :: [] => none
  | '\\' :: c :: r => (unquoteBody r).map (c :: ·)
  | c :: r => if validQDText c then (unquoteBody r).map (c :: ·) else none

def parseQuotedStringE (s : Str) : Option Str :=
  match s with
  | '"' :: r =>
    match r.reverse with
    | '"' :: mid => unquoteBody mid.reverse
    | _ => none
  | _ => none

/-- ParseQuotedString: the input itself when it is not a valid quoted-string -/
def parseQuotedString (s : Str) : Str := (parseQuotedStringE s).getD s

/-! ### directives -/

abbrev Directives := List (Str × Str)

def directiveOfPart (part : Str) : Option (Str × Str) :=
  let (key, value) := match cutAt '=' part with
    | none => (trimString part, [])
    | some (k, v) => (k, trimString v)
  if key.isEmpty then none else some (lowerASCII key, value)

def sNoCache : Str := str% "no-cache"

/-- quoteString: `"`, every byte that is not qdtext escaped with a backslash, `"` -/
def quoteString (s : Str) : Str :=
  '"' :: (s.flatMap fun c => if validQDText c then [c] else ['\\', c]) ++ ['"']

/-- one assignment of parseDirectives: the FIRST occurrence of a directive is kept, except for
    no-cache: an unqualified one wins wherever it stands, and two qualified ones name the fields of
    both lists. (The code collects the later no-cache arguments and joins them once at the end —
    `mergeNoCache`, linear in their length; the model merges at every insert. The two give the same
    map because `parseQuotedString (quoteString x) = x` (Proofs/Csv.lean, `parseQuotedString_quoteString`):
    re-reading the merged list gives back the joined lists. The correspondence check compares them on
    every history with repeated no-cache directives.) -/
def directiveInsert (m : Directives) (k v : Str) : Directives :=
  match alookup k m with
  | some prev =>
    if k = sNoCache then
      let prevFields := parseQuotedString prev
      if prevFields.isEmpty then m
      else
        let fields := parseQuotedString v
        if fields.isEmpty then ainsert k v m
        else ainsert k (quoteString (prevFields ++ [','] ++ fields)) m
    else m
  | none => ainsert k v m

/-- addDirectives: the directives of one list value, inserted into a map -/
def parseDirectivesInto (m : Directives) (s : Str) : Directives :=
  (trimmedCSV s).foldl (fun m part => match directiveOfPart part with
    | none => m
    | some (k, v) => directiveInsert m k v) m

/-- parseDirectives -/
def parseDirectives (s : Str) : Directives := parseDirectivesInto [] s

/-- ParseCC…Directives = parseDirectiveLines over the Cache-Control field lines: several lines are one
    list, but each line is split on its own (a quoted-string cannot extend over field lines); `[]`
    also models the nil map of a message without a (non-empty) Cache-Control field (same lookups) -/
def parseCC (h : Header) : Directives :=
  if (joinWith [','] (h.values sCacheControl)).isEmpty then []
  else (h.values sCacheControl).foldl parseDirectivesInto []

/-- parseDeltaSeconds: duration in ns -/
def parseDeltaSeconds (s : Str) : Option Int :=
  match s with
  | [] => none
  | '-' :: _ => none
  | '+' :: _ => none
  | _ =>
    match parseInt64 s with
    | .syntaxErr => none
    | .rangeErr _ => some (maxDeltaSeconds * nsPerSec)
    | .ok v => some ((min v maxDeltaSeconds) * nsPerSec)

/-- RawDeltaSeconds.Value -/
def deltaSeconds (s : Str) : Option Int := parseDeltaSeconds (parseQuotedString s)

namespace Directives
def has (d : Directives) (k : Str) : Bool := (alookup k d).isSome
def dur (d : Directives) (k : Str) : Option Int := (alookup k d).bind deltaSeconds

def maxAge (d : Directives) := d.dur (str% "max-age")
def maxAgePresent (d : Directives) := d.has (str% "max-age")
def minFresh (d : Directives) := d.dur (str% "min-fresh")
def maxStaleRaw (d : Directives) : Option Str := alookup (str% "max-stale") d
def noCache (d : Directives) := d.has (str% "no-cache")
def noStore (d : Directives) := d.has (str% "no-store")
def onlyIfCached (d : Directives) := d.has (str% "only-if-cached")
def staleIfError (d : Directives) := d.dur (str% "stale-if-error")
def staleWhileRevalidate (d : Directives) := d.dur (str% "stale-while-revalidate")
def mustRevalidate (d : Directives) := d.has (str% "must-revalidate")
def mustUnderstand (d : Directives) := d.has (str% "must-understand")
def isPublic (d : Directives) := d.has (str% "public")
def immutable (d : Directives) := d.has (str% "immutable")

/-- CCResponseDirectives.NoCache + RawCSVSeq.Value (fieldNameSeq: the unquoted argument is a list of field names,
    split at every comma): `none` = directive absent,
    `some none` = unqualified, `some (some fields)` = qualified -/
def respNoCache (d : Directives) : Option (Option (List Str)) :=
  match alookup (str% "no-cache") d with
  | none => none
  | some v =>
    let raw := parseQuotedString v
    if raw.isEmpty then some none else some (some (fieldNames raw))

def noCacheUnqualified (d : Directives) : Bool := d.respNoCache = some none
end Directives

/-- internal/helpers.go StripNoCacheFields (http.Header.Del canonicalises the name) -/
def stripNoCacheFields (h : Header) (cc : Directives) : Header :=
  match cc.respNoCache with
  | some (some fields) => fields.foldl (fun h f => h.del (canonicalHeaderKey f)) h
  | _ => h

end Httpcache
