import Httpcache.Model.Types
import Httpcache.Generated.Tables
/-
store/memcache, store/fscache (filenamer.go, fscache.go get/set/delete/keys), store/expapi:
backends as maps; the file-system backend as a map from path (list of components) to bytes.
-/
namespace Httpcache

/-! ### the abstract map every backend must behave as -/
abbrev KV := List (Str × Str)

def kvGet (m : KV) (k : Str) : Option Str := alookup k m
def kvSet (m : KV) (k v : Str) : KV := ainsert k v m
def kvDel (m : KV) (k : Str) : KV := m.filter (fun p => p.1 ≠ k)
def isPrefixOf (p s : Str) : Bool := p.length ≤ s.length && s.take p.length = p
def kvKeys (m : KV) (pre : Str) : List Str := (m.map (·.1)).filter (isPrefixOf pre)

/-! ### base64url without padding (encoding/base64 RawURLEncoding), executable -/
def b64Alphabet : Str := str% "ABCDEFGHIJKLMNOPQRSTUVWXYZabcdefghijklmnopqrstuvwxyz0123456789-_"
def b64Char (n : Nat) : Char := b64Alphabet.getD n 'A'

def b64url : Str → Str
  | a :: b :: c :: r =>
    let n := a.toNat * 65536 + b.toNat * 256 + c.toNat
    b64Char (n / 262144 % 64) :: b64Char (n / 4096 % 64) :: b64Char (n / 64 % 64) :: b64Char (n % 64) :: b64url r
  | [a, b] =>
    let n := a.toNat * 65536 + b.toNat * 256
    [b64Char (n / 262144 % 64), b64Char (n / 4096 % 64), b64Char (n / 64 % 64)]
  | [a] =>
    let n := a.toNat * 65536
    [b64Char (n / 262144 % 64), b64Char (n / 4096 % 64)]
  | [] => []

/-! ### filenamer.go -/
def dirMarker : Str := Generated.dirMarker.toList
def fragmentSize : Nat := Generated.fragmentSize

/-- split into chunks of n characters (n > 0) -/
def chunks (n : Nat) (s : Str) : List Str :=
  if h : n = 0 ∨ s.length ≤ n then [s] else
    s.take n :: chunks n (s.drop n)
termination_by s.length
decreasing_by simp only [List.length_drop]; omega

/-- fragmentFileName over an encoding `enc` of the key: the path components -/
def fileNameWith (enc : Str → Str) (key : Str) : List Str :=
  let e := enc key
  if e.isEmpty then [dirMarker]
  else if e.length ≤ 255 then [e]
  else
    let cs := chunks (fragmentSize - dirMarker.length) e
    (cs.dropLast.map (· ++ dirMarker)) ++ cs.getLast?.toList

def fileName (key : Str) : List Str := fileNameWith b64url key

def pathString (p : List Str) : Str := joinWith ['/'] p

end Httpcache
