import Httpcache.Model.Freshness
/-
internal/helpers.go (hop-by-hop, 304 merge), internal/header.go (CacheStatus), internal/clock.go
(FixDateHeader), helpers.go (withConditionalHeaders, make504Response).
-/
namespace Httpcache

/-! ### http.TimeFormat of a Unix time (time.Time.UTC().Format(http.TimeFormat)) -/

def dayNames : List Str := [str% "Thu", str% "Fri", str% "Sat", str% "Sun", str% "Mon", str% "Tue", str% "Wed"]
def monthNames : List Str := [str% "Jan", str% "Feb", str% "Mar", str% "Apr", str% "May", str% "Jun",
  str% "Jul", str% "Aug", str% "Sep", str% "Oct", str% "Nov", str% "Dec"]

/-- days since 1970-01-01 → (year, month 1-12, day 1-31); Hinnant's civil_from_days -/
def civilFromDays (z0 : Int) : Int × Int × Int :=
  let z := z0 + 719468
  let era := (if z ≥ 0 then z else z - 146096) / 146097
  let doe := z - era * 146097
  let yoe := (doe - doe / 1460 + doe / 36524 - doe / 146096) / 365
  let y := yoe + era * 400
  let doy := doe - (365 * yoe + yoe / 4 - yoe / 100)
  let mp := (5 * doy + 2) / 153
  let d := doy - (153 * mp + 2) / 5 + 1
  let m := if mp < 10 then mp + 3 else mp - 9
  (if m ≤ 2 then y + 1 else y, m, d)

def pad2 (n : Int) : Str := if n < 10 then '0' :: intToStr n else intToStr n
def pad4 (n : Int) : Str :=
  let s := intToStr n
  List.replicate (4 - s.length) '0' ++ s

/-- "Mon, 02 Jan 2006 15:04:05 GMT" for `unixSec` (years 0000–9999) -/
def httpDate (unixSec : Int) : Str :=
  let days := unixSec / 86400
  let rem := unixSec % 86400
  let (y, m, d) := civilFromDays days
  let wd := (dayNames.getD (days % 7).toNat [])
  let mn := (monthNames.getD (m - 1).toNat [])
  wd ++ (str% ", ") ++ pad2 d ++ [' '] ++ mn ++ [' '] ++ pad4 y ++ [' '] ++
    pad2 (rem / 3600) ++ [':'] ++ pad2 (rem % 3600 / 60) ++ [':'] ++ pad2 (rem % 60) ++ (str% " GMT")

/-- FixDateHeader -/
def fixDateHeader (g : Glue) (h : Header) (receivedAt : Int) : Header :=
  match timeOf g (Header.get h sDate) with
  | some _ => h   -- also a Date that parses to Go's zero time: a valid date of a very old response
  | none => Header.set h sDate (httpDate (receivedAt / nsPerSec))

/-! ### hop-by-hop -/

def hopByHopBase : List Str := Generated.hopByHop.map String.toList

/-- hopByHopHeaders: the fixed set plus the fields named by every Connection field line -/
def hopByHopHeaders (h : Header) : List Str :=
  -- (fieldNameSeq: connection options are tokens, the list is split at every comma)
  hopByHopBase ++ (Header.values h sConnection).flatMap fun line => (fieldNames line).map canonicalHeaderKey

/-- removeHopByHopHeaders (`delete(resp.Header, hdr)`: exact key, no canonicalisation) -/
def removeHopByHop (h : Header) : Header :=
  let hs := hopByHopHeaders h
  h.filter (fun p => !hs.contains p.1)

/-- updateStoredHeaders: every field of the 304 except hop-by-hop and Content-Length replaces
    the stored field of that name -/
def updateStoredHeaders (stored new : Header) : Header :=
  let omitted := sContentLength :: hopByHopHeaders new
  (Header.names new).foldl (fun acc n =>
    if omitted.contains n then acc else Header.setValues acc n (Header.values new n)) stored

/-! ### cache status -/

def CacheStatus.value : CacheStatus → Str
  | .hit => str% "HIT" | .miss => str% "MISS" | .stale => str% "STALE"
  | .revalidated => str% "REVALIDATED" | .bypass => str% "BYPASS"

def CacheStatus.fromCache : CacheStatus → Bool
  | .hit | .stale | .revalidated => true
  | _ => false

/-- CacheStatus.ApplyTo -/
def applyStatus (s : CacheStatus) (h : Header) : Header :=
  let h := Header.set h sStatusHeader s.value
  if s.fromCache then Header.set h sFromCache ['1'] else Header.del h sFromCache

/-- withConditionalHeaders: the header list of the (cloned) validation request -/
def withConditional (reqH storedH : Header) : Header :=
  let etag := Header.get storedH sETag
  let h1 := if etag.isEmpty then reqH else Header.set reqH sIfNoneMatch etag
  let lm := Header.get storedH sLastModified
  if lm.isEmpty then h1 else Header.set h1 sIfModifiedSince lm

/-- make504Response after http.ReadResponse (Connection: close is consumed into resp.Close
    for HTTP/1.1) -/
def make504 : Resp :=
  { status := 504,
    header := [(sCacheControl, str% "no-cache"), (sContentLength, ['0']),
               (sStatusHeader, CacheStatus.bypass.value)],
    body := [] }

end Httpcache
