import Httpcache.Model.Directives
import Httpcache.Generated.Tables
/-
internal/freshness.go, internal/clock.go (FixDateHeader), internal/helpers.go (SetAgeHeader),
internal/cacheabilityevaluator.go (staleIfErrorPolicy), roundtripper.go (calculateFreshness).
Times are Int nanoseconds since the Unix epoch; durations Int nanoseconds with the
int64 saturation of the Go code made explicit (`sat`).
-/
namespace Httpcache

structure Freshness where
  isStale : Bool
  ageValue : Int
  ageTimestamp : Int
  usefulLife : Int
  deriving DecidableEq, Repr, Inhabited

/-- time.Time{} as ns since the Unix epoch -/
def zeroTimeNs : Int := -62135596800 * nsPerSec

/-- RawTime.Value -/
def timeOf (g : Glue) (s : Str) : Option Int :=
  if s.isEmpty then none else (g.parseTime s).map (· * nsPerSec)

/-- Response.DateHeader -/
def dateHeader (g : Glue) (h : Header) : Int := (timeOf g (Header.get h sDate)).getD zeroTimeNs

def isHeuristicStatus (code : Nat) : Bool := Generated.heuristicStatus.contains code
def isStatusUnderstood (code : Nat) : Bool := Generated.statusUnderstood.contains code
def isStaleErrorAllowed (code : Nat) : Bool := Generated.staleErrorStatus.contains code

/-- heuristicFreshness -/
def heuristicFreshness (g : Glue) (h : Header) (date : Int) : Int :=
  match timeOf g (Header.get h sLastModified) with
  | none => 0
  | some lm => if lm < date then satSub date lm / 10 else 0

/-- calculateCurrentAge (value only; the timestamp is `now`) -/
def currentAge (g : Glue) (now : Int) (e : Entry) : Int :=
  let h := e.resp.header
  let date := dateHeader g h
  let ageVal := (parseDeltaSeconds (firstListMember (Header.values h sAge))).getD 0
  let apparent := max (satSub e.receivedAt date) 0
  let delay := max (satSub e.receivedAt e.requestedAt) 0
  let corrected := satAdd ageVal delay
  let initial := max apparent corrected
  let resident := max (satSub now e.receivedAt) 0
  satAdd initial resident

/-- freshness lifetime of the stored response by its own fields (before request adjustments) -/
def responseLifetime (g : Glue) (e : Entry) (resCC : Directives) : Int :=
  let h := e.resp.header
  let date := dateHeader g h
  if resCC.maxAgePresent then (resCC.maxAge).getD 0
  else
    if !Header.has h sExpires then
      (if isHeuristicStatus e.resp.status || resCC.isPublic then heuristicFreshness g h date else 0)
    else match timeOf g (Header.get h sExpires) with
      | some t => if t > date then satSub t date else 0
      | none => 0

def maxStaleOf (reqCC : Directives) : Int :=
  match reqCC.maxStaleRaw with
  | none => 0
  | some [] => maxI64
  | some v => match deltaSeconds v with
    | some d => if d ≥ 0 then d else 0
    | none => 0

/-- `usefulLife = min(usefulLife, reqMaxAge)` for a positive request max-age -/
def requestLifetime (life0 : Int) (reqCC : Directives) : Int :=
  match reqCC.maxAge with
  | some m => if m > 0 then min life0 m else life0
  | none => life0

/-- the min-fresh test -/
def minFreshStale (reqCC : Directives) (life age : Int) : Bool :=
  match reqCC.minFresh with
  | some f => decide (f > 0) && decide (life - age < f)
  | none => false

/-- `isStale` after the max-stale allowance -/
def staleAfterMaxStale (resCC : Directives) (age life maxStale : Int) : Bool :=
  if decide (age ≥ life) && decide (maxStale > 0) && !resCC.mustRevalidate && decide (age < satAdd life maxStale)
  then false else decide (age ≥ life)

/-- freshnessCalculator.CalculateFreshness -/
def calculateFreshness (g : Glue) (now : Int) (e : Entry) (reqCC resCC : Directives) : Freshness :=
  if reqCC.maxAge = some 0 then { isStale := true, ageValue := 0, ageTimestamp := now, usefulLife := 0 }
  else if minFreshStale reqCC (requestLifetime (responseLifetime g e resCC) reqCC) (currentAge g now e) then
    { isStale := true, ageValue := currentAge g now e, ageTimestamp := now,
      usefulLife := requestLifetime (responseLifetime g e resCC) reqCC }
  else
    { isStale := staleAfterMaxStale resCC (currentAge g now e)
        (requestLifetime (responseLifetime g e resCC) reqCC) (maxStaleOf reqCC),
      ageValue := currentAge g now e, ageTimestamp := now,
      usefulLife := requestLifetime (responseLifetime g e resCC) reqCC }

/-- roundtripper.go calculateFreshness: (freshness, request max-age exceeded) -/
def transportFreshness (g : Glue) (now : Int) (e : Entry) (reqCC resCC : Directives) : Freshness × Bool :=
  let f := calculateFreshness g now e reqCC resCC
  match reqCC.maxAge with
  | none => (f, false)
  | some m =>
    if m ≠ 0 && !(f.isStale && f.ageValue ≥ m) then (f, false)
    else (calculateFreshness g now e (reqCC.filter (fun p => p.1 ≠ (str% "max-age"))) resCC, true)

/-- SetAgeHeader: the Age value in seconds -/
def ageSeconds (f : Freshness) (now : Int) : Int :=
  max (satAdd f.ageValue (satSub now f.ageTimestamp)) 0 / nsPerSec

def setAgeHeader (h : Header) (f : Freshness) (now : Int) : Header :=
  Header.set h sAge (intToStr (ageSeconds f now))

/-- the response is stale at `now` by the freshness the hit path computed (the age it had then plus the time
    that has passed since) -/
def staleAt (f : Freshness) (now : Int) : Bool :=
  satAdd f.ageValue (satSub now f.ageTimestamp) ≥ f.usefulLife

/-- staleIfErrorPolicy.CanStaleOnError over the given directive sources, in order -/
def canStaleOnError (f : Freshness) (now : Int) (sources : List Directives) : Bool :=
  sources.any fun d => match d.staleIfError with
    | none => false
    | some dur => satAdd f.ageValue (satSub now f.ageTimestamp) < satAdd f.usefulLife dur

end Httpcache
