import Httpcache.Model.Vary
/- internal/cacheabilityevaluator.go canStoreResponse -/
namespace Httpcache

def canStoreResponse (resp : Resp) (reqCC resCC : Directives) : Bool :=
  if resp.status < 200 || resp.status = 102 || resp.status ≥ 600 then false
  else if (resp.status = 206 || resp.status = 304 || resCC.mustUnderstand) && !isStatusUnderstood resp.status then false
  else if resCC.noStore || reqCC.noStore then false
  else resCC.isPublic || !(Header.get resp.header sExpires).isEmpty || resCC.maxAgePresent ||
       isHeuristicStatus resp.status

end Httpcache
