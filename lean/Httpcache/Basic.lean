def hello := "world"
