import Httpcache.Core.Basic
/-
C17 — Encryption at rest hides stored contents and rejects tampering.

  "With encryption enabled (by option, DSN parameter or environment key) no file written by the
   backend contains a plaintext fragment of the stored values, two writes of the same value produce
   different ciphertexts, and a file whose bytes were altered, truncated or extended is rejected on
   read …. A wrong key never yields data, and enabling encryption without a usable key fails at open
   rather than silently storing plaintext."

PARTIAL: AES-GCM and crypto/rand are not modelled; the cipher is an abstract AEAD with the ideal
properties written in `AEAD` (correctness, authenticity, key binding, binding to the additional data, which
is the entry's key), and freshness of nonces is
a hypothesis. What IS repository logic — the wiring of option / DSN / environment and the
nonce ‖ ciphertext pipeline of store/fscache/encrypt.go — is modelled and proved; the harness scans
the real files for plaintext, compares repeated writes and tampers with every byte.
-/
namespace Httpcache.C17
open Httpcache

/-! ### wiring: fscache.fromURL / WithEncryption / newAESGCMEncryptor -/

inductive OpenResult where
  | fails                       -- Open returns an error
  | plaintext                   -- backend without encryptor
  | encrypted (key : Str)       -- backend with an encryptor for this key
  deriving DecidableEq, Repr

/-- `usable` = the key is valid base64url of a 16/24/32-byte AES key (stdlib checks) -/
def withEncryption (usable : Str → Bool) (key : Str) : OpenResult :=
  if key.isEmpty then .fails else if usable key then .encrypted key else .fails

/-- fromURL: the query must parse (url.ParseQuery: a pair with ";" or a bad escape is an error, not a pair to skip);
    `encrypt` ∈ {on, aesgcm} switches encryption on; the key is `encrypt_key`, else the FSCACHE_ENCRYPT_KEY
    environment variable (cmp.Or); an ABSENT parameter or "off" asks for none; any other spelling — the empty value of
    `encrypt=` or of a bare `encrypt` included — fails at open (repair b55c81c and the sixth hunt's: the pinned tree
    stored plaintext for "ON", "true", for `encrypt=on;encrypt_key=…` and for `encrypt&encrypt_key=…`).
    `encryptParam = none`: no such parameter. -/
def fromURL (usable : Str → Bool) (queryOK : Bool) (encryptParam : Option Str) (dsnKey envKey : Str) : OpenResult :=
  if !queryOK then .fails else
  match encryptParam with
  | none => .plaintext
  | some p =>
    if p = (str% "on") || p = (str% "aesgcm") then
      withEncryption usable (if dsnKey.isEmpty then envKey else dsnKey)
    else if p = (str% "off") then .plaintext
    else .fails

/-- the executable form the correspondence check runs (`S CFGM` lines): keys are classes, "good" is usable;
    kind "dsn" = well-formed query, "dsnbad" = a query url.ParseQuery rejects; "-" = parameter absent, "(empty)" = present
    without a value -/
def fromURLClass (kind encryptParam dsnKey envKey : String) : String :=
  let p : Option Str := if encryptParam == "-" then none else if encryptParam == "(empty)" then some [] else some encryptParam.toList
  match fromURL (fun k => k = (str% "good")) (kind != "dsnbad") p dsnKey.toList envKey.toList with
  | .fails => "fail" | .plaintext => "plain" | .encrypted _ => "enc"
def withEncryptionClass (key : String) : String :=
  match withEncryption (fun k => k = (str% "good")) key.toList with
  | .fails => "fail" | .plaintext => "plain" | .encrypted _ => "enc"

theorem withEncryption_cases (usable : Str → Bool) (key : Str) :
    withEncryption usable key = .fails ∨ (withEncryption usable key = .encrypted key ∧ usable key = true ∧ key ≠ []) := by
  unfold withEncryption
  by_cases h1 : key.isEmpty = true
  · left; simp [h1]
  · by_cases h2 : usable key = true
    · right
      refine ⟨by simp [h1, h2], h2, ?_⟩
      intro h'; apply h1; simp [h']
    · left; simp [h1, h2]

theorem withEncryption_ne_plain (usable : Str → Bool) (key : Str) : withEncryption usable key ≠ .plaintext := by
  unfold withEncryption; split
  · simp
  · split <;> simp

/-- a DSN opens a plaintext store only when its query is well-formed and its `encrypt` parameter is absent or "off":
    everything else encrypts with a usable key or fails at open -/
theorem plaintext_only_when_not_asked (usable : Str → Bool) (qok : Bool) (p : Option Str) (dsnKey envKey : Str)
    (h : fromURL usable qok p dsnKey envKey = .plaintext) : qok = true ∧ (p = none ∨ p = some (str% "off")) := by
  unfold fromURL at h
  cases qok with
  | false => simp at h
  | true =>
    refine ⟨rfl, ?_⟩
    simp only [Bool.not_true, Bool.false_eq_true, ↓reduceIte] at h
    cases p with
    | none => exact Or.inl rfl
    | some v =>
      right
      simp only at h
      split at h
      · exact absurd h (withEncryption_ne_plain _ _)
      · split at h
        · rename_i h2; rw [h2]
        · cases h

example : fromURL (fun _ => true) true (some (str% "ON")) (str% "k") [] = .fails ∧ fromURL (fun _ => true) true (some (str% "off")) (str% "k") [] = .plaintext ∧
    fromURL (fun _ => true) true (some (str% "on")) [] (str% "e") = .encrypted (str% "e") ∧ fromURL (fun _ => true) true (some []) (str% "k") [] = .fails ∧
    fromURL (fun _ => true) false (some (str% "on")) (str% "k") [] = .fails ∧ fromURL (fun _ => true) true none (str% "k") [] = .plaintext := by decide

/-- requesting encryption never yields a plaintext store: it encrypts with a usable key or fails -/
theorem encryption_requested_never_plaintext (usable : Str → Bool) (qok : Bool) (p dsnKey envKey : Str)
    (h : p = (str% "on") ∨ p = (str% "aesgcm")) :
    fromURL usable qok (some p) dsnKey envKey ≠ .plaintext ∧
    (∀ k, fromURL usable qok (some p) dsnKey envKey = .encrypted k → usable k = true ∧ k ≠ []) := by
  have hp : (decide (p = (str% "on")) || decide (p = (str% "aesgcm"))) = true := by
    rcases h with h | h <;> simp [h]
  unfold fromURL
  cases qok with
  | false => simp
  | true =>
    simp only [Bool.not_true, Bool.false_eq_true, ↓reduceIte, hp]
    rcases withEncryption_cases usable (if dsnKey.isEmpty then envKey else dsnKey) with hc | ⟨hc, hu, hne⟩
    · rw [hc]; exact ⟨by simp, by intro k hk; cases hk⟩
    · rw [hc]
      refine ⟨by simp, ?_⟩
      intro k hk
      cases hk
      exact ⟨hu, hne⟩

/-- the option form: an empty or unusable key fails at open -/
theorem option_without_usable_key_fails (usable : Str → Bool) (key : Str) (h : key = [] ∨ usable key = false) :
    withEncryption usable key = .fails := by
  unfold withEncryption
  rcases h with h | h
  · simp [h]
  · split
    · rfl
    · simp [h]

/-! ### pipeline: EncryptFor = nonce ‖ Seal(nonce, value, ad = entry key); DecryptFor splits and Opens -/

structure AEAD where
  nonceSize : Nat
  encryptFn : Str → Str → Str → Str → Str          -- key, nonce, additional data, plaintext
  decryptFn : Str → Str → Str → Str → Option Str  -- key, nonce, additional data, ciphertext
  correct : ∀ k n ad p, decryptFn k n ad (encryptFn k n ad p) = some p
  /-- authenticity (ideal): only what Seal produced under this key, nonce and additional data opens -/
  authentic : ∀ k n ad c p, decryptFn k n ad c = some p → c = encryptFn k n ad p
  /-- a different key opens nothing that was sealed -/
  keyBinding : ∀ k k' n ad p, k ≠ k' → decryptFn k' n ad (encryptFn k n ad p) = none
  /-- nor do different additional data -/
  adBinding : ∀ k n ad ad' p, ad ≠ ad' → decryptFn k n ad' (encryptFn k n ad p) = none

/-- fscache.set: the file of entry `ekey` -/
def encrypt (A : AEAD) (key nonce ekey value : Str) : Str := nonce ++ A.encryptFn key nonce ekey value

/-- fscache.get of entry `ekey` -/
def decrypt (A : AEAD) (key ekey data : Str) : Option Str :=
  if data.length < A.nonceSize then none else A.decryptFn key (data.take A.nonceSize) ekey (data.drop A.nonceSize)

theorem split_encrypt (A : AEAD) (key nonce ekey value : Str) (hn : nonce.length = A.nonceSize) :
    ¬ (encrypt A key nonce ekey value).length < A.nonceSize ∧
    (encrypt A key nonce ekey value).take A.nonceSize = nonce ∧
    (encrypt A key nonce ekey value).drop A.nonceSize = A.encryptFn key nonce ekey value := by
  unfold encrypt
  refine ⟨by simp [List.length_append]; omega, by rw [← hn]; simp, by rw [← hn]; simp⟩

theorem decrypt_encrypt (A : AEAD) (key nonce ekey value : Str) (hn : nonce.length = A.nonceSize) :
    decrypt A key ekey (encrypt A key nonce ekey value) = some value := by
  obtain ⟨h1, h2, h3⟩ := split_encrypt A key nonce ekey value hn
  unfold decrypt
  simp only [h1, ↓reduceIte]
  rw [h2, h3, A.correct]

/-- Tamper rejection: whatever bytes are in the file of entry `ekey`, if Get accepts them and returns p,
    then the file is exactly a genuine encryption of p under this key FOR THIS ENTRY (with the nonce it
    starts with). Hence any altered, truncated or extended file is rejected — and so are the authentic
    bytes of another entry's file (`other_entrys_file_is_rejected`). -/
theorem accepted_files_are_genuine (A : AEAD) (key ekey data p : Str) (h : decrypt A key ekey data = some p) :
    data = encrypt A key (data.take A.nonceSize) ekey p := by
  unfold decrypt at h
  split at h
  · cases h
  · unfold encrypt
    rw [← A.authentic _ _ _ _ _ h, List.take_append_drop]

/-- substitution: the file written for one entry is rejected when it is read as another entry (the pinned
    tree sealed without additional data and served it; see known_findings.json) -/
theorem other_entrys_file_is_rejected (A : AEAD) (key nonce ekey ekey' value : Str) (hn : nonce.length = A.nonceSize)
    (hk : ekey ≠ ekey') : decrypt A key ekey' (encrypt A key nonce ekey value) = none := by
  obtain ⟨h1, h2, h3⟩ := split_encrypt A key nonce ekey value hn
  unfold decrypt
  simp only [h1, ↓reduceIte]
  rw [h2, h3, A.adBinding _ _ _ _ _ hk]

/-- a wrong key never yields data -/
theorem wrong_key_yields_nothing (A : AEAD) (key key' nonce ekey value : Str) (hn : nonce.length = A.nonceSize) (hk : key ≠ key') :
    decrypt A key' ekey (encrypt A key nonce ekey value) = none := by
  obtain ⟨h1, h2, h3⟩ := split_encrypt A key nonce ekey value hn
  unfold decrypt
  simp only [h1, ↓reduceIte]
  rw [h2, h3, A.keyBinding _ _ _ _ _ hk]

/-- two writes of the same value with different nonces produce different files -/
theorem same_value_different_files (A : AEAD) (key n1 n2 ekey value : Str) (h1 : n1.length = A.nonceSize) (h2 : n2.length = A.nonceSize)
    (hne : n1 ≠ n2) : encrypt A key n1 ekey value ≠ encrypt A key n2 ekey value := by
  intro h
  unfold encrypt at h
  have := congrArg (List.take A.nonceSize) h
  rw [← h1] at this
  simp only [List.take_left'] at this
  rw [h1, ← h2] at this
  simp only [List.take_left'] at this
  exact hne this

end Httpcache.C17
