import Httpcache.Proofs.Validation
/-
C10 — The transport fails open: no panic, no hang, errors only from the origin.

  "For every request, origin behaviour … and backing-store behaviour (any operation failing, or
   returning truncated, corrupted or arbitrary bytes), a round trip neither panics nor hangs nor
   returns neither a response nor an error, and it returns an error only when the origin call
   itself failed and no stale response may be used. When store operations fail or stored bytes
   cannot be decoded, the request is served by the origin and the client receives its correct
   response …"

In the model a store read that fails, or whose bytes cannot be decoded, is the answer `none`;
any decoded value is possible. Dereferences of values that can be absent are pattern matches, so
"no panic" is carried by the typing of the model (there is no `panic` node to reach) and, for
the implementation, by the correspondence check and the monitor (RES kind panic). What the
theorems add: totality (an execution exists and is finite for EVERY environment), the result is
always a response or an error, errors come only from a failed origin call, and a failed store
read leads to the origin.
-/
namespace Httpcache.C10
open Httpcache

/-- Totality: for every program and every environment (`Env`, `exec`, Proofs/Run.lean) there is a
    finite execution; `exec` is defined by structural recursion on the tree, which is the
    termination argument. -/
theorem terminates (env : Env) (p : Prog) : Run p (exec env p).1 (exec env p).2 := exec_runs env p

theorem round_trip_terminates (env : Env) (cfg : Cfg) (t0 : Int) (req : Req) :
    ∃ tr r, Run (roundTrip cfg t0 req) tr r := ⟨_, _, terminates env _⟩

/-- the last origin answer of a trace -/
def lastOrigin (tr : List Step) : Option OriginAns :=
  tr.foldl (fun acc s => match s with | .origin _ _ _ a => some a | _ => acc) none

def OriginAns.isErr : OriginAns → Bool
  | .err _ => true
  | _ => false

/-- A round trip returns a response or an error, never nothing; and an error only when the
    exchange's (last) origin call itself failed. Holds whatever the store does. -/
theorem error_only_from_origin (cfg : Cfg) (t0 : Int) (req : Req) (tr : List Step) (r : Result)
    (h : Run (roundTrip cfg t0 req) tr r) :
    r ≠ .done ∧ (r = .err → ∃ pre m hd dl t1 post, tr = pre ++ Step.origin m hd dl (.err t1) :: post ∧ contacted post = false) := by
  cases roundTrip_paths cfg t0 req tr r h with
  | bypass hu hrun =>
    unfold handleUnrecognizedMethod at hrun
    split at hrun
    · cases hrun; exact ⟨by simp, by intro h'; cases h'⟩
    · cases hrun with
      | origin a h1 =>
        dsimp only at h1
        split at h1
        · cases h1; exact ⟨by simp, fun _ => ⟨[], _, _, _, _, [], rfl, rfl⟩⟩
        · split at h1
          · cases h1 with
            | getRefs a2 h2 =>
              obtain ⟨t1, t2, ht, hall, hk⟩ := invalidateCache_run _ _ _ _ _ _ _ _ h2
              cases hk; exact ⟨by simp, by intro h'; cases h'⟩
          · cases h1; exact ⟨by simp, by intro h'; cases h'⟩
  | miss pre tr1 refs ri hu hpre heq hrun =>
    unfold handleCacheMiss at hrun
    simp only [] at hrun
    split at hrun
    · cases hrun; exact ⟨by simp, by intro h'; cases h'⟩
    · cases hrun with
      | origin a h1 =>
        dsimp only at h1
        split at h1
        · rename_i t1 heqa
          cases h1
          refine ⟨by simp, fun _ => ?_⟩
          cases a with
          | err t => exact ⟨pre, _, _, _, t, [], by rw [heq], rfl⟩
          | resp r' t b => simp [fixAns] at heqa
        · split at h1
          · obtain ⟨t1', t2', ht, hc, hs, hk⟩ := storeResponse_run _ _ _ _ _ _ _ _ _ _ _ _ h1
            cases hk; exact ⟨by simp, by intro h'; cases h'⟩
          · cases h1; exact ⟨by simp, by intro h'; cases h'⟩
  | hit refs sorted i e0 tr2 hu hvm heq hrun =>
    have hget := understood_is_get req hu
    unfold handleCacheHit at hrun
    simp only [] at hrun
    have reval : ∀ f mv trx, Run (revalidateProg cfg t0 req (parsedEntry e0) (makeURLKey req) sorted i f (parseCC req.header) mv) trx r →
        r ≠ .done ∧ (r = .err → ∃ m hd dl t1 post, trx = Step.origin m hd dl (.err t1) :: post ∧ contacted post = false) := by
      intro f mv trx hx
      unfold revalidateProg at hx
      cases hx with
      | origin ans h1 =>
        rw [hget] at h1
        obtain ⟨ho, hc, _⟩ := handleValidation_outcome _ _ _ _ _ _ _ _ _ _ _ _ _ h1
        generalize hfa : fixAns cfg ans = fa at ho
        cases ho with
        | revalidated => exact ⟨by simp, by intro h'; cases h'⟩
        | staleIfError => exact ⟨by simp, by intro h'; cases h'⟩
        | origin => exact ⟨by simp, by intro h'; cases h'⟩
        | error t1 =>
          refine ⟨by simp, fun _ => ?_⟩
          cases ans with
          | err t => exact ⟨_, _, _, t, _, rfl, hc⟩
          | resp r' t b => simp [fixAns] at hfa
    have lift : ∀ trx, tr2 = trx →
        (r ≠ .done ∧ (r = .err → ∃ m hd dl t1 post, trx = Step.origin m hd dl (.err t1) :: post ∧ contacted post = false)) →
        r ≠ .done ∧ (r = .err → ∃ pre m hd dl t1 post, tr = pre ++ Step.origin m hd dl (.err t1) :: post ∧ contacted post = false) := by
      intro trx htx hx
      refine ⟨hx.1, fun he => ?_⟩
      obtain ⟨m, hd, dl, t1, post, ht, hc⟩ := hx.2 he
      exact ⟨[_, _], m, hd, dl, t1, post, by rw [heq, htx, ht]; rfl, hc⟩
    split at hrun
    · split at hrun
      · cases hrun; exact ⟨by simp, by intro h'; cases h'⟩
      · exact lift _ rfl (reval _ _ _ hrun)
    · split at hrun
      · cases hrun; exact ⟨by simp, by intro h'; cases h'⟩
      · split at hrun
        · cases hrun; exact ⟨by simp, by intro h'; cases h'⟩
        · split at hrun
          · split at hrun
            · cases hrun with
              | spawn h' => cases h'; exact ⟨by simp, by intro h''; cases h''⟩
            · exact lift _ rfl (reval _ _ _ hrun)
          · exact lift _ rfl (reval _ _ _ hrun)

/-- A store read that fails (or returns undecodable bytes) means the origin serves the request:
    the exchange answers 504 (only-if-cached) or calls the origin with the client's own header
    list, and its result is that call's outcome. -/
theorem store_fault_means_origin (cfg : Cfg) (t0 : Int) (req : Req) (tr : List Step) (r : Result)
    (h : Run (roundTrip cfg t0 req) tr r) (hu : isRequestMethodUnderstood req = true)
    (hfault : ∀ id e0, Step.getEntry id (some e0) ∉ tr) :
    r = .resp make504 ∨ ∃ pre ans post, tr = pre ++ Step.origin req.method req.header none ans :: post ∧
      pre.all Step.isRead = true ∧ contacted post = false ∧
      (match fixAns cfg ans with
       | .err _ => r = .err
       | .resp rr _ _ => ∃ x, r = .resp x ∧ x.status = rr.status ∧ x.body = rr.body) := by
  cases roundTrip_paths cfg t0 req tr r h with
  | bypass hu' _ => rw [hu] at hu'; cases hu'
  | hit refs sorted i e0 tr2 _ _ heq _ =>
    exfalso; exact hfault _ e0 (by rw [heq]; exact List.mem_cons_of_mem _ List.mem_cons_self)
  | miss pre tr1 refs ri _ hpre heq hrun =>
    unfold handleCacheMiss at hrun
    simp only [] at hrun
    split at hrun
    · cases hrun; exact Or.inl rfl
    · cases hrun with
      | origin a h1 =>
        right
        refine ⟨pre, a, _, by rw [heq], hpre, ?_⟩
        dsimp only at h1
        split at h1
        · rename_i heqa; cases h1; rw [heqa]; exact ⟨rfl, rfl⟩
        · rename_i rr t1 b heqa
          rw [heqa]
          split at h1
          · obtain ⟨t1', t2', ht, hc, hs, hk⟩ := storeResponse_run _ _ _ _ _ _ _ _ _ _ _ _ h1
            cases hk
            simp only [List.append_nil] at ht; subst ht
            exact ⟨hc, _, rfl, rfl, rfl⟩
          · cases h1; exact ⟨rfl, _, rfl, rfl, rfl⟩

end Httpcache.C10
