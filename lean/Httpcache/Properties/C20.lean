import Httpcache.Proofs.Store
/-
C20 — stale-while-revalidate answers at once and revalidates once, within the timeout.

  "When a stale response is served under stale-while-revalidate the caller gets it without waiting
   for the origin, exactly one revalidation request for it (conditional whenever validators are
   stored) is sent in the background, and that request is cancelled once the configured timeout
   elapses (default 5 s; non-positive settings fall back to the default). No goroutine outlives
   the background request, and a slow, failing or hung origin never delays or fails the
   foreground response."

PARTIAL: the theorems are about the operation structure (what the foreground does before it
returns, what the spawned program does, which deadline it carries). That the Go goroutine really
is detached, is cancelled at the deadline and leaves nothing running is observed by the harness
under testing/synctest (virtual duration of the foreground call, cancellation instant of the
upstream context, bubble quiescence), not proved.
-/
namespace Httpcache.C20
open Httpcache

/-- option defaulting: the timeout in force is the configured one when positive, else the default
    (regenerated from the source: 5 s); it is always positive -/
theorem timeout_defaulting (configured : Int) :
    (configured > 0 → swrTimeoutOf configured = configured) ∧
    (configured ≤ 0 → swrTimeoutOf configured = 5000000000) ∧ swrTimeoutOf configured > 0 := by
  have hd : Generated.defaultSWRTimeoutNs = 5000000000 := by decide
  unfold swrTimeoutOf
  rw [hd]
  refine ⟨fun h => ?_, fun h => ?_, ?_⟩
  · have : max configured 0 = configured := by omega
    simp [this]; omega
  · have : max configured 0 = 0 := by omega
    simp [this]
  · split <;> omega

/-- The hit path spawns at most one background program, does so only on its stale-while-revalidate
    branch, performs NO origin call itself before returning (so the origin's latency cannot delay or
    fail the foreground response: the spawned program's answers are not even part of the
    foreground execution), and what it spawns is `backgroundRevalidate` for the client's request
    plus the stored validators. -/
theorem foreground_does_not_wait (cfg : Cfg) (t0 : Int) (req : Req) (e : Entry) (key : Str) (refs : List Ref) (i : Nat)
    (tr : List Step) (r : Result) (h : Run (handleCacheHit cfg t0 req e key refs i) tr r) (hs : spawned tr = true) :
    ∃ f ccReq, tr = [Step.spawn (backgroundRevalidate cfg req.method (withConditional req.header e.resp.header) req.header key e f ccReq t0)] ∧
      contacted tr = false ∧ ∃ x, r = .resp x ∧ Header.values x.header sStatusHeader = [CacheStatus.stale.value] := by
  unfold handleCacheHit at h
  simp only [] at h
  have noSpawn : ∀ f mv trx, Run (revalidateProg cfg t0 req e key refs i f (parseCC req.header) mv) trx r → spawned trx = false := by
    intro f mv trx hx
    unfold revalidateProg at hx
    cases hx with
    | origin ans h1 =>
      by_cases hget : req.method = sGET
      · rw [hget] at h1
        obtain ⟨_, _, hsp⟩ := handleValidation_outcome _ _ _ _ _ _ _ _ _ _ _ _ _ h1
        simpa [spawned, Step.isSpawn] using hsp
      · -- not reachable from RoundTrip (the hit path is only entered for GET); handled for completeness
        unfold handleValidation at h1
        simp only [hget, decide_false, Bool.false_and, Bool.and_false, Bool.false_eq_true, ↓reduceIte] at h1
        split at h1
        · cases h1; rfl
        · split at h1
          · obtain ⟨t1, t2, ht, _, hs1, hk⟩ := storeResponse_run _ _ _ _ _ _ _ _ _ _ _ _ h1
            cases hk; subst ht
            simpa [spawned, Step.isSpawn, List.any_append] using hs1
          · cases h1; rfl
  split at h
  · split at h
    · cases h; cases hs
    · rw [noSpawn _ _ _ h] at hs; cases hs
  · split at h
    · cases h; cases hs
    · split at h
      · cases h; cases hs
      · split at h
        · split at h
          · cases h with
            | spawn h' =>
              cases h'
              refine ⟨_, _, rfl, rfl, _, rfl, ?_⟩
              unfold swrResponse
              simp only [respWith]
              exact (servedHeader_fields .stale rfl _ _ _ _).1
          · rw [noSpawn _ _ _ h] at hs; cases hs
        · rw [noSpawn _ _ _ h] at hs; cases hs

/-- The background program sends EXACTLY ONE request to the origin — first thing, with the
    conditional header list it was given and the configured deadline — and then only performs
    store operations (re-reading index and entry, writing back); it spawns nothing and always
    ends. -/
theorem one_background_request (cfg : Cfg) (method : Str) (condH clientH : Header) (key : Str) (stored : Entry)
    (f : Freshness) (ccReq : Directives) (start : Int) (tr : List Step) (res : Result)
    (h : Run (backgroundRevalidate cfg method condH clientH key stored f ccReq start) tr res) :
    res = .done ∧ ∃ ans tr', tr = Step.origin method condH (some cfg.swrTimeout) ans :: tr' ∧
      contacted tr' = false ∧ spawned tr' = false := by
  unfold backgroundRevalidate at h
  cases h with
  | origin ans h1 =>
    dsimp only at h1
    have hdone : res = .done := by
      split at h1
      · cases h1; rfl
      · cases h1 with
        | getRefs a h2 =>
          dsimp only at h2
          split at h2
          · cases h2; rfl
          · split at h2
            · cases h2; rfl
            · cases h2 with
              | getEntry a2 h3 =>
                dsimp only at h3
                split at h3
                · cases h3; rfl
                · split at h3
                  · cases h3; rfl
                  · obtain ⟨t1, t2, r', _, _, _, hk⟩ := handleValidation_k _ _ _ _ _ _ _ _ _ _ _ _ _ _ _ h3
                    cases hk; rfl
    refine ⟨hdone, ans, _, rfl, ?_⟩
    split at h1
    · cases h1; exact ⟨rfl, rfl⟩
    · cases h1 with
      | getRefs a h2 =>
        dsimp only at h2
        split at h2
        · cases h2; exact ⟨rfl, rfl⟩
        · split at h2
          · cases h2; exact ⟨rfl, rfl⟩
          · cases h2 with
            | getEntry a2 h3 =>
              dsimp only at h3
              split at h3
              · cases h3; exact ⟨rfl, rfl⟩
              · split at h3
                · cases h3; exact ⟨rfl, rfl⟩
                · obtain ⟨t1, t2, r', ht, hc, hs, hk⟩ := handleValidation_k _ _ _ _ _ _ _ _ _ _ _ _ _ _ _ h3
                  cases hk
                  subst ht
                  simp only [List.append_nil]
                  exact ⟨by simpa [contacted, Step.isOrigin] using hc, by simpa [spawned, Step.isSpawn] using hs⟩

end Httpcache.C20
