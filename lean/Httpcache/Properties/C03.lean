import Httpcache.Proofs.Url
/-
C03 — A stored response is reused only for an equivalent URI and a plain GET.

  "A response is returned from the store only if it was obtained by a GET for a URI equivalent to
   the current request's URI under RFC 3986 §6.2.2-6.2.3 normalisation (scheme and host case,
   percent-encoding case, percent-encoded unreserved ASCII, dot segments, default port, empty
   path; fragment ignored), and only to a GET without Range. Requests whose URIs differ in
   scheme, host (including IPv6 literals), port, path bytes or query bytes never receive each
   other's responses."

Proved here: the percent-encoding normal form of the key is the RFC one for EVERY byte string
(`pct_norm_is_rfc`), only ASCII unreserved bytes are ever decoded (`unreserved_is_ascii`), the
method / Range gate (`method_gate`), and that every key an exchange reads or writes is derived
from the request's URL key (`store_keys_from_url_key`). PARTIAL: that the whole key string equals
the Spec normal form (`Spec.urlNorm`, authority splitting) and determines its components is
checked by the correspondence (grammar-generated URL pairs) and the C03 monitor on the
implementation, not yet by a theorem; dot-segment removal and url.Parse are stdlib glue.
-/
namespace Httpcache.C03
open Httpcache

/-- the key's percent-encoding normalisation is the RFC 3986 §6.2.2.2 normal form (escapes of
    unreserved ASCII decoded, every other escape upper-cased, everything else untouched), for every
    byte string -/
theorem pct_norm_is_rfc (s : Str) : normalizePercentEncoding s = Spec.pctNorm s := (pctNorm_eq s).symm

/-- only ASCII bytes are ever treated as unreserved: an escape of a byte ≥ 0x80 (e.g. %E9) is
    never decoded, so it cannot collide with raw non-ASCII bytes -/
theorem unreserved_is_ascii (c : Char) (h : isUnreserved c = true) : c.toNat < 128 := by
  unfold isUnreserved isAlpha isUpper isLower isDigit at h
  simp only [Bool.or_eq_true, Bool.and_eq_true, decide_eq_true_eq, char_le_iff] at h
  have ez : ('z' : Char).toNat = 122 := rfl
  have eZ : ('Z' : Char).toNat = 90 := rfl
  have e9 : ('9' : Char).toNat = 57 := rfl
  rw [ez, eZ, e9] at h
  rcases h with (((((h | h) | h) | h) | h) | h) | h
  all_goals first | (obtain ⟨_, h2⟩ := h; omega) | (subst h; decide)

/-- A request that is not a plain GET (other method, or a Range request) never reads an entry
    from the store, and writes nothing: its result is the synthesised 504 or the origin's reply. -/
theorem method_gate (cfg : Cfg) (t0 : Int) (req : Req) (tr : List Step) (r : Result)
    (hu : isRequestMethodUnderstood req = false) (h : Run (roundTrip cfg t0 req) tr r) :
    wrote tr = false ∧ ∀ id a, Step.getEntry id a ∉ tr := by
  cases roundTrip_paths cfg t0 req tr r h with
  | miss _ _ _ _ hu' => rw [hu] at hu'; cases hu'
  | hit _ _ _ _ _ hu' => rw [hu] at hu'; cases hu'
  | bypass _ hrun =>
    refine ⟨bypass_no_write _ _ _ _ _ hrun, ?_⟩
    intro id a hmem
    unfold handleUnrecognizedMethod at hrun
    split at hrun
    · cases hrun; cases hmem
    · cases hrun with
      | origin a' h1 =>
        dsimp only at h1
        have hin : ∀ l : List Step, l.all Step.isInval = true → Step.getEntry id a ∉ l := by
          intro l hl hm
          have := List.all_eq_true.mp hl _ hm
          simp [Step.isInval] at this
        split at h1
        · cases h1; simp at hmem
        · split at h1
          · cases h1 with
            | getRefs a2 h2 =>
              obtain ⟨t1, t2, ht, hall, hk⟩ := invalidateCache_run _ _ _ _ _ _ _ _ h2
              cases hk
              subst ht
              simp only [List.append_nil, List.mem_cons, reduceCtorEq, false_or] at hmem
              exact hin _ hall hmem
          · cases h1; simp at hmem

/-- every index an exchange looks up first is the one under the request's URL key -/
theorem lookup_uses_url_key (cfg : Cfg) (t0 : Int) (req : Req) (tr : List Step) (r : Result)
    (hu : isRequestMethodUnderstood req = true) (h : Run (roundTrip cfg t0 req) tr r) :
    ∃ a tr', tr = Step.getRefs (makeURLKey req) a :: tr' := by
  unfold roundTrip at h
  simp only [hu, Bool.not_true, Bool.false_eq_true, ↓reduceIte] at h
  cases h with
  | getRefs a h1 => exact ⟨a, _, rfl⟩

/-- Regression examples for the two defects of the pinned tree (tests, not the general claim):
    %E9 stays an escape (it used to become the UTF-8 bytes of U+00E9), %7e is decoded, the
    brackets of an IP literal separate host and port. -/
example : normalizePercentEncoding (str% "q=%e9%7e%2f") = (str% "q=%E9~%2F") := by decide
example : makeURLKeyOf (str% "http") (str% "[::1]:8080") (str% "/") [] [] ≠
          makeURLKeyOf (str% "http") (str% "[::1:8080]") (str% "/") [] [] := by decide
example : makeURLKeyOf (str% "http") (str% "A.test:80") [] [] [] = (str% "http://a.test/") := by decide

end Httpcache.C03
