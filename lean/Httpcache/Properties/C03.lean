import Httpcache.Proofs.UrlKey
/-
C03 — A stored response is reused only for an equivalent URI and a plain GET.

  "A response is returned from the store only if it was obtained by a GET for a URI equivalent to
   the current request's URI under RFC 3986 §6.2.2-6.2.3 normalisation (scheme and host case,
   percent-encoding case, percent-encoded unreserved ASCII, dot segments, default port, empty
   path; fragment ignored), and only to a GET without Range. Requests whose URIs differ in
   scheme, host (including IPv6 literals), port, path bytes or query bytes never receive each
   other's responses."

Proved here: for ALL pairs of well-formed http(s) URLs the keys are equal exactly when scheme,
case-folded host, effective port, normalised path and normalised query are equal
(`same_key_iff_equivalent`: injectivity and completeness of the key); the key is the RFC 3986 normal
form `Spec.urlNorm` that the C03 monitor evaluates on the implementation (`key_is_rfc_normal_form`);
the percent-encoding normal form is the RFC one for EVERY byte string (`pct_norm_is_rfc`), only
ASCII unreserved bytes are ever decoded (`unreserved_is_ascii`); the method / Range gate
(`method_gate`); every exchange looks up the index under the request's URL key
(`lookup_uses_url_key`). Dot segments are removed by the keyer itself after percent-encoding is
normalised ("%2e" is a dot; internal/urlkeyer.go removeDotSegments, modelled as `removeDotSegments`,
RFC 3986 §5.2.4 — see the repair recorded in known_findings.json), so they are inside the theorems. Not
carried by a theorem: url.Parse and EscapedPath (stdlib; the model receives their results —
correspondence, grammar-generated URL pairs); hosts that
are not RFC 3986 hosts (a reg-name containing ':' such as "a:80:443", which url.Parse accepts) are
excluded by `WFUrl.hostNoPort`: for those "https://a:80:443/" and "https://a:80/" do share a key, in
the code and in `Spec.urlNorm` alike (both read the last ":digits" as the port).
-/
namespace Httpcache.C03
open Httpcache

/-- the key's percent-encoding normalisation is the RFC 3986 §6.2.2.2 normal form (escapes of
    unreserved ASCII decoded, every other escape upper-cased, everything else untouched), for every
    byte string -/
theorem pct_norm_is_rfc (s : Str) : normalizePercentEncoding s = Spec.pctNorm s := (pctNorm_eq s).symm

/-- only ASCII bytes are ever treated as unreserved: an escape of a byte ≥ 0x80 (e.g. %E9) is
    never decoded, so it cannot collide with raw non-ASCII bytes -/
theorem unreserved_is_ascii (c : Char) (h : isUnreserved c = true) : c.toNat < 128 := by
  unfold isUnreserved isAlpha isUpper isLower isDigit at h
  simp only [Bool.or_eq_true, Bool.and_eq_true, decide_eq_true_eq, char_le_iff] at h
  have ez : ('z' : Char).toNat = 122 := rfl
  have eZ : ('Z' : Char).toNat = 90 := rfl
  have e9 : ('9' : Char).toNat = 57 := rfl
  rw [ez, eZ, e9] at h
  rcases h with (((((h | h) | h) | h) | h) | h) | h
  all_goals first | (obtain ⟨_, h2⟩ := h; omega) | (subst h; decide)

/-- A request that is not a plain GET (other method, or a Range request) never reads an entry
    from the store, and writes nothing: its result is the synthesised 504 or the origin's reply. -/
theorem method_gate (cfg : Cfg) (t0 : Int) (req : Req) (tr : List Step) (r : Result)
    (hu : isRequestMethodUnderstood req = false) (h : Run (roundTrip cfg t0 req) tr r) :
    wrote tr = false ∧ ∀ id a, Step.getEntry id a ∉ tr := by
  cases roundTrip_paths cfg t0 req tr r h with
  | miss _ _ _ _ hu' => rw [hu] at hu'; cases hu'
  | hit _ _ _ _ _ hu' => rw [hu] at hu'; cases hu'
  | bypass _ hrun =>
    refine ⟨bypass_no_write _ _ _ _ _ hrun, ?_⟩
    intro id a hmem
    unfold handleUnrecognizedMethod at hrun
    split at hrun
    · cases hrun; cases hmem
    · cases hrun with
      | origin a' h1 =>
        dsimp only at h1
        have hin : ∀ l : List Step, l.all Step.isInval = true → Step.getEntry id a ∉ l := by
          intro l hl hm
          have := List.all_eq_true.mp hl _ hm
          simp [Step.isInval] at this
        split at h1
        · cases h1; simp at hmem
        · split at h1
          · cases h1 with
            | getRefs a2 h2 =>
              obtain ⟨t1, t2, ht, hall, hk⟩ := invalidateCache_run _ _ _ _ _ _ _ _ h2
              cases hk
              subst ht
              simp only [List.append_nil, List.mem_cons, reduceCtorEq, false_or] at hmem
              exact hin _ hall hmem
          · cases h1; simp at hmem

/-- what the gate lets through is a GET that carries no Range field line at all (an empty first line
    does not hide a second one) -/
theorem understood_is_plain_get (req : Req) (hu : isRequestMethodUnderstood req = true) :
    req.method = sGET ∧ Header.has req.header sRange = false := by
  unfold isRequestMethodUnderstood at hu
  simp only [Bool.and_eq_true, decide_eq_true_eq, List.isEmpty_iff] at hu
  refine ⟨hu.1, ?_⟩
  have h2 := hu.2
  unfold Header.values at h2
  unfold Header.has
  simp only [List.map_eq_nil_iff, List.filter_eq_nil_iff] at h2
  cases hh : req.header.any (fun p => decide (p.1 = sRange)) with
  | false => rfl
  | true =>
    obtain ⟨p, hp, hq⟩ := List.any_eq_true.mp hh
    exact absurd hq (h2 p hp)

/-- every index an exchange looks up first is the one under the request's URL key -/
theorem lookup_uses_url_key (cfg : Cfg) (t0 : Int) (req : Req) (tr : List Step) (r : Result)
    (hu : isRequestMethodUnderstood req = true) (h : Run (roundTrip cfg t0 req) tr r) :
    ∃ a tr', tr = Step.getRefs (makeURLKey req) a :: tr' := by
  unfold roundTrip at h
  simp only [hu, Bool.not_true, Bool.false_eq_true, ↓reduceIte] at h
  cases h with
  | getRefs a h1 => exact ⟨a, _, rfl⟩

/-- Injectivity and completeness of the primary cache key, for all pairs of well-formed http(s) URLs:
    the keys coincide exactly when the URLs are equivalent under RFC 3986 §6.2.2–6.2.3 (scheme; host up
    to ASCII case; port up to the scheme default; path and query up to percent-encoding case and
    escapes of unreserved ASCII; empty path = "/"; a path lacking its leading slash under a host —
    `url.URL.JoinPath` on a base without a path — taken with the slash `url.URL.String` writes, `rootedPath`:
    `WFUrl.pathAbs` asks for a rooted path OR a host, where it used to ask for a rooted path, a hypothesis the
    pinned keyer needed: it glued host "a" and path "b/" to the key of host "ab"). Hence URLs that differ in scheme, host (IPv6
    literals included), port, path bytes or query bytes never share an index. -/
theorem same_key_iff_equivalent (s1 h1 p1 q1 s2 h2 p2 q2 : Str) (w1 : WFUrl s1 h1 p1 q1) (w2 : WFUrl s2 h2 p2 q2) :
    makeURLKeyOf s1 h1 p1 q1 [] = makeURLKeyOf s2 h2 p2 q2 [] ↔
    (s1 = s2 ∧ keyHost h1 = keyHost h2 ∧ effPort s1 h1 = effPort s2 h2 ∧
     keyPath s1 (rootedPath h1 p1) = keyPath s2 (rootedPath h2 p2) ∧
     normalizePercentEncoding q1 = normalizePercentEncoding q2) := by
  constructor
  · exact key_injective _ _ _ _ _ _ _ _ w1 w2
  · rintro ⟨hs, eh, ep, epath, eq⟩
    subst hs
    exact key_complete _ _ _ _ _ _ _ eh ep epath eq

/-- the key is the normal form of Spec/Defs.lean, which is what the monitor compares on the trace -/
theorem key_is_rfc_normal_form (s h p q : Str) (hs : s = (str% "http") ∨ s = (str% "https")) :
    makeURLKeyOf s h p q [] = Spec.urlNorm s h p q := key_eq_spec s h p q hs

/-- a query that is present and empty ("/p?", url.URL.ForceQuery) is part of the key: the key is the
    normal form `Spec.urlNormQ`, and "/p?" never shares a key with "/p" (RFC 3986 §6.2.3: they cannot be
    assumed equivalent; the pinned keyer dropped the "?") -/
theorem key_with_forced_query_is_rfc_normal_form (s h p q : Str) (fq : Bool) (hs : s = (str% "http") ∨ s = (str% "https")) :
    makeURLKeyQ s h p q [] fq = Spec.urlNormQ s h p q fq := keyQ_eq_spec s h p q fq hs

theorem empty_query_is_not_no_query (s h p : Str) :
    makeURLKeyQ s h p [] [] true ≠ makeURLKeyQ s h p [] [] false := forced_query_distinct s h p

/-- the hypotheses are satisfiable by hosts of both RFC 3986 shapes (non-vacuity), and the two
    defects of the pinned tree are excluded by the theorem, not only by examples -/
example : WFUrl (str% "https") (str% "[::1]:8443") (str% "/a%2fb/") (str% "x=%e9") where
  scheme := Or.inr rfl
  hostNoSlash := by decide
  pathAbs := Or.inr (Or.inr ⟨_, rfl⟩)
  pathNoQ := by decide
  hostNoPort := noPortSuffix_of_bracket _ (by decide)
example : WFUrl (str% "http") (str% "A.test:80") [] (str% "q=1") where
  scheme := Or.inl rfl
  hostNoSlash := by decide
  pathAbs := Or.inr (Or.inl rfl)
  pathNoQ := by decide
  hostNoPort := noPortSuffix_of_no_colon _ (by decide)
/-- a path without its leading slash under a host is well-formed too -/
example : WFUrl (str% "http") (str% "a") (str% "b.test/x") [] where
  scheme := Or.inl rfl
  hostNoSlash := by decide
  pathAbs := Or.inl (by decide)
  pathNoQ := by decide
  hostNoPort := noPortSuffix_of_no_colon _ (by decide)
/-- … and host and path do not run together: host "a" with path "b.test/x" is "http://a/b.test/x", not the
    key of host "ab.test" (on the pinned tree the two were one key) -/
example : makeURLKeyOf (str% "http") (str% "a") (str% "b.test/x") [] [] = (str% "http://a/b.test/x") ∧
          makeURLKeyOf (str% "http") (str% "a") (str% "b.test/x") [] [] ≠ makeURLKeyOf (str% "http") (str% "ab.test") (str% "/x") [] [] := by decide

/-- Regression examples for the two defects of the pinned tree (tests, not the general claim):
    %E9 stays an escape (it used to become the UTF-8 bytes of U+00E9), %7e is decoded, the
    brackets of an IP literal separate host and port. -/
example : normalizePercentEncoding (str% "q=%e9%7e%2f") = (str% "q=%E9~%2F") := by decide
example : makeURLKeyOf (str% "http") (str% "[::1]:8080") (str% "/") [] [] ≠
          makeURLKeyOf (str% "http") (str% "[::1:8080]") (str% "/") [] [] := by decide
example : makeURLKeyOf (str% "http") (str% "A.test:80") [] [] [] = (str% "http://a.test/") := by decide

/-- dot segments: an encoded dot is a dot (RFC 3986 §6.2.2.2 before §6.2.2.3), ".." above the root is
    dropped without swallowing the empty segment that follows it — the defects of the pinned keyer
    (which ran url.ResolveReference before decoding "%2e", and let it read "/..//a" as "/a") -/
example : makeURLKeyOf (str% "https") (str% "a.test") (str% "/a/%2e%2E/b") [] [] =
    makeURLKeyOf (str% "https") (str% "a.test") (str% "/b") [] [] := by decide
example : makeURLKeyOf (str% "https") (str% "a.test") (str% "/a/%2e/b/.") [] [] =
    makeURLKeyOf (str% "https") (str% "a.test") (str% "/a/b/") [] [] := by decide
example : makeURLKeyOf (str% "https") (str% "a.test") (str% "/..//a") [] [] ≠
    makeURLKeyOf (str% "https") (str% "a.test") (str% "/a") [] [] := by decide

end Httpcache.C03
