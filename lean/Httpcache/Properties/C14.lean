import Httpcache.Proofs.Backend
/-
C14 — Each backend behaves as an exact, byte-preserving map.

  "For any sequence of Set, Get, Delete and key-listing calls with arbitrary keys (any bytes and
   length, including keys that are prefixes of other keys) and arbitrary values, each built-in
   backend … answers exactly as a map would … Stored values are isolated from the caller's buffers,
   and the maintenance HTTP API addresses the same keys and bytes."

The reference behaviour is the association-list map `KV` (laws below). The memory backend is that
map behind a lock (copy-in / copy-out are value semantics in the model). For the file-system
backend the non-trivial part is the mapping key → path, proved here for EVERY injective encoding
whose output contains no '+' (base64url is one; the executable `b64url` of Model/Backend.lean is
what the correspondence compares with the files actually found on disk): distinct keys get
distinct paths, and no key's file is ever a directory another key needs — so operations on
different keys act on disjoint files and the backend refines the map. PARTIAL: os.Root, the file
system itself and encoding/base64 are trusted; the expapi handlers are exercised through an
httptest mux by the harness only.
-/
namespace Httpcache.C14
open Httpcache

/-- the map laws every backend is compared against, operation by operation -/
theorem map_laws (m : KV) (k k' v : Str) (h : k ≠ k') :
    kvGet (kvSet m k v) k = some v ∧ kvGet (kvSet m k v) k' = kvGet m k' ∧
    kvGet (kvDel m k) k = none ∧ kvGet (kvDel m k) k' = kvGet m k' :=
  ⟨kv_get_set_same m k v, kv_get_set_other m k k' v h, kv_get_del_same m k, kv_get_del_other m k k' h⟩

/-- distinct keys never share a file (any bytes, any length — including keys that are prefixes of
    one another, keys around the 255-character and fragment boundaries, and the empty key) -/
theorem file_names_injective (enc : Str → Str) (hinj : ∀ a b, enc a = enc b → a = b) (hplus : ∀ k, '+' ∉ enc k)
    (k1 k2 : Str) (h : fileNameWith enc k1 = fileNameWith enc k2) : k1 = k2 :=
  fileName_injective enc hinj hplus (fun n s => chunks_flatten n s.length s (Nat.le_refl _)) chunks_ne_nil k1 k2 h

/-- no key's file sits where another key needs a directory: a path is never a proper prefix of
    another key's path (the defect of the pinned tree: a 36-byte key vs. a longer key with that prefix) -/
theorem file_names_prefix_free (enc : Str → Str) (hplus : ∀ k, '+' ∉ enc k) (k1 k2 : Str) (rest : List Str) (hrest : rest ≠ []) :
    fileNameWith enc k2 ≠ fileNameWith enc k1 ++ rest :=
  fileName_prefix_free enc hplus (fun n s => chunks_flatten n s.length s (Nat.le_refl _)) chunks_ne_nil
    (fun n s => chunks_init_length n s.length s (Nat.le_refl _)) k1 k2 rest hrest

/-- every path component is a legal file name: at most 255 characters when the key fits in one
    file, and at most fragmentSize (48, regenerated) when the key is fragmented -/
theorem dir_components_fit (enc : Str → Str) (key : Str) :
    ∀ x ∈ (fileNameWith enc key).dropLast, x.length = 48 := by
  intro x hx
  obtain ⟨c, hc, hl⟩ := dirs_have_marker enc key (fun n s => chunks_init_length n s.length s (Nat.le_refl _)) chunks_ne_nil x hx
  rw [hc]; simp [hl]

/-- the temporary files of a write (C15) and the directory marker are outside the base64url
    alphabet, so they can never be mistaken for a key's file -/
theorem reserved_names_outside_alphabet :
    ('+' ∉ b64Alphabet) ∧ ('.' ∉ b64Alphabet) ∧ Generated.tempFilePrefix = ".tmp-" ∧ Generated.dirMarker = "+" := by decide

/-- Regression examples (tests): the executable encoding on the pinned tree's failing pair. -/
example : fileName (str% "") = [str% "+"] := by decide
example : fileName (str% "foo") = [str% "Zm9v"] := by decide

end Httpcache.C14
