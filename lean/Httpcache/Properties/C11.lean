import Httpcache.Proofs.Validation
/-
C11 — Age and cache-status fields on responses tell the truth.

  "Every response returned from the store without successful validation in that exchange carries
   an Age field equal (within one second) to its current age per RFC 9111 §4.2.3, replacing any
   Age received from the origin. Every response carries exactly one X-Httpcache-Status value that
   matches what happened - HIT: from the store with no origin contact; STALE: from the store
   while stale; REVALIDATED: from the store after a 304 in this exchange; MISS or BYPASS: the
   origin's reply from this exchange (or the synthesised 504) - and X-From-Cache is '1' exactly
   for the first three."
-/
namespace Httpcache.C11
open Httpcache

/-- How the response of an exchange came about — the only five ways, for every request and every
    behaviour of store and origin. -/
inductive Produced (cfg : Cfg) (t0 : Int) (req : Req) (tr : List Step) (x : Resp) : Prop where
  /-- the synthesised 504: nobody was contacted -/
  | gatewayTimeout : x = make504 → contacted tr = false → spawned tr = false → Produced cfg t0 req tr x
  /-- served from the store without contacting the origin: marked HIT -/
  | hit (e0 : Entry) (id : Str) : Step.getEntry id (some e0) ∈ tr → contacted tr = false → spawned tr = false →
      (∃ f cc, x = respWith (parsedEntry e0).resp (servedHeader .hit f t0 (parsedEntry e0).resp.header cc)) →
      Produced cfg t0 req tr x
  /-- served stale while a background revalidation was spawned: marked STALE -/
  | staleWhileRevalidate (e0 : Entry) (id : Str) : Step.getEntry id (some e0) ∈ tr → contacted tr = false → spawned tr = true →
      (∃ f cc, x = respWith (parsedEntry e0).resp (servedHeader .stale f t0 (parsedEntry e0).resp.header cc)) →
      Produced cfg t0 req tr x
  /-- the outcome of the validation of entry e0 against the origin's answer `ans` -/
  | validated (e0 : Entry) (id : Str) (ans : OriginAns) (mv : Bool) : Step.getEntry id (some e0) ∈ tr →
      (∃ m hd, Step.origin m hd none ans ∈ tr) → ValidationOutcome req.header (parsedEntry e0) mv (fixAns cfg ans) (.resp x) →
      Produced cfg t0 req tr x
  /-- the origin's own reply (miss or bypass): status and body are the origin's, marked MISS or BYPASS -/
  | fromOrigin (rr : Resp) (t1 : Int) (b : Bool) : (∃ m hd, Step.origin m hd none (.resp rr t1 b) ∈ tr) →
      x.status = rr.status → x.body = rr.body →
      (Header.values x.header sStatusHeader = [CacheStatus.miss.value] ∨ Header.values x.header sStatusHeader = [CacheStatus.bypass.value]) →
      Header.values x.header sFromCache = [] →
      Produced cfg t0 req tr x

theorem classification (cfg : Cfg) (t0 : Int) (req : Req) (tr : List Step) (x : Resp)
    (h : Run (roundTrip cfg t0 req) tr (.resp x)) : Produced cfg t0 req tr x := by
  cases roundTrip_paths cfg t0 req tr (.resp x) h with
  | bypass hu hrun =>
    unfold handleUnrecognizedMethod at hrun
    split at hrun
    · cases hrun; exact .gatewayTimeout rfl rfl rfl
    · cases hrun with
      | origin a h1 =>
        dsimp only at h1
        split at h1
        · cases h1
        · rename_i rr t1 b
          have hf := originHeader_fields .bypass rfl rr.header
          split at h1
          · cases h1 with
            | getRefs a2 h2 =>
              obtain ⟨t1', t2', ht, hall, hk⟩ := invalidateCache_run _ _ _ _ _ _ _ _ h2
              cases hk
              exact .fromOrigin rr t1 b ⟨_, _, List.mem_cons_self⟩ rfl rfl (Or.inr hf.1) hf.2
          · cases h1
            exact .fromOrigin rr t1 b ⟨_, _, List.mem_cons_self⟩ rfl rfl (Or.inr hf.1) hf.2
  | miss pre tr1 refs ri hu hpre heq hrun =>
    have hpc := contacted_of_reads pre hpre
    unfold handleCacheMiss at hrun
    simp only [] at hrun
    split at hrun
    · cases hrun
      refine .gatewayTimeout rfl (by rw [heq, List.append_nil]; exact hpc) ?_
      rw [heq, List.append_nil]
      clear heq hpc
      induction pre with
      | nil => rfl
      | cons s ss ih =>
        simp only [List.all_cons, Bool.and_eq_true] at hpre
        have := ih hpre.2
        cases s <;> simp_all [spawned, Step.isSpawn, Step.isRead]
    · cases hrun with
      | origin a h1 =>
        dsimp only at h1
        have hmem : ∃ m hd, Step.origin m hd none a ∈ tr := ⟨_, _, by rw [heq]; exact List.mem_append_right _ List.mem_cons_self⟩
        cases a with
        | err t => simp only [fixAns] at h1; cases h1
        | resp rr t1 b =>
          simp only [fixAns] at h1
          split at h1
          · obtain ⟨t1', t2', ht, _, _, hk⟩ := storeResponse_run _ _ _ _ _ _ _ _ _ _ _ _ h1
            cases hk
            have hf := originHeader_fields .miss rfl (removeHopByHop (fixDateHeader cfg.glue rr.header t1))
            exact .fromOrigin rr t1 b hmem rfl rfl (Or.inl hf.1) hf.2
          · cases h1
            have hf := originHeader_fields .miss rfl (fixDateHeader cfg.glue rr.header t1)
            exact .fromOrigin rr t1 b hmem rfl rfl (Or.inl hf.1) hf.2
  | hit refs sorted i e0 tr2 hu hvm heq hrun =>
    have hget := understood_is_get req hu
    have hmem : Step.getEntry (sorted.getD i default).id (some e0) ∈ tr := by
      rw [heq]; exact List.mem_cons_of_mem _ List.mem_cons_self
    unfold handleCacheHit at hrun
    simp only [] at hrun
    have reval : ∀ f mv trx, tr2 = trx → Run (revalidateProg cfg t0 req (parsedEntry e0) (makeURLKey req) sorted i f (parseCC req.header) mv) trx (.resp x) →
        Produced cfg t0 req tr x := by
      intro f mv trx htx hx
      unfold revalidateProg at hx
      cases hx with
      | origin ans h1 =>
        rw [hget] at h1
        obtain ⟨ho, _, _⟩ := handleValidation_outcome _ _ _ _ _ _ _ _ _ _ _ _ _ h1
        exact .validated e0 _ ans mv hmem ⟨_, _, by rw [heq, htx]; exact List.mem_cons_of_mem _ (List.mem_cons_of_mem _ List.mem_cons_self)⟩ ho
    split at hrun
    · split at hrun
      · cases hrun; exact .gatewayTimeout rfl (by rw [heq]; rfl) (by rw [heq]; rfl)
      · exact reval _ _ _ rfl hrun
    · split at hrun
      · cases hrun; exact .hit e0 _ hmem (by rw [heq]; rfl) (by rw [heq]; rfl) ⟨_, _, rfl⟩
      · split at hrun
        · cases hrun; exact .hit e0 _ hmem (by rw [heq]; rfl) (by rw [heq]; rfl) ⟨_, _, rfl⟩
        · split at hrun
          · split at hrun
            · cases hrun with
              | spawn h' => cases h'; exact .staleWhileRevalidate e0 _ hmem (by rw [heq]; rfl) (by rw [heq]; rfl) ⟨_, _, rfl⟩
            · exact reval _ _ _ rfl hrun
          · exact reval _ _ _ rfl hrun

/-- A response served from the store without validation (HIT, stale-while-revalidate,
    stale-if-error) carries exactly one status value, X-From-Cache = 1 and exactly one Age (the
    origin's own Age, X-From-Cache and status fields are replaced). -/
theorem served_fields (s : CacheStatus) (hs : s.fromCache = true) (f : Freshness) (now : Int) (h : Header) (cc : Directives) :
    Header.values (servedHeader s f now h cc) sStatusHeader = [s.value] ∧
    Header.values (servedHeader s f now h cc) sFromCache = [['1']] ∧
    Header.values (servedHeader s f now h cc) sAge = [intToStr (ageSeconds f now)] :=
  servedHeader_fields s hs f now h cc

/-- a MISS / BYPASS response carries exactly one status value and no X-From-Cache, whatever the
    origin sent -/
theorem origin_fields (s : CacheStatus) (hs : s.fromCache = false) (h : Header) :
    Header.values (applyStatus s h) sStatusHeader = [s.value] ∧ Header.values (applyStatus s h) sFromCache = [] :=
  originHeader_fields s hs h

/-- on a HIT the Age value is the RFC 9111 §4.2.3 current age, in whole seconds -/
theorem hit_age (g : Glue) (t0 : Int) (e : Entry) (reqCC : Directives) (hT : TimesOK e) (h0 : reqCC.maxAge ≠ some 0) :
    ageSeconds (calculateFreshness g t0 e reqCC (parseCC e.resp.header)) t0 =
      Spec.currentAge g.parseTime (Spec.storedOfEntry e) t0 / nsPerSec :=
  hit_age_is_rfc_age g t0 e reqCC hT h0

/-- the synthesised 504 is marked BYPASS and does not claim to come from the cache -/
theorem make504_fields : Header.values make504.header sStatusHeader = [CacheStatus.bypass.value] ∧
    Header.values make504.header sFromCache = [] := by decide

/-- The Age field as the cache reads it (regression examples, tests): of a list-based value — two caches' Age
    fields merged by a gateway — the FIRST member counts (RFC 9111 §5.1), also behind an empty field line or an
    empty member; the pinned tree read "100, 5" as no Age at all and served the response as 100 s younger than it is. -/
example : firstListMember [str% "100, 5"] = (str% "100") ∧ firstListMember [[], str% " 50 , 1"] = (str% "50") ∧
    firstListMember [str% ", 7"] = (str% "7") ∧ firstListMember [str% "junk, 5"] = (str% "junk") ∧ firstListMember [] = [] := by decide

/-- The Age value is printed from a 64-bit integer (regenerated from internal/helpers.go SetAgeHeader). The model
    prints an unbounded integer (`intToStr`); the code's `strconv.Itoa(int(seconds))` is 32 bits wide on 32-bit
    platforms, where a stored `Age: 2147483648` (what RFC 9111 §1.2.2 tells an overflowed cache to send) came back
    as `Age: -2147483648` on every HIT. The checks run on a 64-bit platform and cannot observe that; this table is
    what keeps the repair in place. -/
theorem age_is_printed_from_64_bits : Generated.ageFormat = "strconv.FormatInt/int64" := by decide

end Httpcache.C11
