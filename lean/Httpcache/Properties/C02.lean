import Httpcache.Proofs.Validation
import Httpcache.Proofs.Paths
import Httpcache.Proofs.Csv
/-
C02 — Responses that require validation are never reused unvalidated.

  "A stored response carrying unqualified no-cache, or that is stale and carries must-revalidate,
   and any stored response when the request carries no-cache or a max-age that it exceeds, is
   returned only after the origin was contacted in that same exchange with the stored validators
   and answered 304; otherwise the origin's own answer (or its failure) is returned.
   must-revalidate and no-cache are not overridden by max-stale, stale-while-revalidate or
   stale-if-error, and header fields named by a qualified no-cache are never replayed without
   validation. The validation request is the client's request plus If-None-Match /
   If-Modified-Since copied from the stored ETag / Last-Modified, and the client's own request
   object is left unmodified."

`ValidationOutcome e mv ans r` (Proofs/Validation.lean) lists the only ways a validation can end:
304 → the stored status and body, marked REVALIDATED; stale-if-error (only if mv = false); the
origin's own reply; the origin's failure.
-/
namespace Httpcache.C02
open Httpcache

/-- An exchange that read entry `e0` from the store while the RFC-level strict conditions hold
    (unqualified no-cache, stale + must-revalidate, request no-cache) answers 504 (only-if-cached)
    or performs exactly one origin call — the client's header list plus the stored validators, no
    deadline — and its result is: the stored response iff that call was answered 304 and carried no
    precondition of the client's own in place of a stored validator (`ValidationOutcome.revalidated`),
    else the origin's own reply (that 304 included) or failure. stale-if-error, max-stale, stale-while-revalidate and immutable
    cannot change this: the statement quantifies over all directive combinations. -/
theorem strict_validation (cfg : Cfg) (t0 : Int) (req : Req) (tr : List Step) (r : Result)
    (h : Run (roundTrip cfg t0 req) tr r) (key : Str) (refs : List Ref) (id : Str) (e0 : Entry) (tr2 : List Step)
    (htr : tr = .getRefs key (some refs) :: .getEntry id (some e0) :: tr2)
    (hs : (parsedEntry e0).resp.status ≠ 304) (hT : TimesOK (parsedEntry e0))
    (hstrict : Spec.strictValidate modelReader cfg.glue.parseTime req.header (Spec.storedOfEntry (parsedEntry e0)) t0 = true) :
    (Spec.hasDirective modelReader req.header (str% "only-if-cached") = true ∧ tr2 = [] ∧ r = .resp make504) ∨
    ∃ ans tr', tr2 = Step.origin sGET (withConditional req.header (parsedEntry e0).resp.header) none ans :: tr' ∧
      ValidationOutcome req.header (parsedEntry e0) true (fixAns cfg ans) r ∧ contacted tr' = false ∧ spawned tr' = false := by
  obtain ⟨sorted, i, hu, hrun⟩ := hit_of_trace cfg t0 req tr r h key refs id e0 tr2 htr
  have hmv := strict_implies_mv cfg.glue t0 (parsedEntry e0) req.header hs hT hstrict
  have hget := understood_is_get req hu
  have := hit_validates cfg t0 req (parsedEntry e0) _ _ _ hget (by rw [hmv]; rfl) _ _ hrun
  rw [hmv] at this
  rw [has_eq]
  exact this

/-- Same for a request max-age that the response's age exceeds (also after the request's own
    max-stale allowance): the origin is contacted with the validation request (or 504 for
    only-if-cached); here stale-if-error may apply (C13), which `ValidationOutcome` with
    `mustValidate = false` permits. -/
theorem soft_validation (cfg : Cfg) (t0 : Int) (req : Req) (tr : List Step) (r : Result)
    (h : Run (roundTrip cfg t0 req) tr r) (key : Str) (refs : List Ref) (id : Str) (e0 : Entry) (tr2 : List Step)
    (htr : tr = .getRefs key (some refs) :: .getEntry id (some e0) :: tr2)
    (hT : TimesOK (parsedEntry e0))
    (hsoft : Spec.requestMaxAgeExceeded modelReader cfg.glue.parseTime req.header (Spec.storedOfEntry (parsedEntry e0)) t0 = true) :
    (Spec.hasDirective modelReader req.header (str% "only-if-cached") = true ∧ tr2 = [] ∧ r = .resp make504) ∨
    ∃ ans tr' mv, tr2 = Step.origin sGET (withConditional req.header (parsedEntry e0).resp.header) none ans :: tr' ∧
      ValidationOutcome req.header (parsedEntry e0) mv (fixAns cfg ans) r ∧ contacted tr' = false ∧ spawned tr' = false := by
  obtain ⟨sorted, i, hu, hrun⟩ := hit_of_trace cfg t0 req tr r h key refs id e0 tr2 htr
  have hex := exceeded_implies_flag cfg.glue t0 (parsedEntry e0) req.header hT hsoft
  have hget := understood_is_get req hu
  have := hit_validates cfg t0 req (parsedEntry e0) _ _ _ hget (by rw [hex]; simp) _ _ hrun
  rw [has_eq]
  cases this with
  | inl h1 => exact Or.inl h1
  | inr h2 => obtain ⟨ans, tr', h2⟩ := h2; exact Or.inr ⟨ans, tr', _, h2⟩

/-- The validation request: the client's header list with If-None-Match set to the stored ETag
    (when there is one) and If-Modified-Since set to the stored Last-Modified (when there is
    one); every other field of the client's request is untouched. -/
theorem conditional_request (reqH storedH : Header) :
    (Header.get storedH sETag ≠ [] → Header.get (withConditional reqH storedH) sIfNoneMatch = Header.get storedH sETag) ∧
    (Header.get storedH sLastModified ≠ [] →
      Header.get (withConditional reqH storedH) sIfModifiedSince = Header.get storedH sLastModified) ∧
    (∀ n, n ≠ sIfNoneMatch → n ≠ sIfModifiedSince → Header.get (withConditional reqH storedH) n = Header.get reqH n) := by
  have hne : sIfNoneMatch ≠ sIfModifiedSince := by decide
  refine ⟨?_, ?_, ?_⟩
  · intro he
    unfold withConditional
    have he' : (Header.get storedH sETag).isEmpty = false := by simpa using he
    simp only [he', Bool.false_eq_true, ↓reduceIte]
    split
    · exact Header.get_set_self _ _ _
    · rw [Header.get_set_other _ _ _ _ (Ne.symm hne)]; exact Header.get_set_self _ _ _
  · intro hl
    unfold withConditional
    have hl' : (Header.get storedH sLastModified).isEmpty = false := by simpa using hl
    simp only [hl', Bool.false_eq_true, ↓reduceIte]
    exact Header.get_set_self _ _ _
  · intro n h1 h2
    unfold withConditional
    simp only []
    split <;> split <;> simp [Header.get_set_other, Ne.symm h1, Ne.symm h2]

/-- A field named by a qualified no-cache directive is absent from every response served
    without validation (HIT, stale-while-revalidate, stale-if-error all go through `servedHeader`),
    except for the three fields the cache itself sets. -/
theorem qualified_fields_stripped (s : CacheStatus) (f : Freshness) (now : Int) (h : Header) (cc : Directives)
    (fields : List Str) (hq : cc.respNoCache = some (some fields)) (n : Str)
    (hn : n ∈ fields.map canonicalHeaderKey)
    (h1 : n ≠ sAge) (h2 : n ≠ sStatusHeader) (h3 : n ≠ sFromCache) :
    Header.has (servedHeader s f now h cc) n = false := by
  unfold servedHeader applyStatus setAgeHeader stripNoCacheFields
  simp only [hq]
  have base := has_foldl_del fields n h (Or.inl hn)
  split
  · rw [Header.has_set_other _ _ _ _ (Ne.symm h3), Header.has_set_other _ _ _ _ (Ne.symm h2),
        Header.has_set_other _ _ _ _ (Ne.symm h1)]
    exact base
  · rw [Header.has_del_other _ _ _ (Ne.symm h3), Header.has_set_other _ _ _ _ (Ne.symm h2),
        Header.has_set_other _ _ _ _ (Ne.symm h1)]
    exact base


/-- The qualified form given more than once (one field line or several): the directive map names the
    fields of BOTH lists, so `qualified_fields_stripped` covers every one of them (the pinned parser kept
    only the last list; see known_findings.json). The lists are lists of field names, split at every comma: the
    result is the names of the first list followed by the names of the second WHATEVER bytes a member holds — a
    quote that was escaped inside the quoted-string (`no-cache="X-A\", Set-Cookie"`) hides nothing after it, in
    its own list or in the other (fifth hunt; the code split the unquoted argument with the quote-aware tokenizer) -/
theorem qualified_lists_accumulate (m : Directives) (prev v : Str) (hp : alookup sNoCache m = some prev)
    (hq1 : (parseQuotedString prev).isEmpty = false) (hq2 : (parseQuotedString v).isEmpty = false) :
    (directiveInsert m sNoCache v).respNoCache =
      some (some (fieldNames (parseQuotedString prev) ++ fieldNames (parseQuotedString v))) :=
  two_qualified_lists m prev v hp hq1 hq2

/-- one list: every name after a comma is named, whatever stands before the comma -/
theorem qualified_names_after_a_comma (d : Directives) (v a b : Str) (hv : alookup (str% "no-cache") d = some v)
    (hq : parseQuotedString v = a ++ ',' :: b) :
    d.respNoCache = some (some (fieldNames a ++ fieldNames b)) := by
  unfold Directives.respNoCache
  simp only [hv, hq]
  have : (a ++ ',' :: b).isEmpty = false := by cases a <;> rfl
  simp [this, fieldNames_comma]

set_option maxRecDepth 8000 in
example : (parseCC [(sCacheControl, str% "max-age=60, no-cache=\"X-Device\\\", Set-Cookie\"")]).respNoCache =
    some (some [str% "X-Device\"", str% "Set-Cookie"]) := by decide

set_option maxRecDepth 8000 in
example : (parseCC [(sCacheControl, str% "no-cache=\"A\""), (sCacheControl, str% "no-cache=\"B\"")]).respNoCache =
    some (some [str% "A", str% "B"]) := by decide

/-- Non-vacuity: a stored response with an unqualified no-cache, validated with a 304. -/
def exGlue : Glue := ⟨fun s => if s = (str% "D") then some 100 else none⟩
def exCfg : Cfg := { glue := exGlue, normQ := fun _ v => v, loc := fun _ => none, swrTimeout := 5000000000 }
def exReq : Req := { method := sGET, scheme := str% "http", host := str% "a", path := str% "/", query := [], opaq := [], header := [] }
def exResp : Resp := { status := 200, header := [(sDate, str% "D"), (sCacheControl, str% "no-cache, max-age=60"), (sETag, str% "v1")], body := str% "b" }
def exEntry : Entry := { id := str% "http://a/#0", requestedAt := 100000000000, receivedAt := 100000000000, resp := exResp }
def exRef : Ref := { id := str% "http://a/#0", vary := [], resolved := [], receivedAt := none }
def ex304 : Resp := { status := 304, header := [(sDate, str% "D")], body := [] }

example : Spec.strictValidate modelReader exGlue.parseTime exReq.header (Spec.storedOfEntry (parsedEntry exEntry)) 105000000000 = true := by
  decide

example : ∃ tr2 r, Run (roundTrip exCfg 105000000000 exReq)
    (.getRefs (str% "http://a/") (some [exRef]) :: .getEntry (str% "http://a/#0") (some exEntry) :: tr2) r :=
  ⟨[.origin sGET [(sIfNoneMatch, str% "v1")] none (.resp ex304 105000000000 true), .setEntry _ _ true], _,
    Run.getRefs _ (Run.getEntry _ (Run.origin _ (Run.setEntry _ (Run.ret _))))⟩

theorem not_any_nonempty (l : List Str) :
    (!(l.any fun v => !(trimString v).isEmpty)) = decide (l.filter (fun v => !(trimString v).isEmpty) = []) := by
  induction l with
  | nil => rfl
  | cons a t ih =>
    by_cases ha : (trimString a).isEmpty = true
    · simp only [List.any_cons, ha, Bool.not_true, Bool.false_or, List.filter_cons, Bool.false_eq_true, ↓reduceIte]
      exact ih
    · simp [ha]

/-- WHEN a 304 is a validation result, said twice and proved to be the same thing. The specification
    (`Spec.isValidationOf`, evaluated by the monitors on the request that actually went upstream): the preconditions
    the origin evaluated are exactly the stored validators — with a stored ETag the If-None-Match decides alone
    (RFC 9110 §13.2.2); a field line of white space only carries no value. The implementation
    (`clientPreconditionForwarded`, evaluated on the CLIENT's request before the cache's own validators are put in):
    a precondition of the client's own went upstream in their place. For every client request and every stored
    response whose validators are not themselves blank (`hE`, `hL`: a stored field is trimmed when it is parsed), on the
    conditional request the cache builds (`withConditional`), the one is the negation of the other. (The pinned
    tree freshened its stored response with a 304 that answered the client's own If-None-Match; the first repair
    then refused a genuine 304 whenever the client had sent an If-Modified-Since beside a stored ETag — e5880f2; a
    later hunt found `If-None-Match: " "` counted as a precondition. This theorem refuses all three.) -/
theorem validation_iff_no_client_precondition (reqH storedH : Header)
    (hE : (trimString (Header.get storedH sETag)).isEmpty = (Header.get storedH sETag).isEmpty)
    (hL : (trimString (Header.get storedH sLastModified)).isEmpty = (Header.get storedH sLastModified).isEmpty) :
    Spec.isValidationOf storedH (withConditional reqH storedH) = !clientPreconditionForwarded reqH storedH := by
  have hne : sIfNoneMatch ≠ sIfModifiedSince := by decide
  unfold Spec.isValidationOf withConditional clientPreconditionForwarded hasFieldValue
  by_cases he : (Header.get storedH sETag).isEmpty = true
  · simp only [he, Bool.not_true, Bool.false_eq_true, ↓reduceIte, Bool.true_and]
    by_cases hl : (Header.get storedH sLastModified).isEmpty = true
    · simp only [hl, ↓reduceIte, Bool.and_true]
      rw [Bool.not_or, not_any_nonempty, not_any_nonempty]
    · simp only [hl, Bool.false_eq_true, ↓reduceIte, Bool.and_false, Bool.or_false]
      rw [Header.values_set_other _ _ _ _ hne.symm, Header.values_set_self, not_any_nonempty]
      have : ([Header.get storedH sLastModified].filter (fun v => !(trimString v).isEmpty)) = [Header.get storedH sLastModified] := by
        simp [hL, hl]
      simp [this]
  · simp only [he, Bool.not_false, ↓reduceIte, Bool.false_and, Bool.not_false, Bool.false_eq_true]
    have hfilter : ([Header.get storedH sETag].filter (fun v => !(trimString v).isEmpty)) = [Header.get storedH sETag] := by
      simp [hE, he]
    by_cases hl : (Header.get storedH sLastModified).isEmpty = true
    · simp only [hl, ↓reduceIte]
      rw [Header.values_set_self, hfilter]; simp
    · simp only [hl, Bool.false_eq_true, ↓reduceIte]
      rw [Header.values_set_other _ _ _ _ hne.symm, Header.values_set_self, hfilter]; simp

end Httpcache.C02
