import Httpcache.Proofs.Store
import Httpcache.Proofs.Csv
/-
C05 — Cached responses are byte-faithful copies of the origin response.

  "A response returned from the store has the status code, every end-to-end header field value and
   exactly the body bytes of the origin response it was stored from … plus only the cache's own Age
   and status fields and fields replaced by a 304. Hop-by-hop fields (Connection and the fields it
   names, Keep-Alive, TE, Transfer-Encoding, Upgrade, Proxy-*) are never stored or replayed, and
   the response forwarded on a miss carries the origin's exact body as well."

PARTIAL: the serialisation of an entry (metadata line + httputil.DumpResponse, read back with
http.ReadResponse) is net/http, not repository code: the model stores structured entries. That
decode(encode(e)) = e for every framing, protocol version and body is TESTED by the
correspondence / monitor runs (Content-Length, chunked, close-delimited, HTTP/1.0, bodies with
CR LF NUL and text that looks like HTTP framing, up to 1 MiB in the thorough tier, on memory,
file-system, encrypted and reopened backends), not proved.
-/
namespace Httpcache.C05
open Httpcache

/-- the code's hop-by-hop set (regenerated from internal/helpers.go) contains every field RFC 9110
    §7.6.1 / RFC 9111 §3.1 lists, under the canonical spelling http.Header uses -/
theorem hop_by_hop_complete : ∀ f ∈ Spec.hopByHopFixed, f ∈ hopByHopBase := by decide

/-- after removeHopByHopHeaders no field of the fixed set, and no field named by Connection, is left -/
theorem hop_by_hop_removed (h : Header) (n : Str) (hn : n ∈ hopByHopHeaders h) :
    Header.has (removeHopByHop h) n = false := by
  unfold removeHopByHop Header.has
  simp only []
  rw [List.any_eq_false]
  intro p hp hpn
  rw [List.mem_filter] at hp
  simp only [decide_eq_true_eq] at hpn
  have := hp.2
  rw [hpn] at this
  simp [hn] at this

/-- connection options are tokens: a name that stands after a comma of a Connection field line is named, WHATEVER
    bytes stand before that comma (a stray quote in the first member hides nothing — fifth hunt: `Connection: x", X-Hop`
    kept X-Hop in the stored response and, from a 304, merged it into one) -/
theorem connection_names_after_a_comma (h : Header) (a b n : Str)
    (hl : (a ++ ',' :: b) ∈ Header.values h sConnection) (hn : n ∈ fieldNames b) :
    Header.has (removeHopByHop h) (canonicalHeaderKey n) = false := by
  apply hop_by_hop_removed
  unfold hopByHopHeaders
  apply List.mem_append_right
  rw [List.mem_flatMap]
  refine ⟨_, hl, ?_⟩
  rw [List.mem_map]
  exact ⟨n, by rw [fieldNames_comma]; exact List.mem_append_right _ hn, rfl⟩

example : canonicalHeaderKey (str% "x-hop") ∈ hopByHopHeaders [(sConnection, str% "x\", x-hop")] := by decide

/-- what is written to the store for a reply: its status and body unchanged, its header fields
    minus the hop-by-hop ones — and nothing at all unless the body was read completely -/
theorem stored_entry_is_origin_minus_hop (r : Resp) (b : Bool) (key : Str) (tr : List Step)
    (h : StoreWrites r b key tr) (id : Str) (en : Entry) (ok : Bool) (hm : Step.setEntry id en ok ∈ tr) :
    b = true ∧ en.resp.status = r.status ∧ en.resp.body = r.body ∧ en.resp.header = removeHopByHop r.header := by
  cases h with
  | none _ => cases hm
  | entryFailed id' en' hb he =>
    simp only [List.mem_singleton, Step.setEntry.injEq] at hm
    obtain ⟨_, he2, _⟩ := hm
    subst he2
    rw [he]; exact ⟨hb, rfl, rfl, rfl⟩
  | stored id' en' refs ok' hb he _ =>
    simp only [List.mem_cons, Step.setEntry.injEq, reduceCtorEq, List.not_mem_nil, or_false] at hm
    obtain ⟨_, he2, _⟩ := hm
    subst he2
    rw [he]; exact ⟨hb, rfl, rfl, rfl⟩
  | storedDropping id' en' refs old hb he _ _ =>
    simp only [List.mem_cons, Step.setEntry.injEq, reduceCtorEq, List.not_mem_nil, or_false] at hm
    obtain ⟨_, he2, _⟩ := hm
    subst he2
    rw [he]; exact ⟨hb, rfl, rfl, rfl⟩

/-- serving from the store changes neither status nor body -/
theorem served_status_and_body (f : Freshness) (now : Int) (e : Entry) (cc : Directives) :
    (serveFromCache f now e cc).status = e.resp.status ∧ (serveFromCache f now e cc).body = e.resp.body ∧
    (swrResponse f now e cc).status = e.resp.status ∧ (swrResponse f now e cc).body = e.resp.body ∧
    (serveStale f now e).status = e.resp.status ∧ (serveStale f now e).body = e.resp.body :=
  ⟨rfl, rfl, rfl, rfl, rfl, rfl⟩

theorem values_foldl_del (fs : List Str) (n : Str) (hn : n ∉ fs.map canonicalHeaderKey) : ∀ h : Header,
    Header.values (fs.foldl (fun h f => Header.del h (canonicalHeaderKey f)) h) n = Header.values h n := by
  induction fs with
  | nil => intro h; rfl
  | cons f fs ih =>
    intro h
    simp only [List.map_cons, List.mem_cons, not_or] at hn
    simp only [List.foldl_cons]
    rw [ih hn.2, Header.values_del_other _ _ _ (Ne.symm hn.1)]

/-- every field of the stored entry other than the cache's own three fields and the fields a
    qualified no-cache names is returned with exactly the stored values, in order -/
theorem end_to_end_fields_preserved (s : CacheStatus) (f : Freshness) (now : Int) (h : Header) (cc : Directives) (n : Str)
    (h1 : n ≠ sAge) (h2 : n ≠ sStatusHeader) (h3 : n ≠ sFromCache)
    (hq : ∀ fields, cc.respNoCache = some (some fields) → n ∉ fields.map canonicalHeaderKey) :
    Header.values (servedHeader s f now h cc) n = Header.values h n := by
  unfold servedHeader applyStatus setAgeHeader
  have base : Header.values (stripNoCacheFields h cc) n = Header.values h n := by
    unfold stripNoCacheFields
    split
    · rename_i fields heq
      exact values_foldl_del fields n (hq fields heq) h
    · rfl
  split
  · rw [Header.values_set_other _ _ _ _ (Ne.symm h3), Header.values_set_other _ _ _ _ (Ne.symm h2),
        Header.values_set_other _ _ _ _ (Ne.symm h1), base]
  · rw [Header.values_del_other _ _ _ (Ne.symm h3), Header.values_set_other _ _ _ _ (Ne.symm h2),
        Header.values_set_other _ _ _ _ (Ne.symm h1), base]

/-- reading an entry back (ParseResponse) drops the Connection field — the serialisation's own
    `Connection: close` of an HTTP/1.0 entry — and nothing else: every other field, one literally named
    `Close` included, comes back with exactly its stored values (the hop-by-hop fields of the origin's
    response were removed before storing, `stored_entry_is_origin_minus_hop`) -/
theorem parsed_entry_drops_only_connection (e : Entry) :
    Header.has (parsedEntry e).resp.header sConnection = false ∧
    ∀ n, n ≠ sConnection → Header.values (parsedEntry e).resp.header n = Header.values e.resp.header n :=
  ⟨Header.has_del_self _ _, fun n hn => Header.values_del_other _ _ _ (Ne.symm hn)⟩

end Httpcache.C05
