import Httpcache.Proofs.Invalidate
import Httpcache.Proofs.UrlKey
import Httpcache.Proofs.NoOrphan
import Httpcache.Properties.C10
/-
C07 — Successful unsafe requests invalidate what is stored for their target.

  "After a request whose method is not registered as safe … receives a 2xx or 3xx response through
   the transport, no response stored earlier for the equivalent target URI (any variant), nor for
   a same-origin URI named by that response's Location or Content-Location, is returned again
   without validation. URIs of a different origin named in those fields stay cached …"

Exchange-local theorems: which store keys such an exchange deletes (`unsafe_invalidates`,
`same_origin_location_invalidated`) and which it does NOT (`cross_origin_stays_cached`: with no
same-origin Location / Content-Location nothing but the target's own keys is deleted), for every answer
of the store. That a deleted entry cannot be served later is the map semantics of the backend (C14);
the history-level statement, including interleavings with requests in flight, is checked by the
monitor on the implementation.
-/
namespace Httpcache.C07
open Httpcache

/-- every method the code treats as safe (table regenerated from internal/helpers.go) is
    registered as safe; anything else — POST, PUT, DELETE, PATCH, WebDAV write methods, unknown
    tokens — is unsafe -/
theorem safe_table : ∀ m ∈ Generated.safeMethods, m.toList ∈ Spec.ianaSafe := by decide

theorem unknown_tokens_are_unsafe : isUnsafeMethod (str% "PROPPATCH") = true ∧ isUnsafeMethod (str% "FOO") = true ∧
    isUnsafeMethod (str% "post") = true ∧ isUnsafeMethod (str% "POST") = true := by decide

/-- Main theorem: an exchange with an unsafe method that does not carry only-if-cached and whose
    origin call is answered with a 2xx/3xx status reads the index of its URL key and deletes that
    key and the id of EVERY reference the store returned for it — whatever the store answers. -/
theorem unsafe_invalidates (cfg : Cfg) (t0 : Int) (req : Req) (tr : List Step) (r : Result)
    (hunsafe : isUnsafeMethod req.method = true) (hu : isRequestMethodUnderstood req = false)
    (hoic : (parseCC req.header).onlyIfCached = false)
    (h : Run (roundTrip cfg t0 req) tr r) :
    ∃ ans tr1, tr = Step.origin req.method req.header none ans :: tr1 ∧
      ∀ rr t1 b, ans = .resp rr t1 b → isNonErrorStatus rr.status = true →
        ∃ refs tr2, tr1 = Step.getRefs (makeURLKey req) refs :: tr2 ∧
          Step.delete (makeURLKey req) ∈ tr2 ∧ ∀ ref ∈ refs.getD [], Step.delete ref.id ∈ tr2 := by
  cases roundTrip_paths cfg t0 req tr r h with
  | miss _ _ _ _ hu' => rw [hu] at hu'; cases hu'
  | hit _ _ _ _ _ hu' => rw [hu] at hu'; cases hu'
  | bypass _ hrun =>
    unfold handleUnrecognizedMethod at hrun
    simp only [hoic, Bool.false_eq_true, ↓reduceIte] at hrun
    cases hrun with
    | origin ans h1 =>
      refine ⟨ans, _, rfl, ?_⟩
      intro rr t1 b hans hne
      subst hans
      dsimp only at h1
      simp only [hunsafe, hne, Bool.and_self, ↓reduceIte] at h1
      cases h1 with
      | getRefs a h2 =>
        exact ⟨a, _, rfl, invalidateCache_deletes _ _ _ _ _ _ _ _ h2⟩

/-- a same-origin URI named by Location or Content-Location is invalidated too: its index is read, and
    its key and the id of every reference the store returned for it are deleted (or were already) -/
theorem same_origin_location_invalidated (cfg : Cfg) (req : Req) (respH : Header) (hdr : Str) (deleted : List Str)
    (cont : List Str → Prog) (tr : List Step) (r : Result) (g : LocGlue)
    (hne : (Header.get respH hdr).isEmpty = false) (hg : cfg.loc hdr = some g)
    (hs : sameOrigin req.scheme req.host (resolveLoc req g).scheme (resolveLoc req g).host = true)
    (h : Run (invalidateLocation cfg req respH hdr deleted cont) tr r) :
    ∃ a tr', tr = Step.getRefs (resolveLoc req g).key a :: tr' ∧
      ∃ tr1 tr2 d, tr' = tr1 ++ tr2 ∧ Run (cont d) tr2 r ∧
        (resolveLoc req g).key ∈ d ∧ (∀ ref ∈ a.getD [], ref.id ∈ d) ∧
        (∀ x ∈ d, x ∈ deleted ∨ Step.delete x ∈ tr1) :=
  invalidateLocation_same cfg req respH hdr deleted cont tr r g hne hg hs h

/-- "URIs of a different origin named in those fields stay cached": when the reply names no same-origin
    Location / Content-Location (absent, unresolvable, or another scheme / host / port — `//other/x`
    included), the exchange deletes the key of its own URL and the ids of the references the store
    returned for that key, and nothing else -/
theorem cross_origin_stays_cached (cfg : Cfg) (t0 : Int) (req : Req) (tr : List Step) (r : Result)
    (hu : isRequestMethodUnderstood req = false) (h : Run (roundTrip cfg t0 req) tr r) :
    ∀ x, Step.delete x ∈ tr →
      ∃ ans tr1, tr = Step.origin req.method req.header none ans :: tr1 ∧
        ∀ rr t1 b, ans = .resp rr t1 b →
          NotSameOrigin cfg req rr.header sLocation → NotSameOrigin cfg req rr.header sContentLocation →
          x = makeURLKey req ∨ ∃ refs, Step.getRefs (makeURLKey req) refs ∈ tr1 ∧ ∃ ref ∈ refs.getD [], x = ref.id :=
  unsafe_exchange_deletes_only_target cfg t0 req tr r hu h

/-- origins are compared by ASCII case only — the folding of the URL key: two hosts that only a Unicode case folding
    equates (the Kelvin sign and "k", the long s and "s", a final and a medial sigma) are different origins, and the
    reply of one cannot name the other's responses (fifth hunt: the code used strings.EqualFold) -/
theorem same_origin_is_ascii_case (s1 h1 s2 h2 : Str) (h : sameOrigin s1 h1 s2 h2 = true) :
    lowerASCII (stdSplitHostPort h1).1 = lowerASCII (stdSplitHostPort h2).1 ∧ lowerASCII s1 = lowerASCII s2 := by
  unfold sameOrigin equalFoldASCII at h
  simp only [Bool.and_eq_true, decide_eq_true_eq] at h
  exact ⟨h.1.2, h.1.1⟩

example : sameOrigin (str% "http") ("\u212aelvin.example").toList (str% "http") (str% "kelvin.example") = false := by decide
example : sameOrigin (str% "http") (str% "KELVIN.example:80") (str% "http") (str% "kelvin.example") = true := by decide

/-- the key under which a Location / Content-Location URI is invalidated is the RFC 3986 normal form of the
    reference resolved against the request URI by RFC 3986 §5.2.2 (`Spec.resolveRef`, `Spec.urlNormQ` — what the
    monitor computes on the trace): so it is the key under which a request for that URI, spelled the same way or
    any equivalent way, stored its response (`C03.key_with_forced_query_is_rfc_normal_form`). For every request
    URL with a host and every reference that url.Parse accepts (its components are glue) and that is not opaque.
    On the pinned tree the reference went through url.URL.ResolveReference, which removes dot segments before the
    percent-encoding is normalised and drops an empty segment after a ".." at the root: the key deleted for
    "/..//b" or "/a/%2e%2e/../b" was not the key such a request had stored under. -/
theorem location_key_is_rfc_resolution (req : Req) (g : LocGlue) (hopq : g.kOpaq = []) (hhost : req.host ≠ [])
    (hs : (resolveLoc req g).kScheme = (str% "http") ∨ (resolveLoc req g).kScheme = (str% "https")) :
    (resolveLoc req g).key =
      (match Spec.resolveRef req.scheme req.host req.path req.query req.forceQuery g.kScheme g.kHost g.kPath g.kQuery g.kForceQuery with
       | (ts, th, tp, tq, tfq) => Spec.urlNormQ ts th tp tq tfq) := by
  unfold LocGlue.key
  unfold resolveLoc at hs ⊢
  unfold Spec.resolveRef
  by_cases h1 : g.kScheme.isEmpty = true
  · simp only [h1, Bool.not_true, Bool.false_eq_true, ↓reduceIte] at hs ⊢
    by_cases h2 : g.kHost.isEmpty = true
    · simp only [h2, Bool.not_true, Bool.false_eq_true, ↓reduceIte] at hs ⊢
      by_cases h3 : g.kPath.isEmpty = true
      · simp only [h3, ↓reduceIte] at hs ⊢
        by_cases h4 : (g.kQuery.isEmpty && !g.kForceQuery) = true
        · simp only [h4, ↓reduceIte] at hs ⊢
          simp only [hopq]
          exact keyQ_eq_spec _ _ _ _ _ hs
        · simp only [h4, Bool.false_eq_true, ↓reduceIte] at hs ⊢
          simp only [hopq]
          exact keyQ_eq_spec _ _ _ _ _ hs
      · simp only [h3, Bool.false_eq_true, ↓reduceIte] at hs ⊢
        by_cases h5 : g.kPath.head? = some '/'
        · simp only [h5, ↓reduceIte] at hs ⊢
          simp only [hopq]
          exact keyQ_eq_spec _ _ _ _ _ hs
        · simp only [h5, ↓reduceIte] at hs ⊢
          simp only [hopq]
          rw [keyQ_eq_spec _ _ _ _ _ hs]
          cases hp : g.kPath with
          | nil => simp [hp] at h3
          | cons c t =>
            have hc : c ≠ '/' := by intro e; apply h5; rw [hp, e]; rfl
            unfold Spec.urlNormQ Spec.urlNorm
            have := rooted_merge req.host req.path (c :: t) c t hhost rfl hc
            unfold dirOf at this
            rw [this]
    · simp only [h2, Bool.not_false, ↓reduceIte] at hs ⊢
      simp only [hopq]
      exact keyQ_eq_spec _ _ _ _ _ hs
  · simp only [h1, Bool.not_false, ↓reduceIte] at hs ⊢
    rw [hopq]
    exact keyQ_eq_spec _ _ _ _ _ hs

/-- the two reported spellings, evaluated: "/..//b" names "//b", "/a/%2e%2e/../b" names "/b" -/
example : (resolveLoc { method := sGET, scheme := (str% "http"), host := (str% "h.example"), path := (str% "/p"), query := [], opaq := [], header := [] }
            { scheme := [], host := [], kScheme := [], kHost := [], kPath := (str% "/..//b"), kQuery := [], kOpaq := [] }).key = (str% "http://h.example//b") ∧
          (resolveLoc { method := sGET, scheme := (str% "http"), host := (str% "h.example"), path := (str% "/p"), query := [], opaq := [], header := [] }
            { scheme := [], host := [], kScheme := [], kHost := [], kPath := (str% "/a/%2e%2e/../b"), kQuery := [], kOpaq := [] }).key = (str% "http://h.example/b") ∧
          (resolveLoc { method := sGET, scheme := (str% "http"), host := (str% "h.example"), path := (str% "/d/p"), query := [], opaq := [], header := [] }
            { scheme := [], host := [], kScheme := [], kHost := [], kPath := (str% "../x/./b"), kQuery := [], kOpaq := [] }).key = (str% "http://h.example/x/b") := by
  decide


/-- The two halves put together, for every sequential fault-free history. (1) After the invalidation of a
    resource in ANY reachable state (`ReachableRes`, C19) its index and every response stored for it — every
    variant — are gone from the store. (2) A store that no longer has the index answers the next look-up with
    "not there", and then, whatever else the store and the origin answer: the exchange is the synthesised 504
    (only-if-cached) or its result is the outcome of an origin call made with the client's own header fields
    in THAT exchange. Nothing stored earlier is returned again without the origin being asked. -/
theorem invalidated_resource_is_refetched (cfg : Cfg) (key : Str) (s : ResState) (hs : ReachableRes cfg key s)
    (rq : Req) (respH : Header) (res0 : Result) (trI : List Step) (rI : Result)
    (hI : Run (invalidateCache cfg rq respH s.index key (.ret res0)) trI rI) :
    ((applyTrace key s trI).index = [] ∧ (applyTrace key s trI).entries = []) ∧
    ∀ (t0 : Int) (req : Req) (tr' : List Step) (r : Result),
      isRequestMethodUnderstood req = true →
      Run (roundTrip cfg t0 req) (Step.getRefs (makeURLKey req) none :: tr') r →
      r = .resp make504 ∨ ∃ pre ans post, Step.getRefs (makeURLKey req) none :: tr' = pre ++ Step.origin req.method req.header none ans :: post ∧
        pre.all Step.isRead = true ∧ contacted post = false ∧
        (match fixAns cfg ans with
         | .err _ => r = .err
         | .resp rr _ _ => ∃ x, r = .resp x ∧ x.status = rr.status ∧ x.body = rr.body) := by
  refine ⟨inval_leaves_nothing cfg rq respH key res0 s trI rI hI (reachable_res_inv cfg key s hs).1, ?_⟩
  intro t0 req tr' r hu h
  apply C10.store_fault_means_origin cfg t0 req _ r h hu
  -- no entry is read in an exchange whose index look-up found nothing
  intro id e0 hm
  cases roundTrip_paths cfg t0 req _ r h with
  | bypass hu' _ => rw [hu] at hu'; cases hu'
  | hit refs sorted i e0' tr2 _ _ heq _ => cases heq
  | miss pre tr1 refs ri _ hpre heq hrun =>
    rw [heq] at hm
    rcases List.mem_append.mp hm with hm | hm
    · have := List.all_eq_true.mp hpre _ hm
      simp [Step.isRead] at this
    · rcases miss_first_step _ _ _ _ _ _ _ _ hrun with h0 | ⟨m, hd, dl, a, tr2, h0⟩
      · rw [h0] at hm; cases hm
      · -- after the origin call of a miss only writes follow
        have hw := miss_writes _ _ _ _ _ _ _ _ hrun
        rcases hw with h1 | ⟨ans, post, h1, hwa⟩
        · rw [h1] at hm; cases hm
        · rw [h1] at hm
          rcases List.mem_cons.mp hm with e | e
          · cases e
          · generalize fixAns cfg ans = fa at hwa
            cases hwa with
            | none _ => cases e
            | store rr t1 b post' _ _ hsw =>
              cases hsw with
              | none _ => cases e
              | entryFailed _ _ _ _ => simp at e
              | stored _ _ _ _ _ _ _ => simp at e
              | storedDropping _ _ _ _ _ _ _ _ => simp at e
            | freshen _ _ _ _ _ _ _ hst => cases hst
            | restore _ _ _ _ _ _ _ hst => cases hst

end Httpcache.C07
