import Httpcache.Proofs.Invalidate
/-
C07 — Successful unsafe requests invalidate what is stored for their target.

  "After a request whose method is not registered as safe … receives a 2xx or 3xx response through
   the transport, no response stored earlier for the equivalent target URI (any variant), nor for
   a same-origin URI named by that response's Location or Content-Location, is returned again
   without validation. URIs of a different origin named in those fields stay cached …"

Exchange-local theorems: which store keys such an exchange deletes (`unsafe_invalidates`,
`same_origin_location_invalidated`) and which it does NOT (`cross_origin_stays_cached`: with no
same-origin Location / Content-Location nothing but the target's own keys is deleted), for every answer
of the store. That a deleted entry cannot be served later is the map semantics of the backend (C14);
the history-level statement, including interleavings with requests in flight, is checked by the
monitor on the implementation.
-/
namespace Httpcache.C07
open Httpcache

/-- every method the code treats as safe (table regenerated from internal/helpers.go) is
    registered as safe; anything else — POST, PUT, DELETE, PATCH, WebDAV write methods, unknown
    tokens — is unsafe -/
theorem safe_table : ∀ m ∈ Generated.safeMethods, m.toList ∈ Spec.ianaSafe := by decide

theorem unknown_tokens_are_unsafe : isUnsafeMethod (str% "PROPPATCH") = true ∧ isUnsafeMethod (str% "FOO") = true ∧
    isUnsafeMethod (str% "post") = true ∧ isUnsafeMethod (str% "POST") = true := by decide

/-- Main theorem: an exchange with an unsafe method that does not carry only-if-cached and whose
    origin call is answered with a 2xx/3xx status reads the index of its URL key and deletes that
    key and the id of EVERY reference the store returned for it — whatever the store answers. -/
theorem unsafe_invalidates (cfg : Cfg) (t0 : Int) (req : Req) (tr : List Step) (r : Result)
    (hunsafe : isUnsafeMethod req.method = true) (hu : isRequestMethodUnderstood req = false)
    (hoic : (parseCC req.header).onlyIfCached = false)
    (h : Run (roundTrip cfg t0 req) tr r) :
    ∃ ans tr1, tr = Step.origin req.method req.header none ans :: tr1 ∧
      ∀ rr t1 b, ans = .resp rr t1 b → isNonErrorStatus rr.status = true →
        ∃ refs tr2, tr1 = Step.getRefs (makeURLKey req) refs :: tr2 ∧
          Step.delete (makeURLKey req) ∈ tr2 ∧ ∀ ref ∈ refs.getD [], Step.delete ref.id ∈ tr2 := by
  cases roundTrip_paths cfg t0 req tr r h with
  | miss _ _ _ _ hu' => rw [hu] at hu'; cases hu'
  | hit _ _ _ _ _ hu' => rw [hu] at hu'; cases hu'
  | bypass _ hrun =>
    unfold handleUnrecognizedMethod at hrun
    simp only [hoic, Bool.false_eq_true, ↓reduceIte] at hrun
    cases hrun with
    | origin ans h1 =>
      refine ⟨ans, _, rfl, ?_⟩
      intro rr t1 b hans hne
      subst hans
      dsimp only at h1
      simp only [hunsafe, hne, Bool.and_self, ↓reduceIte] at h1
      cases h1 with
      | getRefs a h2 =>
        exact ⟨a, _, rfl, invalidateCache_deletes _ _ _ _ _ _ _ _ h2⟩

/-- a same-origin URI named by Location or Content-Location is invalidated too: its index is read, and
    its key and the id of every reference the store returned for it are deleted (or were already) -/
theorem same_origin_location_invalidated (cfg : Cfg) (req : Req) (respH : Header) (hdr : Str) (deleted : List Str)
    (cont : List Str → Prog) (tr : List Step) (r : Result) (g : LocGlue)
    (hne : (Header.get respH hdr).isEmpty = false) (hg : cfg.loc hdr = some g)
    (hs : sameOrigin req.scheme req.host (resolveLoc req g).scheme (resolveLoc req g).host = true)
    (h : Run (invalidateLocation cfg req respH hdr deleted cont) tr r) :
    ∃ a tr', tr = Step.getRefs (resolveLoc req g).key a :: tr' ∧
      ∃ tr1 tr2 d, tr' = tr1 ++ tr2 ∧ Run (cont d) tr2 r ∧
        (resolveLoc req g).key ∈ d ∧ (∀ ref ∈ a.getD [], ref.id ∈ d) ∧
        (∀ x ∈ d, x ∈ deleted ∨ Step.delete x ∈ tr1) :=
  invalidateLocation_same cfg req respH hdr deleted cont tr r g hne hg hs h

/-- "URIs of a different origin named in those fields stay cached": when the reply names no same-origin
    Location / Content-Location (absent, unresolvable, or another scheme / host / port — `//other/x`
    included), the exchange deletes the key of its own URL and the ids of the references the store
    returned for that key, and nothing else -/
theorem cross_origin_stays_cached (cfg : Cfg) (t0 : Int) (req : Req) (tr : List Step) (r : Result)
    (hu : isRequestMethodUnderstood req = false) (h : Run (roundTrip cfg t0 req) tr r) :
    ∀ x, Step.delete x ∈ tr →
      ∃ ans tr1, tr = Step.origin req.method req.header none ans :: tr1 ∧
        ∀ rr t1 b, ans = .resp rr t1 b →
          NotSameOrigin cfg req rr.header sLocation → NotSameOrigin cfg req rr.header sContentLocation →
          x = makeURLKey req ∨ ∃ refs, Step.getRefs (makeURLKey req) refs ∈ tr1 ∧ ∃ ref ∈ refs.getD [], x = ref.id :=
  unsafe_exchange_deletes_only_target cfg t0 req tr r hu h

end Httpcache.C07
