import Httpcache.Proofs.Store
/-
C07 — Successful unsafe requests invalidate what is stored for their target.

  "After a request whose method is not registered as safe … receives a 2xx or 3xx response through
   the transport, no response stored earlier for the equivalent target URI (any variant), nor for
   a same-origin URI named by that response's Location or Content-Location, is returned again
   without validation. URIs of a different origin named in those fields stay cached …"

Exchange-local theorems: which store keys such an exchange deletes, for every answer of the store.
That a deleted entry cannot be served later is the map semantics of the backend (C14); the
history-level statement is checked by the monitor on the implementation.
-/
namespace Httpcache.C07
open Httpcache

/-- every method the code treats as safe (table regenerated from internal/helpers.go) is
    registered as safe; anything else — POST, PUT, DELETE, PATCH, WebDAV write methods, unknown
    tokens — is unsafe -/
theorem safe_table : ∀ m ∈ Generated.safeMethods, m.toList ∈ Spec.ianaSafe := by decide

theorem unknown_tokens_are_unsafe : isUnsafeMethod (str% "PROPPATCH") = true ∧ isUnsafeMethod (str% "FOO") = true ∧
    isUnsafeMethod (str% "post") = true ∧ isUnsafeMethod (str% "POST") = true := by decide

/-- Main theorem: an exchange with an unsafe method that does not carry only-if-cached and whose
    origin call is answered with a 2xx/3xx status reads the index of its URL key and deletes that
    key and the id of EVERY reference the store returned for it — whatever the store answers. -/
theorem unsafe_invalidates (cfg : Cfg) (t0 : Int) (req : Req) (tr : List Step) (r : Result)
    (hunsafe : isUnsafeMethod req.method = true) (hu : isRequestMethodUnderstood req = false)
    (hoic : (parseCC req.header).onlyIfCached = false)
    (h : Run (roundTrip cfg t0 req) tr r) :
    ∃ ans tr1, tr = Step.origin req.method req.header none ans :: tr1 ∧
      ∀ rr t1 b, ans = .resp rr t1 b → isNonErrorStatus rr.status = true →
        ∃ refs tr2, tr1 = Step.getRefs (makeURLKey req) refs :: tr2 ∧
          Step.delete (makeURLKey req) ∈ tr2 ∧ ∀ ref ∈ refs.getD [], Step.delete ref.id ∈ tr2 := by
  cases roundTrip_paths cfg t0 req tr r h with
  | miss _ _ _ _ hu' => rw [hu] at hu'; cases hu'
  | hit _ _ _ _ _ hu' => rw [hu] at hu'; cases hu'
  | bypass _ hrun =>
    unfold handleUnrecognizedMethod at hrun
    simp only [hoic, Bool.false_eq_true, ↓reduceIte] at hrun
    cases hrun with
    | origin ans h1 =>
      refine ⟨ans, _, rfl, ?_⟩
      intro rr t1 b hans hne
      subst hans
      dsimp only at h1
      simp only [hunsafe, hne, Bool.and_self, ↓reduceIte] at h1
      cases h1 with
      | getRefs a h2 =>
        exact ⟨a, _, rfl, invalidateCache_deletes _ _ _ _ _ _ _ _ h2⟩

end Httpcache.C07
