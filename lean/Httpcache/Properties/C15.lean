import Httpcache.Proofs.FsAtomic
import Httpcache.Generated.Tables
/-
C15 — Store writes are atomic under concurrency, failed writes and crashes.

  "A Get on the file-system backend never returns a partial or mixed value: while Sets, Gets and
   Deletes of the same key run concurrently, and after a Set is cut short at any byte by a write
   failure or a process kill, Get returns in full a value previously passed to Set for that key,
   consistent with some linearisable order, or reports the key absent. …"

The model (Model/FsOps.lean) is the step list of the backend's operations over a file system with
inodes; any number of operations interleave at step granularity, a write may persist any prefix,
a writer may stop after any step. PARTIAL: atomicity of rename(2), the persistence of an open
file description's inode and durability after fsync are POSIX / kernel assumptions. The tie to
the code: the os.Root operations of `set`, in source order, are regenerated from the source and
compared with the model's step list (`set_step_list`); write cuts at every byte (RLIMIT_FSIZE in a
child process), SIGKILL of a writer and concurrent histories on the real backend are checked by the
harness and the register monitor.
-/
namespace Httpcache.C15
open Httpcache

/-- the implementation's `set` is: create directories, create a fresh temporary file, write, sync,
    close, rename over the destination (remove the temporary file on failure) — regenerated from
    store/fscache/fscache.go; a change back to create-truncate-write breaks this theorem -/
theorem set_step_list :
    Generated.fsSetOps = ["c.mkdirAll", "root.OpenFile", "f.Write", "f.Sync", "f.Close", "root.Rename", "root.Remove"] ∧
    -- the helper creates directories and nothing else (it retries os.Root.MkdirAll when a concurrent Set
    -- created a shared parent at the same moment)
    Generated.fsSetHelperOps = ["c.mkdirAll:root.MkdirAll"] := by
  decide

/-- Main theorem. From the initial state, after ANY interleaving of any number of Sets (at any
    stage, with any partial writes, abandoned at any point), Deletes and commits: a Get that opens
    key k obtains either nothing (absent) or an inode whose content is, in full, a value that was
    passed to a Set for k that started before; and whatever happens AFTER the open — further
    writes, renames, deletes, crashes — the bytes it then reads are still exactly that value. -/
theorem get_returns_whole_value (s s' : Fs) (k : Str) (i : Nat)
    (reach : FsSteps Fs.init s) (hopen : s.final k = some i) (later : FsSteps s s') :
    ∃ v, (k, v) ∈ s.written ∧ s'.content i = v := by
  have hinv : FsInv s := FsInv.init.steps reach
  obtain ⟨hp, v, hw, hc⟩ := hinv.finalOk k i hopen
  exact ⟨v, hw, by rw [(published_stable_steps hinv later i hp).1, hc]⟩

/-- a Set that is cut short (write failure, kill) before its rename does not change what any Get
    of any key observes: abandoning a writer, and any partial write, leave every final name and
    every published inode untouched -/
theorem failed_set_is_invisible (s : Fs) (w : Writer) (n : Nat) (hw : w ∈ s.writers) (hinv : FsInv s) (k : Str) (i : Nat)
    (hf : s.final k = some i) :
    let s1 : Fs := { s with content := setContent s.content w.ino (w.value.take n) }
    let s2 : Fs := { s1 with writers := s1.writers.filter (· ≠ w) }
    s2.final k = some i ∧ s2.content i = s.content i := by
  have hp := (hinv.finalOk k i hf).1
  have hne : i ≠ w.ino := fun he => (hinv.writerPrivate w hw).1 (he ▸ hp)
  exact ⟨hf, by simp [setContent, hne]⟩

/-- the linearisation points are single steps: a value becomes visible exactly at the rename -/
theorem visible_only_by_commit (s s' : Fs) (st : FsStep s s') (k : Str) (i : Nat)
    (hnew : s'.final k = some i) (hold : s.final k ≠ some i) :
    ∃ w, w ∈ s.writers ∧ w.key = k ∧ w.ino = i ∧ s.content i = w.value := by
  cases st with
  | beginSet k' v => exact absurd hnew hold
  | write w n hw => exact absurd hnew hold
  | abandon w hw => exact absurd hnew hold
  | commit w hw hc =>
    simp only [setFinal] at hnew
    split at hnew
    · rename_i hk; cases hnew; exact ⟨w, hw, hk.symm, rfl, hc⟩
    · exact absurd hnew hold
  | delete k' =>
    simp only [setFinal] at hnew
    split at hnew
    · cases hnew
    · exact absurd hnew hold

/-- Non-vacuity: a state with a committed value and a concurrent half-written Set of the same key. -/
example : ∃ s, FsSteps Fs.init s ∧ s.final (str% "k") = some 0 ∧ s.content 0 = (str% "old") ∧ s.content 1 = (str% "ne") := by
  let s1 : Fs := { Fs.init with content := setContent Fs.init.content 0 [], written := [(str% "k", str% "old")],
                                writers := [⟨str% "k", str% "old", 0⟩], nextIno := 1 }
  have h1 : FsStep Fs.init s1 := FsStep.beginSet Fs.init (str% "k") (str% "old")
  let s2 : Fs := { s1 with content := setContent s1.content 0 ((str% "old").take 3) }
  have h2 : FsStep s1 s2 := FsStep.write s1 ⟨str% "k", str% "old", 0⟩ 3 (by simp [s1])
  let s3 : Fs := { s2 with final := setFinal s2.final (str% "k") (some 0), published := 0 :: s2.published,
                           writers := s2.writers.filter (· ≠ ⟨str% "k", str% "old", 0⟩) }
  have h3 : FsStep s2 s3 := FsStep.commit s2 ⟨str% "k", str% "old", 0⟩ (by simp [s2, s1]) (by simp [s2, setContent])
  let s4 : Fs := { s3 with content := setContent s3.content s3.nextIno [], written := (str% "k", str% "new") :: s3.written,
                           writers := ⟨str% "k", str% "new", s3.nextIno⟩ :: s3.writers, nextIno := s3.nextIno + 1 }
  have h4 : FsStep s3 s4 := FsStep.beginSet s3 (str% "k") (str% "new")
  let s5 : Fs := { s4 with content := setContent s4.content 1 ((str% "new").take 2) }
  have h5 : FsStep s4 s5 := FsStep.write s4 ⟨str% "k", str% "new", 1⟩ 2 (by simp [s4, s3, s2, s1])
  exact ⟨s5, FsSteps.step (FsSteps.step (FsSteps.step (FsSteps.step (FsSteps.step (FsSteps.refl _) h1) h2) h3) h4) h5,
    by simp [s5, s4, s3, setFinal], by simp [s5, s4, s3, s2, s1, setContent], by simp [s5, setContent]⟩

end Httpcache.C15
