import Httpcache.Proofs.Interleave
import Httpcache.Properties.C01
import Httpcache.Properties.C18
/-
C16 — Concurrent use of one transport is race-free; responses are caller-owned.

  "Any number of goroutines may call RoundTrip on one transport concurrently - including while
   background revalidations run - without data races, and each call returns a self-consistent
   response that the sequential rules permit (right resource, right variant, intact body). Once a
   response has been returned the cache never reads or writes its header map or body again, and it
   never modifies the caller's request."

PARTIAL: data-race freedom is a statement about the Go memory model; it is evidenced by the race
detector on seeded concurrent histories with an adversarial caller that keeps writing the header
map of every response it received, not proved. What is proved: under EVERY interleaving at
store / origin-operation granularity, with the shared store answering anything, each call's
execution is an execution of its own program — so every exchange-local theorem (C01, C02, C06,
C10, C11, C13, C18, C20) holds for each concurrent call; and the background program never looks
at the object handed to the caller. "Right variant" across a lost index update additionally needs
injectivity of the variant hash (see C04) and is checked by the provenance monitor.
-/
namespace Httpcache.C16
open Httpcache

/-- every interleaving of any number of round trips (and of the background programs they spawn):
    a call that has returned has performed an execution of its own program -/
theorem all_interleavings_are_runs (cfg : Cfg) (calls : List (Int × Req)) (pool : List Thread)
    (h : PoolSteps ((calls.map fun c => roundTrip cfg c.1 c.2).map fun p => ⟨p, []⟩) pool)
    (i : Nat) (t0 : Int) (req : Req) (hc : calls[i]? = some (t0, req)) (tr : List Step) (r : Result)
    (hfin : pool[i]? = some ⟨.ret r, tr⟩) : Run (roundTrip cfg t0 req) tr r := by
  apply every_interleaving_is_a_run _ pool h i
  · simp [hc]
  · exact hfin

/-- hence, e.g., C01 for each of the concurrent calls, whatever the others (and the background
    revalidations) do to the store in between -/
theorem concurrent_calls_never_serve_stale (cfg : Cfg) (calls : List (Int × Req)) (pool : List Thread)
    (h : PoolSteps ((calls.map fun c => roundTrip cfg c.1 c.2).map fun p => ⟨p, []⟩) pool)
    (i : Nat) (t0 : Int) (req : Req) (hc : calls[i]? = some (t0, req)) (tr : List Step) (r : Result)
    (hfin : pool[i]? = some ⟨.ret r, tr⟩) (hnc : contacted tr = false) :
    r = .resp make504 ∨
    ∃ id e0, Step.getEntry id (some e0) ∈ tr ∧
      ((parsedEntry e0).resp.status ≠ 304 → TimesOK (parsedEntry e0) →
        ∃ x, r = .resp x ∧ C01Allowed cfg.glue req.header (parsedEntry e0) t0 (spawned tr)) :=
  C01.served_without_contact_is_fresh cfg t0 req tr r (all_interleavings_are_runs cfg calls pool h i t0 req hc tr r hfin) hnc

/-- and C18: only-if-cached never reaches the origin, under any interleaving -/
theorem concurrent_only_if_cached (cfg : Cfg) (calls : List (Int × Req)) (pool : List Thread)
    (h : PoolSteps ((calls.map fun c => roundTrip cfg c.1 c.2).map fun p => ⟨p, []⟩) pool)
    (i : Nat) (t0 : Int) (req : Req) (hc : calls[i]? = some (t0, req)) (tr : List Step) (r : Result)
    (hfin : pool[i]? = some ⟨.ret r, tr⟩)
    (hoic : Spec.hasDirective modelReader req.header (str% "only-if-cached") = true) :
    contacted tr = false ∧ spawned tr = false :=
  let h' := C18.oic_no_origin cfg t0 req tr r (all_interleavings_are_runs cfg calls pool h i t0 req hc tr r hfin) hoic
  ⟨h'.1, h'.2.1⟩

/-- Ownership: the background program depends on the entry whose response was handed to the caller
    only through its identifier and its two timestamps — never through its header list or body.
    (It re-reads its own copy from the store.) -/
theorem background_ignores_returned_object (cfg : Cfg) (method : Str) (condH clientH : Header) (key : Str)
    (e e' : Entry) (f : Freshness) (ccReq : Directives) (start : Int)
    (hid : e.id = e'.id) (h1 : e.requestedAt = e'.requestedAt) (h2 : e.receivedAt = e'.receivedAt) :
    backgroundRevalidate cfg method condH clientH key e f ccReq start = backgroundRevalidate cfg method condH clientH key e' f ccReq start := by
  unfold backgroundRevalidate
  simp only [hid, h1, h2]

/-- structural facts regenerated from the source: the only `go` statements of the transport, and
    the only functions that assign transport fields (construction and options — nothing at request
    time, so the transport itself holds no mutable state besides the store) -/
theorem structural_facts :
    Generated.goStatementsRoundtripper = ["handleStaleWhileRevalidate", "backgroundRevalidate"] ∧
    Generated.transportFieldWriters = ["newTransport"] ∧
    Generated.transportFieldWritersOptions = ["WithLogger", "WithSWRTimeout", "WithUpstream"] ∧
    -- the upstream is called in one place, a wrapper that only allocates a missing Header map, and the wrapper in three
    Generated.upstreamCallSites = ["callUpstream"] ∧
    Generated.upstreamWrapperCallSites = ["handleUnrecognizedMethod", "handleUnrecognizedMethod", "roundTripTimed"] := by decide

end Httpcache.C16
