import Httpcache.Proofs.Validation
import Httpcache.Proofs.StoreContent
/-
C06 — Responses that must not be stored never reach the store.

  "Nothing of a response is written to the backing store, or later served from it, when the
   request or the response carries no-store, the request is not a plain GET (other method, or a
   Range request), the status is 1xx, 206 or 304, the status is not understood while
   must-understand is present, the response has no explicit freshness and a status that is not
   heuristically cacheable, or its body could not be read completely. In particular an
   unconditional GET is never answered with a 304."
-/
namespace Httpcache.C06
open Httpcache

/-- Every store write of an exchange is justified. For every request, clock and environment: an
    exchange writes nothing, or the request is a plain GET and the writes directly follow its
    single origin call and are (a) the write-back of the entry that was read, with unchanged
    status and body, after a 304 that answers the stored validators (no precondition of the client's
    own went upstream in their place, and the merged response is one the storability evaluator accepts — `WritesAfter.freshen`,
    `.restore`), or (b) the writes of one StoreResponse call for a reply that is
    not a 304, for which the storability evaluator said yes and whose body was read completely
    (`StoreWrites`: nothing if the body failed; no index write if the entry write failed). -/
theorem writes_justified (cfg : Cfg) (t0 : Int) (req : Req) (tr : List Step) (r : Result)
    (h : Run (roundTrip cfg t0 req) tr r) :
    wrote tr = false ∨
    (isRequestMethodUnderstood req = true ∧
     ∃ pre m hd dl ans post stored, tr = pre ++ Step.origin m hd dl ans :: post ∧ wrote pre = false ∧
       WritesAfter req (makeURLKey req) stored (fixAns cfg ans) post ∧
       (∀ e, stored = some e → ∃ id e0, Step.getEntry id (some e0) ∈ pre ∧ e = parsedEntry e0)) := by
  cases roundTrip_paths cfg t0 req tr r h with
  | bypass hu hrun => exact Or.inl (bypass_no_write _ _ _ _ _ hrun)
  | miss pre tr1 refs ri hu hpre heq hrun =>
    have hpre_w : wrote pre = false := by
      clear heq hrun
      induction pre with
      | nil => rfl
      | cons s ss ih =>
        simp only [List.all_cons, Bool.and_eq_true] at hpre
        have := ih hpre.2
        cases s <;> simp_all [wrote, Step.isWrite, Step.isRead]
    cases miss_writes _ _ _ _ _ _ _ _ hrun with
    | inl h0 => left; rw [heq, h0, List.append_nil]; exact hpre_w
    | inr h1 =>
      obtain ⟨ans, post, ht, hw⟩ := h1
      right
      refine ⟨hu, pre, _, _, _, ans, post, none, by rw [heq, ht], hpre_w, hw, ?_⟩
      intro e he; cases he
  | hit refs sorted i e0 tr2 hu hvm heq hrun =>
    have hget := understood_is_get req hu
    -- the hit path: either no origin call (then no write), or the validation
    unfold handleCacheHit at hrun
    simp only [] at hrun
    have reval : ∀ f mv trx, Run (revalidateProg cfg t0 req (parsedEntry e0) (makeURLKey req) sorted i f (parseCC req.header) mv) trx r →
        ∃ ans post, trx = Step.origin req.method (withConditional req.header (parsedEntry e0).resp.header) none ans :: post ∧
          WritesAfter req (makeURLKey req) (some (parsedEntry e0)) (fixAns cfg ans) post := by
      intro f mv trx hx
      unfold revalidateProg at hx
      cases hx with
      | origin ans h1 =>
        rw [hget] at h1
        exact ⟨ans, _, rfl, validation_writes _ _ _ _ _ _ _ _ _ _ _ _ h1⟩
    have fin : ∀ trx, (∃ ans post, trx = Step.origin req.method (withConditional req.header (parsedEntry e0).resp.header) none ans :: post ∧
          WritesAfter req (makeURLKey req) (some (parsedEntry e0)) (fixAns cfg ans) post) → tr2 = trx →
        (isRequestMethodUnderstood req = true ∧
         ∃ pre m hd dl ans post stored, tr = pre ++ Step.origin m hd dl ans :: post ∧ wrote pre = false ∧
           WritesAfter req (makeURLKey req) stored (fixAns cfg ans) post ∧
           (∀ e, stored = some e → ∃ id e0, Step.getEntry id (some e0) ∈ pre ∧ e = parsedEntry e0)) := by
      intro trx hx htx
      obtain ⟨ans, post, ht, hw⟩ := hx
      refine ⟨hu, [_, _], _, _, _, ans, post, some (parsedEntry e0), by rw [heq, htx, ht]; rfl, rfl, hw, ?_⟩
      intro e he
      cases he
      exact ⟨_, e0, List.mem_cons_of_mem _ List.mem_cons_self, rfl⟩
    split at hrun
    · split at hrun
      · cases hrun; left; rw [heq]; rfl
      · right; exact fin _ (reval _ _ _ hrun) rfl
    · split at hrun
      · cases hrun; left; rw [heq]; rfl
      · split at hrun
        · cases hrun; left; rw [heq]; rfl
        · split at hrun
          · split at hrun
            · cases hrun with
              | spawn h' => cases h'; left; rw [heq]; rfl
            · right; exact fin _ (reval _ _ _ hrun) rfl
          · right; exact fin _ (reval _ _ _ hrun) rfl

/-- 206 and every 1xx status are outside the "understood" table regenerated from
    internal/cacheabilityevaluator.go (editing the table re-checks this). -/
theorem understood_table_excludes : 206 ∉ Generated.statusUnderstood ∧ ∀ c ∈ Generated.statusUnderstood, 200 ≤ c := by
  decide

theorem get_nonempty_has (h : Header) (n : Str) (hne : (Header.get h n).isEmpty = false) : Header.has h n = true := by
  unfold Header.get at hne
  unfold Header.has
  cases hf : h.find? (fun p => p.1 = n) with
  | none => simp [hf] at hne
  | some p =>
    have := List.find?_some hf
    have hm := List.mem_of_find?_eq_some hf
    simp only [List.any_eq_true]
    exact ⟨p, hm, this⟩

/-- What the storability evaluator's "yes" means, in RFC terms (for a reply that is not a 304,
    which the call sites exclude): a final status that is not 206; no no-store on either side;
    must-understand only with an understood status; and explicit freshness (max-age, Expires,
    public) or a status that RFC 9110 lists as heuristically cacheable. -/
theorem canStore_sound (r : Resp) (reqH : Header) (h304 : r.status ≠ 304)
    (h : canStoreResponse r (parseCC reqH) (parseCC r.header) = true) :
    200 ≤ r.status ∧ r.status ≠ 206 ∧
    Spec.hasDirective modelReader reqH (str% "no-store") = false ∧
    Spec.hasDirective modelReader r.header (str% "no-store") = false ∧
    (Spec.hasDirective modelReader r.header (str% "must-understand") = true → r.status ∈ Generated.statusUnderstood) ∧
    (Spec.hasDirective modelReader r.header (str% "max-age") = true ∨ Header.has r.header sExpires = true ∨
     Spec.hasDirective modelReader r.header (str% "public") = true ∨ r.status ∈ Spec.heuristicallyCacheable) := by
  unfold canStoreResponse at h
  split at h
  · cases h
  · rename_i h1
    split at h
    · cases h
    · rename_i h2
      split at h
      · cases h
      · rename_i h3
        simp only [Bool.or_eq_true, decide_eq_true_eq, not_or, Nat.not_lt, Bool.and_eq_true, Bool.not_eq_true',
          not_and, Bool.not_eq_false] at h1 h2 h3
        rw [has_eq, has_eq, has_eq, has_eq, has_eq]
        refine ⟨h1.1.1, ?_, ?_, ?_, ?_, ?_⟩
        · intro h206
          have := h2 (Or.inl (Or.inl h206))
          have hx := understood_table_excludes.1
          rw [h206] at this
          simp [isStatusUnderstood] at this
          exact hx this
        · simpa [Directives.noStore] using h3.2
        · simpa [Directives.noStore] using h3.1
        · intro hmu
          have := h2 (Or.inr (by simpa [Directives.mustUnderstand] using hmu))
          simpa [isStatusUnderstood] using this
        · simp only [Bool.or_eq_true, Bool.not_eq_true'] at h
          rcases h with ((hp | he) | hm) | hh
          · right; right; left; simpa [Directives.isPublic] using hp
          · right; left; exact get_nonempty_has _ _ (by simpa using he)
          · left; simpa [Directives.maxAgePresent] using hm
          · right; right; right
            have := heuristic_table_sub r.status (by simpa [isHeuristicStatus] using hh)
            cases this with
            | inl h' => exact absurd h' h304
            | inr h' => exact h'

/-- A 304 that turns the stored response into one that may not be stored is not written. For every stored
    entry, request and 304: when the storability evaluator says no to the stored response with the merged
    fields — by `canStore_sound`, read backwards, e.g. must-understand now present over a status that is not understood, or no
    max-age, Expires or public left on a status that is not heuristically cacheable — the validation writes
    NOTHING; the caller still gets the merged response, marked REVALIDATED. (On the pinned tree the entry
    was written back and later served from the store: a stored `302, max-age=0` turned by a 304 into
    `302, must-understand, max-age=3600`.) -/
theorem unstorable_merge_is_not_written (cfg : Cfg) (reqH : Header) (key : Str) (stored : Entry) (refs : List Ref) (ri : Option Nat)
    (f : Freshness) (ccReq : Directives) (mv : Bool) (start t1 : Int) (r : Resp) (b : Bool) (tr : List Step) (res : Result)
    (h304 : r.status = 304) (hval : clientPreconditionForwarded reqH stored.resp.header = false)
    (hcs : canStoreResponse (respWith stored.resp (updateStoredHeaders (Header.del stored.resp.header sAge) r.header)) ccReq
             (parseCC (updateStoredHeaders (Header.del stored.resp.header sAge) r.header)) = false)
    (h : Run (handleValidation cfg sGET reqH key stored refs ri f ccReq mv start (.resp r t1 b) (fun r => .ret r)) tr res) :
    tr = [] ∧
    res = .resp (respWith stored.resp (applyStatus .revalidated (updateStoredHeaders (Header.del stored.resp.header sAge) r.header))) := by
  unfold handleValidation at h
  simp only [h304, hval, decide_true, Bool.and_self, Bool.not_false, ↓reduceIte] at h
  simp only [hcs, Bool.not_false, Bool.or_true, ↓reduceIte] at h
  cases h
  exact ⟨rfl, rfl⟩

/-- the hypotheses are met by the reported case: stored `302, max-age=0, ETag`, 304 carrying
    `must-understand, max-age=3600` -/
example : canStoreResponse
    (respWith { status := 302, header := [(sCacheControl, str% "max-age=0"), (sETag, str% "\"a\"")], body := [] }
      (updateStoredHeaders (Header.del [(sCacheControl, str% "max-age=0"), (sETag, str% "\"a\"")] sAge)
        [(sCacheControl, str% "must-understand, max-age=3600")]))
    [] (parseCC (updateStoredHeaders (Header.del [(sCacheControl, str% "max-age=0"), (sETag, str% "\"a\"")] sAge)
        [(sCacheControl, str% "must-understand, max-age=3600")])) = false := by decide

/-- What the store HOLDS, for every history. Starting from an empty store, after any sequence of foreground
    exchanges and background revalidations — any requests, clocks and origin answers, writes failing or not —
    in which every entry a program reads is the one the store held when it started (`ReachableEntries`), every
    stored response has a final status (200–599) that is neither 206 nor 304. So no 1xx, no partial response and
    no 304 is ever in the store, hence none is ever served from it: "good in ⇒ good out" holds for the
    foreground exchange (`foreground_good`, over all three paths) and for the background revalidation
    (`background_good`), and a freshening write keeps the status of the entry it read. -/
theorem store_holds_only_final_full_responses (kv : Str → Option Entry) (h : ReachableEntries kv) :
    ∀ k e, kv k = some e → 200 ≤ e.resp.status ∧ e.resp.status < 600 ∧ e.resp.status ≠ 206 ∧ e.resp.status ≠ 304 :=
  reachable_entries_good kv h

/-- non-vacuity: a miss that stores a 200 is a step of `ReachableEntries`, and the store then holds that entry -/
example : ∃ kv, ReachableEntries kv ∧ ∃ k e, kv k = some e ∧ e.resp.status = 200 := by
  let env : Env := { refs := fun _ => none, entry := fun _ => none, setEntry := fun _ _ => true, setRefs := fun _ _ => true,
                     origin := fun _ _ _ => .resp { status := 200, header := [(sCacheControl, str% "max-age=60")], body := [] } 0 true }
  let cfg : Cfg := { glue := ⟨fun _ => none⟩, normQ := fun _ v => v, loc := fun _ => none, swrTimeout := 1 }
  let req : Req := { method := sGET, scheme := str% "http", host := str% "a", path := str% "/", query := [], opaq := [], header := [] }
  refine ⟨applyEntryTrace (fun _ => none) (exec env (roundTrip cfg 0 req)).1,
    .foreground cfg 0 req _ _ .empty (exec_runs env _) ?_, (str% "http://a/#0"), ?_⟩
  · intro id e0 hm
    exfalso
    have : (exec env (roundTrip cfg 0 req)).1.all (fun st => match st with | .getEntry _ (some _) => false | _ => true) = true := by
      decide +kernel
    have := List.all_eq_true.mp this _ hm
    simp at this
  · decide +kernel

end Httpcache.C06
