import Httpcache.Proofs.Hit
/-
C01 — A stale stored response is never served without explicit permission.

  "Whenever the transport answers a GET from its store without contacting the origin in that
   exchange, the stored response's current age (RFC 9111 §4.2.3) is strictly below its freshness
   lifetime (§4.2.1-4.2.2 …), both taken with saturating arithmetic. The only exceptions are
   staleness the request explicitly allows (max-stale, only-if-cached) or the stored response's
   own stale-while-revalidate window."

The theorems quantify over every request, every clock reading and EVERY answer of the store
(`Run` constrains nothing): they hold at any position of any history. `Spec.currentAge`,
`Spec.freshnessLifetime`, `Spec.isFresh`, `Spec.maxStaleCovers`, `Spec.withinWindow` are the
RFC-level definitions of Spec/Defs.lean, read through the model's Cache-Control reader
(`modelReader`; C12 relates that reader to the RFC grammar).
-/
namespace Httpcache.C01
open Httpcache

/-- Main theorem. An exchange that did not contact the origin returns the synthesised 504, or a
    response built from an entry `e0` it read from the store, and then (for an entry that is not
    a 304 — none is ever stored, C06 — and whose receive time is representable) that response is
    fresh by the RFC definitions, or the request carries only-if-cached, or its max-stale covers
    the staleness, or the staleness is inside the stored stale-while-revalidate window and a
    background revalidation was spawned. -/
theorem served_without_contact_is_fresh (cfg : Cfg) (t0 : Int) (req : Req) (tr : List Step) (r : Result)
    (h : Run (roundTrip cfg t0 req) tr r) (hc : contacted tr = false) :
    r = .resp make504 ∨
    ∃ id e0, Step.getEntry id (some e0) ∈ tr ∧
      ((parsedEntry e0).resp.status ≠ 304 → TimesOK (parsedEntry e0) →
        ∃ x, r = .resp x ∧ C01Allowed cfg.glue req.header (parsedEntry e0) t0 (spawned tr)) := by
  unfold roundTrip at h
  simp only [] at h
  split at h
  · -- method not understood: the first node is the origin call
    unfold handleUnrecognizedMethod at h
    split at h
    · cases h; left; rfl
    · cases h; simp [contacted, Step.isOrigin] at hc
  · cases h with
    | getRefs a h1 =>
      rename_i tr1
      have hct : contacted tr1 = false := by simpa [contacted, Step.isOrigin] using hc
      dsimp only at h1
      split at h1
      · left; exact (miss_no_contact _ _ _ _ _ _ _ _ h1 hct).1
      · left; exact (miss_no_contact _ _ _ _ _ _ _ _ h1 hct).1
      · split at h1
        · left; exact (miss_no_contact _ _ _ _ _ _ _ _ h1 hct).1
        · cases h1 with
          | getEntry a2 h2 =>
            rename_i tr2
            have hct2 : contacted tr2 = false := by simpa [contacted, Step.isOrigin] using hct
            dsimp only at h2
            split at h2
            · left; exact (miss_no_contact _ _ _ _ _ _ _ _ h2 hct2).1
            · rename_i e0
              by_cases hs : (parsedEntry e0).resp.status ≠ 304
              · by_cases hT : TimesOK (parsedEntry e0)
                · cases hit_no_contact cfg t0 req (parsedEntry e0) _ _ _ hs hT _ _ h2 hct2 with
                  | inl h504 => left; exact h504
                  | inr hx =>
                    obtain ⟨x, hx1, hx2⟩ := hx
                    right
                    refine ⟨_, e0, List.mem_cons_of_mem _ List.mem_cons_self, fun _ _ => ⟨x, hx1, ?_⟩⟩
                    simpa [spawned, Step.isSpawn] using hx2
                · right; exact ⟨_, e0, List.mem_cons_of_mem _ List.mem_cons_self, fun _ hT' => absurd hT' hT⟩
              · right; exact ⟨_, e0, List.mem_cons_of_mem _ List.mem_cons_self, fun hs' _ => absurd hs' hs⟩

/-- The code's heuristic-status table (regenerated from internal/cacheabilityevaluator.go on every
    run) only contains statuses that RFC 9110 §15.1 declares heuristically cacheable, plus 304,
    which is never stored (C06). Editing the table in Go re-checks this theorem. -/
theorem heuristic_table_within_rfc :
    ∀ c ∈ Generated.heuristicStatus, c = 304 ∨ c ∈ Spec.heuristicallyCacheable := heuristic_table_sub

/-- delta-seconds never wrap around: for EVERY byte string the reader yields a non-negative
    number of nanoseconds, and a digit string of value v yields at least min(v, 2^31) seconds. -/
theorem deltaSeconds_saturates (s : Str) (d : Int) (h : parseDeltaSeconds s = some d) :
    0 ≤ d ∧ d ≥ min ((natOfDigits s : Nat) : Int) 2147483648 * nsPerSec := by
  rw [parseDeltaSeconds_eq_spec] at h
  have hb := spec_delta_bounds s d h
  refine ⟨hb.1, ?_⟩
  unfold Spec.deltaSeconds at h
  split at h
  · cases h
  · cases h
    unfold maxDeltaSeconds nsPerSec; omega

/-- the current age of a stored response never decreases as time passes -/
theorem age_monotone (parse : Str → Option Int) (s : Spec.Stored) (t1 t2 : Int) (h : t1 ≤ t2) :
    Spec.currentAge parse s t1 ≤ Spec.currentAge parse s t2 := by
  unfold Spec.currentAge
  simp only []
  apply sat_mono
  have : sat (t1 - s.responseTime) ≤ sat (t2 - s.responseTime) := sat_mono (by omega)
  omega

/-- the model's age is exactly the RFC 9111 §4.2.3 age (saturating), for every entry -/
theorem model_age_is_rfc_age (g : Glue) (now : Int) (e : Entry) (hT : TimesOK e) :
    currentAge g now e = Spec.currentAge g.parseTime (Spec.storedOfEntry e) now := age_eq g now e hT

/-- A directive given more than once: the parser keeps the FIRST occurrence (RFC 9111 §4.2.1), for
    every directive other than no-cache and whatever the later occurrence says — a later
    `max-age=31536000` cannot extend a `max-age=0` (the pinned parser kept the last one). -/
theorem first_occurrence_is_kept (m : Directives) (k prev v : Str) (hk : k ≠ sNoCache)
    (hp : alookup k m = some prev) : directiveInsert m k v = m := by
  unfold directiveInsert; simp [hp, hk]

set_option maxRecDepth 8000 in
example : (parseCC [(sCacheControl, str% "max-age=0, max-age=9")]).maxAge = some 0 := by decide

/-- Non-vacuity: a concrete exchange that is answered from the store without origin contact
    (so the hypotheses of the main theorem are satisfiable, with a response other than the 504). -/
def exGlue : Glue := ⟨fun s => if s = (str% "D") then some 100 else none⟩
def exCfg : Cfg := { glue := exGlue, normQ := fun _ v => v, loc := fun _ => none, swrTimeout := 5000000000 }
def exReq : Req := { method := sGET, scheme := str% "http", host := str% "a", path := str% "/", query := [], opaq := [], header := [] }
def exResp : Resp := { status := 200, header := [(sDate, str% "D"), (sCacheControl, str% "max-age=60")], body := str% "b" }
def exEntry : Entry := { id := str% "http://a/#0", requestedAt := 100000000000, receivedAt := 100000000000, resp := exResp }
def exRef : Ref := { id := str% "http://a/#0", vary := [], resolved := [], receivedAt := none }
def exTrace : List Step := [.getRefs (str% "http://a/") (some [exRef]), .getEntry (str% "http://a/#0") (some exEntry)]

example : ∃ r, Run (roundTrip exCfg 105000000000 exReq) exTrace r ∧ contacted exTrace = false ∧ r ≠ .resp make504 :=
  ⟨_, Run.getRefs _ (Run.getEntry _ (Run.ret _)), by decide, by decide⟩

end Httpcache.C01
