import Httpcache.Proofs.CcRender
/-
C12 — Equivalent spellings of Cache-Control behave identically.

  "Caching behaviour depends only on the meaning of the Cache-Control directives, not their
   spelling: directive names in any letter case, optional whitespace, empty list elements,
   arguments given as token or quoted-string, directives split across several Cache-Control field
   lines, any directive order and unknown extension directives mixed in all produce the same
   store / reuse / validate decisions as the canonical single-line lower-case form. Numeric
   arguments too large to represent act as a value of at least 2^31 seconds instead of wrapping
   around."

Every decision of the model reads Cache-Control through `parseCC` and then only through lookups
(`alookup`) in the resulting association list. The theorems below say that those lookups do not
depend on the spelling. PARTIAL: the single composed statement `parseCC (render sp ds) = canon ds`
over an explicit spelling datatype is not assembled; its ingredients are proved separately (list
syntax for all well-formed elements including quoted-strings, `quoted_elements`), and the metamorphic check runs canonical / respelled history
pairs (including quoted-pairs and quoted lists) through the real transport and the model.
-/
namespace Httpcache.C12
open Httpcache

/-- optional white space and empty list elements: for EVERY list of elements without quoting
    syntax, written with arbitrary OWS and arbitrarily many empty elements between commas, the
    tokenizer yields exactly the trimmed non-empty elements in order -/
theorem ows_and_empty_elements (elems : List Str) (hp : ∀ e ∈ elems, e.all plainChar = true) :
    trimmedCSV (joinWith [','] elems) = (elems.map trimString).filter (fun p => !p.isEmpty) :=
  trimmedCSV_join elems hp

/-- the same with quoting syntax: for EVERY list of well-formed elements (`closedElem`: quoted-strings
    closed, no quoted-pair cut off, commas only inside quotes or escaped) the tokenizer yields exactly
    the trimmed non-empty elements, so a directive that follows a quoted-string — whatever it contains,
    escaped quotes and backslashes included — is never swallowed into it -/
theorem quoted_elements (elems : List Str) (hp : ∀ e ∈ elems, closedElem e = true) :
    trimmedCSV (joinWith [','] elems) = (elems.map trimString).filter (fun p => !p.isEmpty) :=
  trimmedCSV_join_closed elems hp

example : closedElem (str% "ext=\"C:\\\\\"") = true := by decide
example : closedElem (str% " private=\"a, b\" ") = true := by decide
/-- (test) a quoted-string ending in an escaped backslash closes where it should -/
example : trimmedCSV (str% "max-age=3600, ext=\"C:\\\\\", no-store") = [str% "max-age=3600", str% "ext=\"C:\\\\\"", str% "no-store"] := by decide


/-- THE COMPOSED STATEMENT. A Cache-Control value written as any number of field lines, each a list of
    elements — directives whose names are in any letter case, optional white space around every
    element, empty elements, arguments as token or as quoted-string — is read as the insertion, in
    order, of (canonical lower-case name, argument text) of its directives, and of nothing else. -/
theorem spelling_is_irrelevant (lines : List (List Elem)) (hne : ∀ l ∈ lines, l ≠ []) (ok : ∀ l ∈ lines, ∀ e ∈ l, e.OK) :
    parseCC (ccHeader lines) = dInsertAll [] (lines.flatten.filterMap Elem.pair?) :=
  parse_render lines hne ok

/-- hence two ways of writing the same directives (same names up to case, same argument texts, same
    order; any white space, empty elements and line splits) are parsed identically -/
theorem same_directives_same_parse (l1 l2 : List (List Elem)) (h1 : ∀ l ∈ l1, l ≠ []) (h2 : ∀ l ∈ l2, l ≠ [])
    (ok1 : ∀ l ∈ l1, ∀ e ∈ l, e.OK) (ok2 : ∀ l ∈ l2, ∀ e ∈ l, e.OK)
    (h : l1.flatten.filterMap Elem.pair? = l2.flatten.filterMap Elem.pair?) :
    parseCC (ccHeader l1) = parseCC (ccHeader l2) := by
  rw [parse_render l1 h1 ok1, parse_render l2 h2 ok2, h]

/-- non-vacuity (a test): `No-Store` on a second line after ` MAX-AGE="5" ,, ` -/
example : parseCC (ccHeader [[.dir ⟨str% "max-age", some (str% "5")⟩ ⟨str% "MAX-AGE", [' '], [' '], true⟩, .empty [], .empty [' ']],
                             [.dir ⟨str% "no-store", none⟩ ⟨str% "No-Store", [], ['\t'], false⟩]]) =
    dInsertAll [] [(str% "max-age", str% "\"5\""), (str% "no-store", [])] := by
  rw [spelling_is_irrelevant]
  · rfl
  · intro l hl; simp at hl; rcases hl with rfl | rfl <;> simp
  · intro l hl e he
    simp at hl
    rcases hl with rfl | rfl
    · simp at he
      rcases he with rfl | rfl | rfl
      · exact ⟨by decide, by decide, by decide, (by intro a ha; cases ha; decide), by decide, by decide⟩
      · show ([] : Str).all isTextprotoSpace = true; rfl
      · show ([' '] : Str).all isTextprotoSpace = true; decide
    · simp at he
      subst he
      exact ⟨by decide, by decide, by decide, (by intro a ha; cases ha), by decide, by decide⟩

/-- several Cache-Control field lines are read as one list (RFC 9110 §5.3): the insertion, in order, of the
    directives of every line — each line split on its own, because a quoted-string cannot extend over
    field lines (the pinned parser joined the lines with "," first, so that an unterminated quote on one
    line swallowed the directives of the next: `x="unterminated` + `no-store`) -/
theorem field_lines_combined (h : Header) (hne : (joinWith [','] (Header.values h sCacheControl)).isEmpty = false) :
    parseCC h = dInsertAll [] ((Header.values h sCacheControl).flatMap fun l => (trimmedCSV l).filterMap directiveOfPart) := by
  unfold parseCC
  simp only [hne, Bool.false_eq_true, ↓reduceIte]
  exact parseLines_pairs _ []

/-- a malformed first line does not hide what the second line says -/
example : (parseCC [(sCacheControl, str% "x=\"unterminated"), (sCacheControl, str% "no-store")]).noStore = true := by decide

/-- the elements of several lines are the elements of their concatenation -/
theorem lines_are_one_list (ls : List (List Str)) (hne : ∀ l ∈ ls, l ≠ []) :
    joinWith [','] (ls.map (joinWith [','])) = joinWith [','] ls.flatten := by
  induction ls with
  | nil => rfl
  | cons l rest ih =>
    have ihr := ih (fun x hx => hne x (List.mem_cons_of_mem _ hx))
    have hl := hne l List.mem_cons_self
    cases rest with
    | nil => simp [joinWith]
    | cons l2 rest2 =>
      simp only [List.map_cons, joinWith, List.flatten_cons] at ihr ⊢
      rw [ihr]
      have hl2 := hne l2 (List.mem_cons_of_mem _ List.mem_cons_self)
      -- joinWith over an append of two non-empty lists
      have app : ∀ (a b : List Str), a ≠ [] → b ≠ [] → joinWith [','] (a ++ b) = joinWith [','] a ++ [','] ++ joinWith [','] b := by
        intro a
        induction a with
        | nil => intro b h; exact absurd rfl h
        | cons x xs iha =>
          intro b _ hb
          cases xs with
          | nil =>
            cases b with
            | nil => exact absurd rfl hb
            | cons y ys => simp [joinWith]
          | cons x2 xs2 =>
            have := iha b (by simp) hb
            simp only [List.cons_append, joinWith] at this ⊢
            rw [this]; simp [List.append_assoc]
      have hrest : (l2 ++ rest2.flatten) ≠ [] := by
        cases l2 with
        | nil => exact absurd rfl hl2
        | cons _ _ => simp
      exact (app l (l2 ++ rest2.flatten) hl hrest).symm

/-- a directive is its lower-cased name and its OWS-trimmed argument -/
theorem directive_reading (n a : Str) (hn : '=' ∉ n) (hne : n ≠ []) :
    directiveOfPart (n ++ '=' :: a) = some (lowerASCII n, trimString a) := directive_with_arg n a hn hne

/-- directive names are case-insensitive -/
theorem name_case_irrelevant (n1 n2 a : Str) (h1 : '=' ∉ n1) (h2 : '=' ∉ n2) (hne1 : n1 ≠ []) (hne2 : n2 ≠ [])
    (hcase : lowerASCII n1 = lowerASCII n2) :
    directiveOfPart (n1 ++ '=' :: a) = directiveOfPart (n2 ++ '=' :: a) :=
  names_case_insensitive n1 n2 a h1 h2 hne1 hne2 hcase

/-- token or quoted-string: a delta-seconds argument in quotes is read like the bare number -/
theorem quoted_argument (ds : Str) (hd : ds.all isDigit = true) : deltaSeconds ('"' :: ds ++ ['"']) = deltaSeconds ds :=
  quoted_delta_seconds ds hd

/-- any order: with distinct names, every lookup is independent of the order of the directives -/
theorem order_irrelevant (l1 l2 : List (Str × Str)) (hp : l1.Perm l2) (hnd : (l1.map (·.1)).Nodup) (k : Str) :
    alookup k (dInsertAll [] l1) = alookup k (dInsertAll [] l2) :=
  lookup_order_independent l1 l2 hp hnd k

/-- unknown extension directives do not influence the lookup of any other directive -/
theorem extensions_irrelevant (pairs : List (Str × Str)) (ext : Str × Str) (k : Str) (hk : ext.1 ≠ k)
    (hnd : ((pairs ++ [ext]).map (·.1)).Nodup) :
    alookup k (dInsertAll [] (pairs ++ [ext])) = alookup k (dInsertAll [] pairs) := by
  have hnd1 : (pairs.map (·.1)).Nodup := by
    rw [List.map_append] at hnd
    exact (List.nodup_append.mp hnd).1
  rw [dInsertAll_eq_insertAll _ [] (fun _ _ => rfl) hnd, dInsertAll_eq_insertAll _ [] (fun _ _ => rfl) hnd1,
      alookup_insertAll _ hnd k [], alookup_insertAll _ hnd1 k [], List.find?_append]
  cases hf : pairs.find? (fun p => p.1 = k) with
  | some p => rfl
  | none => simp [hk]

/-- the parser is the insertion of the directives of the list elements, in order -/
theorem parse_is_fold (s : Str) : parseDirectives s = dInsertAll [] ((trimmedCSV s).filterMap directiveOfPart) :=
  parseDirectives_pairs s

/-- numeric arguments never wrap around: non-negative, and at least min(value, 2^31) seconds, for
    every digit string of any length (up to and beyond 2^63) -/
theorem delta_seconds_large (s : Str) (d : Int) (h : parseDeltaSeconds s = some d) :
    0 ≤ d ∧ d ≥ min ((natOfDigits s : Nat) : Int) 2147483648 * nsPerSec := by
  rw [parseDeltaSeconds_eq_spec] at h
  unfold Spec.deltaSeconds at h
  split at h
  · cases h
  · cases h
    unfold maxDeltaSeconds nsPerSec
    constructor <;> omega

/-- … and the USE of such a number does not wrap either, for the request's min-fresh (the one numeric directive that
    is ADDED to an age, not compared with one): whenever the hit path finds the response usable, what is left of its
    lifetime is at least the demanded amount, computed in unbounded integers (the code subtracts two non-negative
    int64 values, which cannot overflow; a seeded change of round 7 wrote `age + minFresh > life` with a plain `+`) -/
theorem min_fresh_is_honoured (g : Glue) (now : Int) (e : Entry) (reqCC resCC : Directives) (f : Int)
    (hf : reqCC.minFresh = some f) (hpos : 0 < f)
    (hfresh : (calculateFreshness g now e reqCC resCC).isStale = false) :
    f ≤ requestLifetime (responseLifetime g e resCC) reqCC - currentAge g now e := by
  unfold calculateFreshness at hfresh
  split at hfresh
  · cases hfresh
  · split at hfresh
    · cases hfresh
    · rename_i _ hm
      unfold minFreshStale at hm
      rw [hf] at hm
      simp only [Bool.and_eq_true, decide_eq_true_eq, not_and, Int.not_lt] at hm
      exact hm hpos

/-- a min-fresh of 2^31 seconds or more — however many digits — is answered from the store only with 2^31 seconds left -/
theorem huge_min_fresh_never_wraps (g : Glue) (now : Int) (e : Entry) (reqCC resCC : Directives) (s : Str) (f : Int)
    (hs : parseDeltaSeconds s = some f) (hbig : 2147483648 ≤ natOfDigits s) (hf : reqCC.minFresh = some f)
    (hfresh : (calculateFreshness g now e reqCC resCC).isStale = false) :
    2147483648 * nsPerSec ≤ requestLifetime (responseLifetime g e resCC) reqCC - currentAge g now e := by
  have hl := (delta_seconds_large s f hs).2
  have hmin : min ((natOfDigits s : Nat) : Int) 2147483648 = 2147483648 := by omega
  rw [hmin] at hl
  have hpos : 0 < f := by unfold nsPerSec at hl; omega
  have := min_fresh_is_honoured g now e reqCC resCC f hf hpos hfresh
  omega

example : parseDeltaSeconds (str% "99999999999999999999") = some 9223372036000000000 := by decide

/-- Regression examples (tests) for the pinned tree's failures. -/
example : (parseCC [(sCacheControl, str% "No-Store")]).noStore = true := by decide
example : (parseCC [(sCacheControl, str% "max-age=5"), (sCacheControl, str% "no-store")]).noStore = true := by decide
example : (parseCC [(sCacheControl, str% "MAX-AGE=\"100\"")]).maxAge = some 100000000000 := by decide
example : (parseCC [(sCacheControl, str% "max-age=9223372037")]).maxAge = some 9223372036000000000 := by decide
example : (parseCC [(sCacheControl, str% "no-cache, no-cache=\"x\"")]).noCacheUnqualified = true := by decide

/-- A backslash OUTSIDE a quoted-string escapes nothing (a quoted-pair exists only inside one, RFC 9110 §5.6.4):
    the comma after it separates list elements, so a malformed element cannot hide the directive that follows.
    An element with backslashes but no quote is a closed element, and `quoted_elements` applies to lists that contain it.
    (The pinned tokenizer took `\,` for an escaped comma anywhere: `ext=a\, no-store` was ONE element and the
    response was stored; likewise it hid max-age, no-cache, must-revalidate and a request's no-cache.) -/
theorem backslash_outside_quotes_is_no_escape (e : Str) (h : e.all (fun c => c ≠ ',' && c ≠ '"') = true) :
    closedElem e = true := by
  unfold closedElem
  have : ∀ (e : Str), e.all (fun c => c ≠ ',' && c ≠ '"') = true → qscanAll (false, false) e = some (false, false) := by
    intro e
    induction e with
    | nil => intro _; rfl
    | cons c cs ih =>
      intro h
      simp only [List.all_cons, Bool.and_eq_true, decide_eq_true_eq, ne_eq] at h
      have hq : qscan (false, false) c = some (false, false) := by
        unfold qscan
        simp [h.1.1, h.1.2]
      simp only [qscanAll, hq]
      exact ih (by simpa using h.2)
  simpa using this e h

example : trimmedCSV (str% "max-age=3600, ext=a\\, no-store") = [str% "max-age=3600", str% "ext=a\\", str% "no-store"] := by decide

end Httpcache.C12
