import Httpcache.Proofs.IndexBound
import Httpcache.Proofs.NoOrphan
/-
C19 — Store footprint is bounded by the distinct resources and variants requested.

  "For any history that keeps requesting a fixed finite set of URIs with a fixed finite set of
   request header combinations, the number of keys in the backing store and the size of every
   stored index stay bounded by a function of the number of distinct (URI, variant) pairs,
   independent of how many requests are made. Invalidation removes every key it makes
   unreachable."

Proved: the keys an exchange writes are a function of (URL key, Vary value, selecting values) only
(`written_keys_determined`); INVARIANT of every index: no two references describe the same variant,
preserved by StoreResponse at any position (`index_invariant`); hence, by induction over ANY history
(`ReachableIndex`: empty, re-read in any order, rewritten by StoreResponse), every index holds at most
as many references as there are distinct variants in the alphabet (`every_reachable_index_bounded`) —
independent of the number of requests; invalidation deletes the index key and the id of every reference
it read (`invalidate_complete`); and the number of KEYS: a store that is only ever asked to write keys
of a finite set K (by `written_keys_determined`: the URL keys and variant ids of the alphabet) never
holds more than |K| keys, for every sequence of writes and deletes (`store_keys_never_exceed`). What
stays outside the theorems: that the origin's Vary values come from a finite set is part of "fixed
finite alphabet". Orphaned entries: a store removes the response whose reference it overwrites once nothing
names it (`replaced_response_is_removed`), and the monitor checks on the implementation that at rest every
entry key is named by its index (sequential, fault-free histories), besides both bounds over long
repetitions of a request alphabet.
-/
namespace Httpcache.C19
open Httpcache

/-- the identifier under which a response is stored -/
def storeId (cfg : Cfg) (key : Str) (reqH respH : Header) : Str :=
  makeVaryKey key (normalizeVary cfg.normQ
    (if (Header.values (removeHopByHop respH) sVary).any varyHasWildcard then ['*']
     else joinWith [',', ' '] (Header.values (removeHopByHop respH) sVary)) reqH)

/-- every Vary value with a "*" member on any of its field lines, however spelled and whatever else it names, is stored under one
    identifier per URL: such responses never match a request, so they are one variant -/
theorem wildcard_variants_share_an_id (cfg : Cfg) (key : Str) (reqH respH respH' : Header)
    (h : (Header.values (removeHopByHop respH) sVary).any varyHasWildcard = true)
    (h' : (Header.values (removeHopByHop respH') sVary).any varyHasWildcard = true) :
    storeId cfg key reqH respH = storeId cfg key reqH respH' := by
  unfold storeId; simp only [h, h', ↓reduceIte]

/-- The entry key StoreResponse writes is `storeId`: a function of the URL key, the response's Vary
    lines and the request's normalised selecting values only — not of time, body, or how often the
    request was made. The index key is the URL key. So a finite request alphabet yields a finite
    set of keys. -/
theorem written_keys_determined (cfg : Cfg) (reqH : Header) (r : Resp) (b : Bool) (key : Str)
    (refs : List Ref) (t1 t2 : Int) (ri : Option Nat) (tr : List Step) (res : Result)
    (h : Run (storeResponse cfg reqH r b key refs t1 t2 ri (fun r => .ret (.resp r))) tr res) :
    (∀ id e ok, Step.setEntry id e ok ∈ tr → id = storeId cfg key reqH r.header) ∧
    (∀ k l ok, Step.setRefs k l ok ∈ tr → k = key) := by
  unfold storeId
  unfold storeResponse at h
  simp only [respWith] at h
  split at h
  · cases h; exact ⟨(fun _ _ _ hm => by cases hm), (fun _ _ _ hm => by cases hm)⟩
  · cases h with
    | setEntry ok h1 =>
      dsimp only at h1
      split at h1
      · cases h1
        refine ⟨?_, (fun _ _ _ hm => by simp at hm)⟩
        intro id e ok' hm
        simp only [List.mem_singleton, Step.setEntry.injEq] at hm
        rw [hm.1]; rfl
      · cases h1 with
        | setRefs ok2 h2 =>
          dsimp only at h2
          rcases dropReplaced_run _ _ _ _ _ _ _ h2 with hk | ⟨old, tr', e, hk, _⟩
          · cases hk
            refine ⟨?_, ?_⟩
            · intro id e ok' hm
              simp only [List.mem_cons, Step.setEntry.injEq, reduceCtorEq, List.not_mem_nil, or_false] at hm
              rw [hm.1]; rfl
            · intro k l ok' hm
              simp only [List.mem_cons, reduceCtorEq, Step.setRefs.injEq, List.not_mem_nil, or_false, false_or] at hm
              exact hm.1
          · subst e; cases hk
            refine ⟨?_, ?_⟩
            · intro id e ok' hm
              simp only [List.mem_cons, Step.setEntry.injEq, reduceCtorEq, List.not_mem_nil, or_false] at hm
              rw [hm.1]; rfl
            · intro k l ok' hm
              simp only [List.mem_cons, reduceCtorEq, Step.setRefs.injEq, List.not_mem_nil, or_false, false_or] at hm
              exact hm.1

/-- after a store, the only position of the index that holds the new reference's variant is the
    one it was placed at: identical references never accumulate ('Vary: *' resources, repeated
    misses) -/
theorem no_identical_references (refs : List Ref) (idx : Nat) (ref : Ref) (p : Ref × Nat)
    (hp : p ∈ (refs.zipIdx.filter (fun p => p.2 = idx || !sameVariant p.1 ref))) (hsv : sameVariant p.1 ref = true) :
    p.2 = idx := dedupe_unique refs idx ref p hp hsv

/-- an index grows by at most one reference per stored response -/
theorem index_growth_bounded (refs : List Ref) (ri : Option Nat) (ref : Ref) :
    (dedupeRefs (placeRef refs ri ref).1 (placeRef refs ri ref).2 ref).length ≤ refs.length + 1 :=
  index_growth refs ri ref

/-- invalidation removes the index key and the entry of every reference that index listed -/
theorem invalidate_complete (cfg : Cfg) (req : Req) (respH : Header) (refs : List Ref) (key : Str) (k : Prog)
    (tr : List Step) (r : Result) (h : Run (invalidateCache cfg req respH refs key k) tr r) :
    Step.delete key ∈ tr ∧ ∀ ref ∈ refs, Step.delete ref.id ∈ tr :=
  invalidateCache_deletes cfg req respH refs key k tr r h

/-- StoreResponse leaves no stored response behind: when the entry write and the index write succeed, every
    response the old index named is named by the new index or deleted in the same call. The reference a store
    overwrites may name ANOTHER stored response (the new reply varies on other fields, so its identifier
    differs); on the pinned tree that response stayed in the store, named by nothing — never read, replaced or
    invalidated again — one for every such replacement (one URI, one request header combination, an origin
    that keeps changing its Vary field: the number of keys grew with the number of requests). -/
theorem replaced_response_is_removed (cfg : Cfg) (reqH : Header) (r : Resp) (b : Bool) (key : Str)
    (refs : List Ref) (t1 t2 : Int) (ri : Option Nat) (tr : List Step) (res : Result)
    (h : Run (storeResponse cfg reqH r b key refs t1 t2 ri (fun r => .ret (.resp r))) tr res)
    (k' : Str) (rs : List Ref) (hR : Step.setRefs k' rs true ∈ tr) :
    ∀ x ∈ refs, x.id ≠ [] → (∃ y ∈ rs, y.id = x.id) ∨ Step.delete x.id ∈ tr :=
  store_leaves_no_orphan cfg reqH r b key refs t1 t2 ri tr res h k' rs hR

/-- For EVERY sequential, fault-free history of one resource — any number of stores (misses, full replies to
    validations in the foreground or the background, 304s that change Vary), freshening writes, invalidations
    and deletions caused by other resources, in any order (`ReachableRes`: each step is the effect of a trace of
    the model's own `storeResponse` / `invalidateCache`, run with the index the store holds and with every
    write succeeding) — every stored response of the resource is named by a reference of its index. Nothing is
    ever left that can no longer be read, replaced or invalidated: with `every_reachable_index_bounded` the
    number of entry keys of a resource is bounded by the number of its distinct variants too, however many
    requests are made. (What the invariant does not cover: overlapping exchanges — the recorded lost-update
    family — and failing writes; the at-rest monitor of the check excludes the same histories.) -/
theorem every_stored_response_is_named (cfg : Cfg) (key : Str) (s : ResState) (h : ReachableRes cfg key s) :
    ∀ id ∈ s.entries, ∃ r ∈ s.index, r.id = id :=
  (reachable_res_inv cfg key s h).1

/-- "Invalidation removes every key it makes unreachable", for every reachable state: after an invalidation
    (run with the index the store holds) neither the index nor any stored response of the resource is left -/
theorem invalidation_leaves_nothing (cfg : Cfg) (key : Str) (s : ResState) (hs : ReachableRes cfg key s)
    (req : Req) (respH : Header) (res0 : Result) (tr : List Step) (r : Result)
    (h : Run (invalidateCache cfg req respH s.index key (.ret res0)) tr r) :
    (applyTrace key s tr).index = [] ∧ (applyTrace key s tr).entries = [] :=
  inval_leaves_nothing cfg req respH key res0 s tr r h (reachable_res_inv cfg key s hs).1

/-- … hence the entries of a resource never outnumber the references of its index … -/
theorem entries_bounded_by_index (cfg : Cfg) (key : Str) (s : ResState) (h : ReachableRes cfg key s)
    (hnd : s.entries.Nodup) : s.entries.length ≤ s.index.length := by
  have hsub : ∀ id ∈ s.entries, id ∈ s.index.map (·.id) := by
    intro id hid
    obtain ⟨r, hr, e⟩ := every_stored_response_is_named cfg key s h id hid
    exact List.mem_map.mpr ⟨r, hr, e⟩
  have := List.Nodup.length_le_of_subset hnd hsub
  simpa using this

/-- non-vacuity: the very history of the finding — one request, two replies that vary on different fields. The
    first store writes an entry and an index; the second, replacing the reference, writes another entry, the
    index, and DELETES the first entry; one entry is left, and it is the one the index names. -/
def exEnv : Env := { refs := fun _ => none, entry := fun _ => none, setEntry := fun _ _ => true, setRefs := fun _ _ => true,
                     origin := fun _ _ _ => .err 0 }
def exCfg19 : Cfg := { glue := ⟨fun _ => none⟩, normQ := fun _ v => v, loc := fun _ => none, swrTimeout := 1 }
def exReply (vary : Str) : Resp := { status := 200, header := [(sVary, vary)], body := [] }
def exS1 : ResState := applyTrace (str% "k") ⟨[], []⟩
  (exec exEnv (storeResponse exCfg19 [] (exReply (str% "A")) true (str% "k") [] 0 0 none (fun r => .ret (.resp r)))).1
def exS2 : ResState := applyTrace (str% "k") exS1
  (exec exEnv (storeResponse exCfg19 [] (exReply (str% "B")) true (str% "k") exS1.index 0 0 (some 0) (fun r => .ret (.resp r)))).1

example : ReachableRes exCfg19 (str% "k") exS2 :=
  .stored _ _ _ _ _ _ _ _ (.stored _ _ _ _ _ _ _ _ .empty (exec_runs _ _) (exec_faultfree _ (fun _ _ => rfl) (fun _ _ => rfl) _))
    (exec_runs _ _) (exec_faultfree _ (fun _ _ => rfl) (fun _ _ => rfl) _)

set_option maxRecDepth 100000 in
example : exS1.entries.length = 1 ∧ exS2.entries.length = 1 ∧ exS1.entries ≠ exS2.entries ∧
    exS2.index.map (·.id) = exS2.entries := by decide +kernel

/-- INVARIANT of every index: no two references describe the same variant (id, Vary value, recorded
    selecting values); StoreResponse preserves it whatever position it replaces ('Vary: *' resources,
    repeated misses, changing Vary all included) -/
theorem index_invariant (refs : List Ref) (ri : Option Nat) (ref : Ref) (hnd : (refs.map variantOf).Nodup) :
    ((dedupeRefs (placeRef refs ri ref).1 (placeRef refs ri ref).2 ref).map variantOf).Nodup :=
  store_keeps_variants_distinct refs ri ref hnd

/-- for EVERY history (any number of requests, any order, any interleaving of stores, re-reads and
    invalidations of the index): an index holds at most as many references as there are distinct
    variants among the responses stored for the URI -/
theorem every_reachable_index_bounded (T : List (Str × List (Str × Str))) (refs : List Ref)
    (h : ReachableIndex T refs) : refs.length ≤ T.length :=
  reachable_index_bounded T refs h

/-- The references of an index come back from the JSON store exactly as they were written — also when
    an identifier, a Vary value or a recorded selecting value is not valid UTF-8 (obs-text in a header
    value, raw bytes in a query). Without this the reference being stored never equals the one read
    back and the index grows by one reference per request (the defect repaired by f2fdf96).
    `validUtf8`, `b64`, `unb64` stand for unicode/utf8.ValidString and encoding/base64; that
    encoding/json carries valid UTF-8 unchanged is the remaining glue. -/
theorem index_strings_survive_json (validUtf8 : Str → Bool) (b64 : Str → Str) (unb64 : Str → Option Str)
    (hb : ∀ x, unb64 (b64 x) = some x) (hv : ∀ x, validUtf8 (jsonOpaquePrefix ++ b64 x) = true) (s : Str) :
    jsonOriginalString unb64 (jsonSafeString validUtf8 b64 s) = s ∧
    validUtf8 (jsonSafeString validUtf8 b64 s) = true :=
  ⟨index_string_roundtrip validUtf8 b64 unb64 hb s, index_string_is_json_safe validUtf8 b64 hv s⟩

/-- for EVERY history of store writes and deletes whose written keys lie in the finite set K, the map
    the backend behaves as (C14) never holds more than |K| keys -/
theorem store_keys_never_exceed (K : List Str) (ops : List StoreOp) (hK : ∀ k v, StoreOp.set k v ∈ ops → k ∈ K) :
    (kvKeys (ops.foldl applyOp []) []).length ≤ K.length :=
  store_keys_bounded K ops hK

/-- A full reply to a validation is stored under the variant id of the CLIENT's request (the foreground
    validation of `roundTrip` hands `req.header` to the handler; the conditional request with the cache's
    own If-None-Match / If-Modified-Since only goes upstream), a 304 under the id the entry already had
    (or, when it changes the Vary field, likewise under the variant id of the client's request):
    a validator the cache added never becomes part of a variant key, so `Vary: If-None-Match` with
    changing ETags cannot make the footprint grow (the defect repaired by c3b3c83) -/
theorem validation_result_keyed_by_client_request (cfg : Cfg) (t0 : Int) (req : Req) (stored : Entry) (key : Str)
    (refs : List Ref) (i : Nat) (f : Freshness) (mv : Bool) (tr : List Step) (res : Result)
    (hget : req.method = sGET)
    (h : Run (revalidateProg cfg t0 req stored key refs i f (parseCC req.header) mv) tr res) :
    ∀ id en ok, Step.setEntry id en ok ∈ tr →
      id = stored.id ∨ ∃ r, id = makeVaryKey key (storedSelecting cfg req.header r) := by
  intro id en ok hm
  unfold revalidateProg at h
  cases h with
  | origin ans h1 =>
    rw [hget] at h1
    simp only [List.mem_cons, reduceCtorEq, false_or] at hm
    rcases validation_store_ids cfg req.header key stored refs (some i) f (parseCC req.header) mv t0 (fixAns cfg ans) _ res h1 id en ok hm with h' | ⟨r, _, _, _, h'⟩
    · exact Or.inl h'
    · rcases h' with h' | h'
      · exact Or.inr ⟨r, h'⟩
      · exact Or.inr ⟨_, h'⟩

/-- non-vacuity (a test): an index reached by two stores of the same variant and one of another -/
example : ReachableIndex [((str% "k#0"), []), ((str% "k#1"), [((str% "X-A"), (str% "1"))])]
    (dedupeRefs (placeRef (dedupeRefs (placeRef [] none ⟨(str% "k#0"), [], [], none⟩).1 (placeRef [] none ⟨(str% "k#0"), [], [], none⟩).2 ⟨(str% "k#0"), [], [], none⟩) none ⟨(str% "k#0"), [], [], none⟩).1
      (placeRef (dedupeRefs (placeRef [] none ⟨(str% "k#0"), [], [], none⟩).1 (placeRef [] none ⟨(str% "k#0"), [], [], none⟩).2 ⟨(str% "k#0"), [], [], none⟩) none ⟨(str% "k#0"), [], [], none⟩).2 ⟨(str% "k#0"), [], [], none⟩) :=
  .stored none _ (.stored none _ .empty (by decide)) (by decide)

/-- one variant, one reference — however the origin spells its Vary value. Two references with the same
    identifier and the same nominated fields and values are the same variant (`sameVariant`), whatever their
    recorded Vary strings: a store drops the older one. (The pinned de-duplication also compared the raw Vary
    string: "X-B, X-C" and "X-C, X-B" gave two references to ONE stored response; the second survived the
    replacement of the first and kept the replaced representation in use, and every new spelling added one more.) -/
theorem spelling_of_vary_does_not_multiply_references (a b : Ref) (hid : a.id = b.id) (hres : a.resolved = b.resolved) :
    sameVariant a b = true := by
  unfold sameVariant; simp [hid, hres]

example : (dedupeRefs (placeRef [⟨(str% "k#7"), (str% "X-B, X-C"), [((str% "X-B"), (str% "b")), ((str% "X-C"), [])], none⟩] none
              ⟨(str% "k#7"), (str% "X-C, X-B"), [((str% "X-B"), (str% "b")), ((str% "X-C"), [])], none⟩).1 1
              ⟨(str% "k#7"), (str% "X-C, X-B"), [((str% "X-B"), (str% "b")), ((str% "X-C"), [])], none⟩).length = 1 := by decide

end Httpcache.C19
