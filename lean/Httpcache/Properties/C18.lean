import Httpcache.Proofs.Hit
/-
C18 — only-if-cached never touches the network.

  "A request carrying only-if-cached causes no call to the origin under any circumstances: it is
   answered with a stored response that the other rules allow to be used without validation, or
   with a synthesised 504 Gateway Timeout."
-/
namespace Httpcache.C18
open Httpcache

theorem hit_oic (cfg : Cfg) (t0 : Int) (req : Req) (e : Entry) (key : Str) (refs : List Ref) (i : Nat)
    (hoic : (parseCC req.header).onlyIfCached = true)
    (tr : List Step) (r : Result) (h : Run (handleCacheHit cfg t0 req e key refs i) tr r) :
    tr = [] ∧ (r = .resp make504 ∨
      (r = .resp (serveFromCache (transportFreshness cfg.glue t0 e (parseCC req.header) (parseCC e.resp.header)).1 t0 e (parseCC e.resp.header)) ∧
       mustValidateOf (transportFreshness cfg.glue t0 e (parseCC req.header) (parseCC e.resp.header)).1 (parseCC req.header) (parseCC e.resp.header) = false ∧
       (transportFreshness cfg.glue t0 e (parseCC req.header) (parseCC e.resp.header)).2 = false)) := by
  unfold handleCacheHit at h
  simp only [hoic, ↓reduceIte, Bool.true_or] at h
  split at h
  · cases h; exact ⟨rfl, Or.inl rfl⟩
  · rename_i hmv
    simp only [Bool.or_eq_true, not_or, Bool.not_eq_true] at hmv
    split at h <;> (cases h; exact ⟨rfl, Or.inr ⟨rfl, hmv.1, hmv.2⟩⟩)

/-- Main theorem: for every request carrying only-if-cached (any method), every clock reading and
    every answer of the store, the exchange performs no origin call and spawns no background work;
    its result is the synthesised 504, or the entry it read from the store, and that entry (not a
    304, representable receive time) is one that needs no validation by the RFC-level rules. -/
theorem oic_no_origin (cfg : Cfg) (t0 : Int) (req : Req) (tr : List Step) (r : Result)
    (h : Run (roundTrip cfg t0 req) tr r)
    (hoic : Spec.hasDirective modelReader req.header (str% "only-if-cached") = true) :
    contacted tr = false ∧ spawned tr = false ∧
    (r = .resp make504 ∨
     ∃ id e0 x, Step.getEntry id (some e0) ∈ tr ∧ r = .resp x ∧ x.body = e0.resp.body ∧ x.status = e0.resp.status ∧
       ((parsedEntry e0).resp.status ≠ 304 → TimesOK (parsedEntry e0) →
         Spec.strictValidate modelReader cfg.glue.parseTime req.header (Spec.storedOfEntry (parsedEntry e0)) t0 = false)) := by
  rw [has_eq] at hoic
  have hoic' : (parseCC req.header).onlyIfCached = true := hoic
  have miss : ∀ key refs ri tr' r', Run (handleCacheMiss cfg t0 req key refs ri) tr' r' → tr' = [] ∧ r' = .resp make504 := by
    intro key refs ri tr' r' hm
    unfold handleCacheMiss at hm
    simp only [hoic', ↓reduceIte] at hm
    cases hm; exact ⟨rfl, rfl⟩
  unfold roundTrip at h
  simp only [] at h
  split at h
  · unfold handleUnrecognizedMethod at h
    simp only [hoic', ↓reduceIte] at h
    cases h; exact ⟨rfl, rfl, Or.inl rfl⟩
  · cases h with
    | getRefs a h1 =>
      dsimp only at h1
      split at h1
      · obtain ⟨ht, hr⟩ := miss _ _ _ _ _ h1; subst ht; exact ⟨rfl, rfl, Or.inl hr⟩
      · obtain ⟨ht, hr⟩ := miss _ _ _ _ _ h1; subst ht; exact ⟨rfl, rfl, Or.inl hr⟩
      · split at h1
        · obtain ⟨ht, hr⟩ := miss _ _ _ _ _ h1; subst ht; exact ⟨rfl, rfl, Or.inl hr⟩
        · cases h1 with
          | getEntry a2 h2 =>
            dsimp only at h2
            split at h2
            · obtain ⟨ht, hr⟩ := miss _ _ _ _ _ h2; subst ht; exact ⟨rfl, rfl, Or.inl hr⟩
            · rename_i e0
              obtain ⟨ht, hr⟩ := hit_oic cfg t0 req (parsedEntry e0) _ _ _ hoic' _ _ h2
              subst ht
              refine ⟨rfl, rfl, ?_⟩
              cases hr with
              | inl h504 => exact Or.inl h504
              | inr hx =>
                obtain ⟨hx1, hmv, hex⟩ := hx
                right
                refine ⟨_, e0, _, List.mem_cons_of_mem _ List.mem_cons_self, hx1, rfl, rfl, ?_⟩
                intro hs hT
                obtain ⟨htf, _⟩ := transport_not_exceeded _ _ _ _ _ hex
                rw [htf] at hmv
                exact not_mv_not_strict cfg.glue t0 (parsedEntry e0) req.header hs hT hmv

/-- the synthesised 504 has the documented shape -/
theorem make504_shape : make504.status = 504 ∧ make504.body = [] ∧
    Header.get make504.header sStatusHeader = str% "BYPASS" ∧ Header.get make504.header sContentLength = ['0'] := by
  decide

end Httpcache.C18
