import Httpcache.Proofs.Liveness
/-
C09 — Fresh matching responses are served from the store.

  "If a cacheable response was stored for a URI and a later GET has an equivalent URI …, equivalent
   selecting header values …, no directive demanding validation, and arrives while the stored
   response is fresh by more than a second, it is answered from the store without contacting the
   origin. This holds for explicit and heuristic freshness, for every status the cache documents
   as heuristically cacheable, on both backends, and across closing and reopening a persistent
   backend."

PARTIAL (stated up front): `fresh_match_is_served` (request without Cache-Control, explicit max-age),
`fresh_is_served` (request without Cache-Control) and `fresh_is_served_whatever_else_the_request_says`
(any request directives except no-cache, max-age and min-fresh — which are the ones that demand
validation or shorten the lifetime) for every kind of lifetime (max-age, Expires, heuristic) of a stored
response with a usable Date and a status the cache documents as heuristically cacheable, fresh by the RFC
definitions (`Spec.isFresh`); the store's answers are hypotheses (the index lookup under the request's key
returns a matching reference and the entry read succeeds) — that they do so for every equivalent
spelling is the key / normaliser theorems (C03, C04) plus the backend being a map (C14), and is
exercised end to end by the correspondence runs on all backends with reopen. The other request
directives are covered by the monitor on the implementation.
-/
namespace Httpcache.C09
open Httpcache

/-- Liveness of the hit path: for every plain GET without Cache-Control, whenever the store
    answers the index lookup with references of which one matches and returns its entry, and that
    entry has max-age = n with an RFC age below n and no unqualified no-cache, the result is that
    entry served from the store and the origin is not contacted. -/
theorem fresh_match_is_served (cfg : Cfg) (t0 : Int) (req : Req) (hu : isRequestMethodUnderstood req = true)
    (hcc : parseCC req.header = []) (refs sorted : List Ref) (hne : refs ≠ []) (i : Nat)
    (hvm : varyHeadersMatch cfg.normQ refs req.header = (sorted, some i)) (e0 : Entry) (hT : TimesOK (parsedEntry e0))
    (n : Int) (hma : (parseCC (parsedEntry e0).resp.header).maxAge = some n)
    (hpres : (parseCC (parsedEntry e0).resp.header).maxAgePresent = true)
    (hncu : (parseCC (parsedEntry e0).resp.header).noCacheUnqualified = false)
    (hfresh : Spec.currentAge cfg.glue.parseTime (Spec.storedOfEntry (parsedEntry e0)) t0 < n) :
    ∃ r, Run (roundTrip cfg t0 req)
        [.getRefs (makeURLKey req) (some refs), .getEntry (sorted.getD i default).id (some e0)] r ∧
      ∃ f, r = .resp (serveFromCache f t0 (parsedEntry e0) (parseCC (parsedEntry e0).resp.header)) := by
  -- the hit path's own execution
  have hhit : ∀ tr r, Run (handleCacheHit cfg t0 req (parsedEntry e0) (makeURLKey req) sorted i) tr r →
      tr = [] ∧ ∃ f, r = .resp (serveFromCache f t0 (parsedEntry e0) (parseCC (parsedEntry e0).resp.header)) :=
    fun tr r h => fresh_match_hits cfg t0 req (parsedEntry e0) _ _ _ hcc hT n hma hpres hncu hfresh tr r h
  -- build the execution with the totality of programs
  let env : Env := ⟨fun _ => none, fun _ => none, fun _ _ => false, fun _ _ => false, fun _ _ _ => .err 0⟩
  have hrun := exec_runs env (handleCacheHit cfg t0 req (parsedEntry e0) (makeURLKey req) sorted i)
  generalize (exec env (handleCacheHit cfg t0 req (parsedEntry e0) (makeURLKey req) sorted i)).1 = trh at hrun
  generalize (exec env (handleCacheHit cfg t0 req (parsedEntry e0) (makeURLKey req) sorted i)).2 = rh at hrun
  obtain ⟨htr, f, hf⟩ := hhit trh rh hrun
  subst htr
  refine ⟨rh, ?_, f, hf⟩
  unfold roundTrip
  simp only [hu, Bool.not_true, Bool.false_eq_true, ↓reduceIte]
  refine Run.getRefs (some refs) ?_
  cases refs with
  | nil => exact absurd rfl hne
  | cons r0 rs =>
    simp only [hvm]
    exact Run.getEntry (some e0) hrun

/-- the same for every kind of freshness lifetime: explicit max-age, Expires − Date, or the heuristic
    (Date − Last-Modified)/10 for the statuses the cache treats as heuristically cacheable — whenever the
    stored response is fresh by the RFC 9111 §4.2 definitions of Spec/Defs.lean -/
theorem fresh_is_served (cfg : Cfg) (t0 : Int) (req : Req) (hu : isRequestMethodUnderstood req = true)
    (hcc : parseCC req.header = []) (refs sorted : List Ref) (hne : refs ≠ []) (i : Nat)
    (hvm : varyHeadersMatch cfg.normQ refs req.header = (sorted, some i)) (e0 : Entry) (hT : TimesOK (parsedEntry e0))
    (hs : (parsedEntry e0).resp.status ≠ 304) (d : Int)
    (hd : Spec.httpTime cfg.glue.parseTime (parsedEntry e0).resp.header sDate = some d)
    (hdoc : Spec.heuristicallyCacheable.contains (parsedEntry e0).resp.status = true → isHeuristicStatus (parsedEntry e0).resp.status = true)
    (hncu : (parseCC (parsedEntry e0).resp.header).noCacheUnqualified = false)
    (hfresh : Spec.isFresh modelReader cfg.glue.parseTime (Spec.storedOfEntry (parsedEntry e0)) t0 = true) :
    ∃ r, Run (roundTrip cfg t0 req)
        [.getRefs (makeURLKey req) (some refs), .getEntry (sorted.getD i default).id (some e0)] r ∧
      ∃ f, r = .resp (serveFromCache f t0 (parsedEntry e0) (parseCC (parsedEntry e0).resp.header)) := by
  have hhit : ∀ tr r, Run (handleCacheHit cfg t0 req (parsedEntry e0) (makeURLKey req) sorted i) tr r →
      tr = [] ∧ ∃ f, r = .resp (serveFromCache f t0 (parsedEntry e0) (parseCC (parsedEntry e0).resp.header)) :=
    fun tr r h => fresh_hits cfg t0 req (parsedEntry e0) _ _ _ hcc hT hs d hd hdoc hncu hfresh tr r h
  let env : Env := ⟨fun _ => none, fun _ => none, fun _ _ => false, fun _ _ => false, fun _ _ _ => .err 0⟩
  have hrun := exec_runs env (handleCacheHit cfg t0 req (parsedEntry e0) (makeURLKey req) sorted i)
  generalize (exec env (handleCacheHit cfg t0 req (parsedEntry e0) (makeURLKey req) sorted i)).1 = trh at hrun
  generalize (exec env (handleCacheHit cfg t0 req (parsedEntry e0) (makeURLKey req) sorted i)).2 = rh at hrun
  obtain ⟨htr, f, hf⟩ := hhit trh rh hrun
  subst htr
  refine ⟨rh, ?_, f, hf⟩
  unfold roundTrip
  simp only [hu, Bool.not_true, Bool.false_eq_true, ↓reduceIte]
  refine Run.getRefs (some refs) ?_
  cases refs with
  | nil => exact absurd rfl hne
  | cons r0 rs =>
    simp only [hvm]
    exact Run.getEntry (some e0) hrun

/-- requests that carry directives: as long as the request neither demands validation (no-cache) nor
    shortens the lifetime (max-age, min-fresh) — whatever else it carries: max-stale, only-if-cached,
    no-store, no-transform, unknown extensions, in any spelling (C12) — a stored response that is fresh
    by the RFC definitions is served from the store and the origin is not contacted -/
theorem fresh_is_served_whatever_else_the_request_says (cfg : Cfg) (t0 : Int) (req : Req) (e : Entry) (key : Str)
    (refs : List Ref) (i : Nat)
    (hnc : (parseCC req.header).noCache = false) (hma : (parseCC req.header).maxAge = none)
    (hmf : (parseCC req.header).minFresh = none)
    (hT : TimesOK e) (hs : e.resp.status ≠ 304) (d : Int)
    (hd : Spec.httpTime cfg.glue.parseTime e.resp.header sDate = some d)
    (hdoc : Spec.heuristicallyCacheable.contains e.resp.status = true → isHeuristicStatus e.resp.status = true)
    (hncu : (parseCC e.resp.header).noCacheUnqualified = false)
    (hfresh : Spec.isFresh modelReader cfg.glue.parseTime (Spec.storedOfEntry e) t0 = true)
    (tr : List Step) (r : Result) (h : Run (handleCacheHit cfg t0 req e key refs i) tr r) :
    tr = [] ∧ ∃ f, r = .resp (serveFromCache f t0 e (parseCC e.resp.header)) :=
  fresh_hits_any_request cfg t0 req e key refs i hnc hma hmf hT hs d hd hdoc hncu hfresh tr r h

/-- the statuses the cache documents as heuristically cacheable are heuristically cacheable by RFC 9110
    too (so `hdoc` above only excludes 204 and 300, which the code does not list) -/
theorem documented_heuristic_statuses : ∀ c ∈ Generated.heuristicStatus, c = 304 ∨ c ∈ Spec.heuristicallyCacheable :=
  heuristic_table_sub

end Httpcache.C09
