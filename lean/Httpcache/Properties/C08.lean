import Httpcache.Proofs.Store
/-
C08 — Validation results are written back: 304 freshens, 200 replaces.

  "After a 304, the stored response is freshened: its header fields are replaced by those of the
   304 (except Content-Length and hop-by-hop fields), its age restarts from the 304, and later
   requests within the new lifetime are served from the store … After a full cacheable reply to a
   validation request - in the foreground or the background one sent under
   stale-while-revalidate - later requests get the new representation and never the replaced one,
   and other variants stored for the URI remain available."
-/
namespace Httpcache.C08
open Httpcache

/-- 304 answering the stored validators (`hval`: no precondition of the client's own reached the origin in
    their place; such a 304 is the origin's answer to the client and leaves the store alone, C06), with no-store neither on
    the request nor on the 304 (`hns`, `hns'`: then nothing of the 304 may be written, C06): the entry is written back under its own id with the merged header fields, the unchanged
    status and body and the timestamps of the validation exchange (so its age restarts), and the
    caller gets that response marked REVALIDATED. Foreground and background validation both go
    through this function. -/
theorem freshen_writes_back (cfg : Cfg) (reqH : Header) (key : Str) (stored : Entry) (refs : List Ref) (ri : Option Nat)
    (f : Freshness) (ccReq : Directives) (mv : Bool) (start t1 : Int) (r : Resp) (b : Bool) (tr : List Step) (res : Result)
    (h304 : r.status = 304) (hval : clientPreconditionForwarded reqH stored.resp.header = false) (hid : stored.id ≠ [])
    (hns : ccReq.noStore = false) (hns' : (parseCC r.header).noStore = false)
    (h : Run (handleValidation cfg sGET reqH key stored refs ri f ccReq mv start (.resp r t1 b) (fun r => .ret r)) tr res) :
    ∃ ok, tr = [Step.setEntry stored.id
        { stored with requestedAt := start, receivedAt := t1,
                      resp := respWith stored.resp (updateStoredHeaders (Header.del stored.resp.header sAge) r.header) } ok] ∧
      res = .resp (respWith stored.resp (applyStatus .revalidated (updateStoredHeaders (Header.del stored.resp.header sAge) r.header))) :=
  freshen_persists cfg reqH key stored refs ri f ccReq mv start t1 r b tr res h304 hval hid hns hns' h

/-- the merge never takes Content-Length from the 304 -/
theorem merge_keeps_content_length (stored new : Header) :
    Header.values (updateStoredHeaders stored new) sContentLength = Header.values stored sContentLength := by
  unfold updateStoredHeaders
  simp only []
  generalize Header.names new = ns
  induction ns generalizing stored with
  | nil => rfl
  | cons n ns ih =>
    simp only [List.foldl_cons]
    split
    · exact ih stored
    · rename_i hn
      rw [ih]
      have hne : n ≠ sContentLength := by
        intro h'; apply hn; rw [h']; simp
      unfold Header.setValues
      have : Header.values (Header.del stored n ++ (Header.values new n).map (fun v => (n, v))) sContentLength =
          Header.values (Header.del stored n) sContentLength ++ Header.values ((Header.values new n).map (fun v => (n, v))) sContentLength := by
        unfold Header.values; simp [List.filter_append]
      rw [this, Header.values_del_other _ _ _ hne]
      have : Header.values ((Header.values new n).map (fun v => (n, v))) sContentLength = [] := by
        unfold Header.values
        simp only [List.filter_eq_nil_iff, List.map_eq_nil_iff]
        intro a ha
        rw [List.mem_map] at ha
        obtain ⟨v, _, hv⟩ := ha
        rw [← hv]
        simp [hne]
      rw [this, List.append_nil]

/-- a full reply replaces the reference at the matched position (or appends) and keeps every other
    reference of the index, except exact duplicates of the new one -/
theorem replace_keeps_other_variants (refs : List Ref) (ri : Option Nat) (ref r : Ref) (j : Nat)
    (hj : refs[j]? = some r) (hne : ∀ i, ri = some i → i < refs.length → j ≠ i) :
    r ∈ dedupeRefs (placeRef refs ri ref).1 (placeRef refs ri ref).2 ref ∨ sameVariant r ref = true :=
  store_keeps_other_variants refs ri ref r j hj hne

end Httpcache.C08
