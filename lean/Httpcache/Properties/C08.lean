import Httpcache.Proofs.Store
import Httpcache.Proofs.VaryKey
/-
C08 — Validation results are written back: 304 freshens, 200 replaces.

  "After a 304, the stored response is freshened: its header fields are replaced by those of the
   304 (except Content-Length and hop-by-hop fields), its age restarts from the 304, and later
   requests within the new lifetime are served from the store … After a full cacheable reply to a
   validation request - in the foreground or the background one sent under
   stale-while-revalidate - later requests get the new representation and never the replaced one,
   and other variants stored for the URI remain available."
-/
namespace Httpcache.C08
open Httpcache

/-- 304 answering the stored validators (`hval`: no precondition of the client's own reached the origin in
    their place; such a 304 is the origin's answer to the client and leaves the store alone, C06), with no-store neither on
    the request nor on the 304 (`hns`, `hns'`: then nothing of the 304 may be written, C06), the merged response being one that may be stored at all
    (`hcs`: a 304 that turns the stored response into one §3 forbids storing — must-understand over a status that is not understood,
    no explicit freshness left on a status that is not heuristically cacheable — is used for the request and not written, C06), and leaving the Vary field as it is (`hvary`; a 304
    that changes it makes the cache store the merged response anew under what it now varies on, C04 —
    `freshen_with_new_vary_is_stored_anew`): the entry is written back under its own id with the merged header fields, the unchanged
    status and body and the timestamps of the validation exchange (so its age restarts), and the
    caller gets that response marked REVALIDATED. Foreground and background validation both go
    through this function. -/
theorem freshen_writes_back (cfg : Cfg) (reqH : Header) (key : Str) (stored : Entry) (refs : List Ref) (ri : Option Nat)
    (f : Freshness) (ccReq : Directives) (mv : Bool) (start t1 : Int) (r : Resp) (b : Bool) (tr : List Step) (res : Result)
    (h304 : r.status = 304) (hval : clientPreconditionForwarded reqH stored.resp.header = false) (hid : stored.id ≠ [])
    (hns : ccReq.noStore = false) (hns' : (parseCC r.header).noStore = false)
    (hcs : canStoreResponse (respWith stored.resp (updateStoredHeaders (Header.del stored.resp.header sAge) r.header)) ccReq
             (parseCC (updateStoredHeaders (Header.del stored.resp.header sAge) r.header)) = true)
    (hvary : joinWith [',', ' '] (Header.values (updateStoredHeaders (Header.del stored.resp.header sAge) r.header) sVary) =
             joinWith [',', ' '] (Header.values stored.resp.header sVary))
    (h : Run (handleValidation cfg sGET reqH key stored refs ri f ccReq mv start (.resp r t1 b) (fun r => .ret r)) tr res) :
    ∃ ok, tr = [Step.setEntry stored.id
        { stored with requestedAt := start, receivedAt := t1,
                      resp := respWith stored.resp (updateStoredHeaders (Header.del stored.resp.header sAge) r.header) } ok] ∧
      res = .resp (respWith stored.resp (applyStatus .revalidated (updateStoredHeaders (Header.del stored.resp.header sAge) r.header))) :=
  freshen_persists cfg reqH key stored refs ri f ccReq mv start t1 r b tr res h304 hval hid hns hns' hcs hvary h

/-- … and a 304 that CHANGES the Vary field: the stored response with the merged fields (same status, same
    body) is stored anew like a full reply — the entry under the variant id of the CLIENT's request and of
    what the response now says it varies on, the index with a reference carrying exactly those values
    (`NamedWrites`) — so that it is never again selected by a nomination it no longer has (on the pinned
    tree the index kept the old nomination while the stored Vary changed: a request differing in a newly
    nominated field was served the response, C04) -/
theorem freshen_with_new_vary_is_stored_anew (cfg : Cfg) (reqH : Header) (key : Str) (stored : Entry) (refs : List Ref) (ri : Option Nat)
    (f : Freshness) (ccReq : Directives) (mv : Bool) (start t1 : Int) (r : Resp) (b : Bool) (tr : List Step) (res : Result)
    (h304 : r.status = 304) (hval : clientPreconditionForwarded reqH stored.resp.header = false) (hid : stored.id ≠ [])
    (hns : ccReq.noStore = false) (hns' : (parseCC r.header).noStore = false)
    (hcs : canStoreResponse (respWith stored.resp (updateStoredHeaders (Header.del stored.resp.header sAge) r.header)) ccReq
             (parseCC (updateStoredHeaders (Header.del stored.resp.header sAge) r.header)) = true)
    (hvary : joinWith [',', ' '] (Header.values (updateStoredHeaders (Header.del stored.resp.header sAge) r.header) sVary) ≠
             joinWith [',', ' '] (Header.values stored.resp.header sVary))
    (h : Run (handleValidation cfg sGET reqH key stored refs ri f ccReq mv start (.resp r t1 b) (fun r => .ret r)) tr res) :
    NamedWrites cfg reqH (respWith stored.resp (updateStoredHeaders (Header.del stored.resp.header sAge) r.header)) key refs tr ∧
    ∃ x, res = .resp x ∧ x.status = stored.resp.status ∧ x.body = stored.resp.body := by
  unfold handleValidation at h
  simp only [h304, hval, decide_true, Bool.and_self, Bool.not_false, ↓reduceIte] at h
  have hne : stored.id.isEmpty = false := by cases hs : stored.id with
    | nil => exact absurd hs hid
    | cons c cs => rfl
  simp only [hne, hns, hns', hcs, Bool.not_true, Bool.or_self, Bool.false_eq_true, ↓reduceIte, ne_eq, hvary, not_false_eq_true] at h
  obtain ⟨t1', t2', ht, hw, hk⟩ := storeResponse_names _ _ _ _ _ _ _ _ _ _ _ _ h
  cases hk
  simp only [List.append_nil] at ht
  subst ht
  exact ⟨hw, _, rfl, rfl, rfl⟩

/-- the merge never takes Content-Length from the 304 -/
theorem merge_keeps_content_length (stored new : Header) :
    Header.values (updateStoredHeaders stored new) sContentLength = Header.values stored sContentLength := by
  unfold updateStoredHeaders
  simp only []
  generalize Header.names new = ns
  induction ns generalizing stored with
  | nil => rfl
  | cons n ns ih =>
    simp only [List.foldl_cons]
    split
    · exact ih stored
    · rename_i hn
      rw [ih]
      have hne : n ≠ sContentLength := by
        intro h'; apply hn; rw [h']; simp
      unfold Header.setValues
      have : Header.values (Header.del stored n ++ (Header.values new n).map (fun v => (n, v))) sContentLength =
          Header.values (Header.del stored n) sContentLength ++ Header.values ((Header.values new n).map (fun v => (n, v))) sContentLength := by
        unfold Header.values; simp [List.filter_append]
      rw [this, Header.values_del_other _ _ _ hne]
      have : Header.values ((Header.values new n).map (fun v => (n, v))) sContentLength = [] := by
        unfold Header.values
        simp only [List.filter_eq_nil_iff, List.map_eq_nil_iff]
        intro a ha
        rw [List.mem_map] at ha
        obtain ⟨v, _, hv⟩ := ha
        rw [← hv]
        simp [hne]
      rw [this, List.append_nil]

/-- a full reply replaces the reference at the matched position (or appends) and keeps every other
    reference of the index, except exact duplicates of the new one -/
theorem replace_keeps_other_variants (refs : List Ref) (ri : Option Nat) (ref r : Ref) (j : Nat)
    (hj : refs[j]? = some r) (hne : ∀ i, ri = some i → i < refs.length → j ≠ i) :
    r ∈ dedupeRefs (placeRef refs ri ref).1 (placeRef refs ri ref).2 ref ∨ sameVariant r ref = true :=
  store_keeps_other_variants refs ri ref r j hj hne

/-- … and the clean-up of a store never takes a variant away: the only key a StoreResponse ever deletes is the
    identifier of the reference it overwrote, and only when no reference of the index it has just written
    names that identifier — the stored response of every other variant stays where it is -/
theorem store_deletes_only_the_unnamed_replaced (cfg : Cfg) (reqH : Header) (r : Resp) (b : Bool) (key : Str)
    (refs : List Ref) (t1 t2 : Int) (ri : Option Nat) (tr : List Step) (res : Result)
    (h : Run (storeResponse cfg reqH r b key refs t1 t2 ri (fun r => .ret (.resp r))) tr res) :
    ∀ k, Step.delete k ∈ tr → replacedId refs ri = some k ∧
      ∀ rs ok, Step.setRefs key rs ok ∈ tr → ∀ y ∈ rs, y.id ≠ k := by
  intro k hk
  unfold storeResponse at h
  simp only [] at h
  split at h
  · cases h; cases hk
  · cases h with
    | setEntry ok h1 =>
      dsimp only at h1
      split at h1
      · cases h1; simp at hk
      · cases h1 with
        | setRefs ok2 h2 =>
          dsimp only at h2
          rcases dropReplaced_run _ _ _ _ _ _ _ h2 with hr | ⟨old, tr', e, hr, hrep, _, _, hnot⟩
          · cases hr; simp at hk
          · subst e; cases hr
            simp only [List.mem_cons, reduceCtorEq, Step.delete.injEq, List.not_mem_nil, or_false, false_or] at hk
            subst hk
            refine ⟨hrep, ?_⟩
            intro rs ok' hm
            simp only [List.mem_cons, reduceCtorEq, Step.setRefs.injEq, List.not_mem_nil, or_false, false_or] at hm
            rw [hm.2.1]; exact hnot

end Httpcache.C08
