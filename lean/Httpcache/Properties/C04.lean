import Httpcache.Proofs.VaryKey
/-
C04 — A stored response is reused only for a matching variant (Vary).

  "A stored response that has a Vary field is returned only for requests whose value of every
   nominated request header is equivalent to the original request's (absent - or empty - matches
   only absent; values are compared after meaning-preserving whitespace, list-order and case
   normalisation), and a response with 'Vary: *' is never returned without validation. Two
   requests that differ in a nominated field never receive each other's stored response, whatever
   other variants, Vary values or header contents were seen for that URI before."

The theorems hold for an ARBITRARY normaliser of the q-value classes (`normQ`). The matcher theorems never
use any property of the hash. The pairing of a reference with the entry under its id (`pairing`) is
proved from: the hash input being an injective encoding of the recorded pairs (`hash_input_is_delimited`,
for ALL names and values — what the pinned tree lacked), the naming of everything StoreResponse writes
(`store_names_what_it_writes`, `naming_invariant`), and ONE assumption that no proof can remove: the
64-bit FNV-1a hash does not collide on the variant descriptions that occur for the URI and does not map
one of them to the reserved "0" (`HashSeparates`) — `hash_separation_fails_on_a_witness` exhibits a pair of
header values for which it is false, and the implementation then serves the wrong variant (known finding,
replayed by the `collide` generator class). PARTIAL in that sense, and in that "the entry found
under an id is one that some StoreResponse wrote under that id" is the backend being a map (C14), not
re-proved here; the monitor checks pairing on the implementation by body-token provenance.
-/
namespace Httpcache.C04
open Httpcache

/-- the matcher only ever selects a reference without a "*" member in its Vary value whose every
    recorded (field, value) pair equals the current request's normalised value of that field -/
theorem matcher_selects_matching_reference (normQ : Str → Str → Str) (refs sorted : List Ref) (reqH : Header) (i : Nat)
    (h : varyHeadersMatch normQ refs reqH = (sorted, some i)) :
    ∃ r, sorted[i]? = some r ∧ varyHasWildcard r.vary = false ∧ ∀ p ∈ r.resolved, reqValue normQ reqH p.1 = p.2 :=
  match_sound normQ refs sorted reqH i h

/-- what StoreResponse records for a response is the storing request's normalised value of every
    field nominated by ALL Vary field lines -/
theorem reference_records_storing_request (normQ : Str → Str → Str) (vary : Str) (reqH : Header) :
    ∀ p ∈ normalizeVary normQ vary reqH, p.2 = reqValue normQ reqH p.1 :=
  normalizeVary_records_request normQ vary reqH

/-- variant isolation for one reference: a later request matches a reference written for an
    earlier request only if both have the same normalised value for every recorded field -/
theorem variant_isolation (normQ : Str → Str → Str) (vary : Str) (reqA reqB : Header) (r : Ref)
    (hr : r.resolved = normalizeVary normQ vary reqA) (hm : varyMatchOne normQ r reqB = true) :
    ∀ p ∈ r.resolved, reqValue normQ reqB p.1 = reqValue normQ reqA p.1 :=
  match_means_same_selecting_values normQ vary reqA reqB r hr hm

/-- a Vary value with "*" as a member (alone or in a list, on any field line) never matches -/
theorem star_never_matches (normQ : Str → Str → Str) (r : Ref) (reqH : Header) (h : varyHasWildcard r.vary = true) :
    varyMatchOne normQ r reqH = false := by
  unfold varyMatchOne; simp [h]

/-- absent and empty are the same selecting value, and differ from every non-empty one -/
theorem absent_is_empty (normQ : Str → Str → Str) (h : Header) (f : Str) (hv : Header.values h f = []) :
    reqValue normQ h f = [] := by
  unfold reqValue; simp [hv]

/-- the byte stream fed to the variant hash is an injective encoding of the recorded (name, value)
    pairs: names and values are length-delimited, so no value — whatever header-name-like text it
    contains — can imitate a following field -/
theorem hash_input_is_delimited (a b : List (Str × Str)) (h : varyHashInput a = varyHashInput b) : a = b :=
  varyHashInput_inj a b h

/-- hence, where the hash separates the variant descriptions of a URI, the id determines them -/
theorem variant_id_determines_values (S : List (List (Str × Str))) (hs : HashSeparates fnv64a S) (K : Str)
    (a b : List (Str × Str)) (ha : a ∈ S) (hb : b ∈ S) (h : makeVaryKey K a = makeVaryKey K b) : a = b :=
  makeVaryKey_inj fnv64a S hs K a b ha hb h

/-- StoreResponse writes the entry under the id of the storing request's selecting values and an index
    whose references are old ones or the new one carrying exactly those values -/
theorem store_names_what_it_writes (cfg : Cfg) (reqH : Header) (r : Resp) (bodyOk : Bool) (key : Str) (refs : List Ref)
    (reqT respT : Int) (ri : Option Nat) (k : Resp → Prog) (tr : List Step) (res : Result)
    (h : Run (storeResponse cfg reqH r bodyOk key refs reqT respT ri k) tr res) :
    ∃ tr1 tr2, tr = tr1 ++ tr2 ∧ NamedWrites cfg reqH r key refs tr1 ∧
      Run (k (respWith r (removeHopByHop r.header))) tr2 res :=
  storeResponse_names cfg reqH r bodyOk key refs reqT respT ri k tr res h

/-- invariant of every index: each reference is named by its own recorded values -/
theorem naming_invariant (cfg : Cfg) (reqH : Header) (r : Resp) (key : Str) (refs : List Ref) (tr1 : List Step)
    (hn : ∀ x ∈ refs, RefNamed key x) (hw : NamedWrites cfg reqH r key refs tr1) :
    ∀ k' rs ok, Step.setRefs k' rs ok ∈ tr1 → k' = key ∧ ∀ x ∈ rs, RefNamed key x :=
  namedWrites_keep_naming cfg reqH r key refs tr1 hn hw

/-- Pairing: a request B that matches a reference whose id is the id under which StoreResponse stored the
    response fetched by request A has the same normalised value as A for EVERY field A's response
    nominated. Two requests that differ in a nominated field never receive each other's stored response,
    whatever other variants, Vary values or header contents were seen for that URI before. -/
theorem pairing (cfg : Cfg) (S : List (List (Str × Str))) (hs : HashSeparates fnv64a S) (key : Str)
    (reqA reqB : Header) (rA : Resp) (ref : Ref)
    (hnamed : RefNamed key ref) (hrS : ref.resolved ∈ S) (hAS : storedSelecting cfg reqA rA ∈ S)
    (hent : ref.id = makeVaryKey key (storedSelecting cfg reqA rA))
    (hm : varyMatchOne cfg.normQ ref reqB = true) :
    ∀ p ∈ storedSelecting cfg reqA rA, reqValue cfg.normQ reqB p.1 = reqValue cfg.normQ reqA p.1 :=
  Httpcache.pairing cfg S hs key reqA reqB rA ref hnamed hrS hAS hent hm

/-- the hash assumption is satisfiable (non-vacuity; a test): FNV-1a separates these descriptions,
    among them the pair that collided on the pinned tree -/
example : HashSeparates fnv64a [[], [(str% "X-A", str% "1")], [(str% "X-A", str% "2")],
    [(str% "X-A", str% "1"), (str% "X-B", str% "2")], [(str% "X-A", str% "1X-B2")]] := by
  unfold HashSeparates
  constructor <;> decide

/-- … and it is NOT a theorem: a 64-bit hash cannot separate all descriptions, and here is a pair of
    request values on which FNV-1a does collide (found by a distinguished-point search, 42 s on 16 cores).
    On the implementation the second request overwrites the entry of the first under the shared id while
    both references stay in the index, and the first request is then served the second one's response —
    the replay of the known finding "C04 variant identifier collision" (known_findings.json; the repair,
    dropping every other reference with the identifier just written, is one line but contradicts a pinned
    unit test that gives two variants one identifier on purpose, so it is recorded, not applied). -/
theorem hash_separation_fails_on_a_witness :
    ¬ HashSeparates fnv64a [[(str% "X-A", str% "cf64c0a33b0b080a")], [(str% "X-A", str% "94d63610ceb73809")]] := by
  intro h
  have hc : fnv64a (varyHashInput [(str% "X-A", str% "cf64c0a33b0b080a")]) =
      fnv64a (varyHashInput [(str% "X-A", str% "94d63610ceb73809")]) := by decide +kernel
  have := h.1 _ (List.mem_cons_self) _ (List.mem_cons_of_mem _ List.mem_cons_self) hc
  revert this; decide

/-! ### the nominated names: a Vary value is a list of field names, split at EVERY comma (repair 8ea0896) -/

theorem splitOnComma_comma (a b cur : Str) :
    splitOnComma (a ++ ',' :: b) cur = splitOnComma a cur ++ splitOnComma b [] := by
  induction a generalizing cur with
  | nil => simp [splitOnComma]
  | cons c a ih =>
    by_cases hc : c = ','
    · subst hc; simp [splitOnComma, ih]
    · have h1 : ∀ r cur, splitOnComma (c :: r) cur = splitOnComma r (c :: cur) := by
        intro r cur; rw [splitOnComma]; exact fun h => absurd h hc
      simp [h1, ih]

/-- the names nominated by `a , b` are the names of `a` followed by the names of `b`, whatever bytes `a` and `b`
    hold: no quote, backslash or other byte in one member can hide the members after it from the key
    (the pinned tree split Vary with the quoted-string aware splitter: `Vary: Accept", X-A` nominated ONE name) -/
theorem vary_names_split_at_every_comma (a b : Str) : fieldNames (a ++ ',' :: b) = fieldNames a ++ fieldNames b := by
  simp [fieldNames, splitOnComma_comma]

/-- … and so a "*" member is seen wherever it stands -/
theorem star_member_is_seen_anywhere (a b : Str) :
    varyHasWildcard (a ++ ',' :: b) = (varyHasWildcard a || varyHasWildcard b) := by
  simp [varyHasWildcard, vary_names_split_at_every_comma]

example : fieldNames (str% "Accept\", X-A") = [str% "Accept\"", str% "X-A"] := by decide
example : varyHasWildcard (str% "\"x, *") = true := by decide

/-- Regression examples (tests): the pinned tree's collision, a "*" list member, two Vary lines. -/
example : makeVaryKey (str% "k") [(str% "X-A", str% "1"), (str% "X-B", str% "2")] ≠
          makeVaryKey (str% "k") [(str% "X-A", str% "1X-B2")] := by decide
example : varyHasWildcard (str% "Accept, *") = true := by decide
example : varyHashInput [(str% "X-A", str% "1"), (str% "X-B", str% "2")] = (str% "3:X-A1:13:X-B1:2") := by decide

end Httpcache.C04
