import Httpcache.Proofs.Store
/-
C04 — A stored response is reused only for a matching variant (Vary).

  "A stored response that has a Vary field is returned only for requests whose value of every
   nominated request header is equivalent to the original request's (absent - or empty - matches
   only absent; values are compared after meaning-preserving whitespace, list-order and case
   normalisation), and a response with 'Vary: *' is never returned without validation. Two
   requests that differ in a nominated field never receive each other's stored response, whatever
   other variants, Vary values or header contents were seen for that URI before."

The theorems hold for an ARBITRARY normaliser of the q-value classes (`normQ`) and never use any
property of the hash. PARTIAL: the pairing "the entry under a reference's id was written together
with that reference" is an invariant of sequential, fault-free histories that is checked by the
monitor on the implementation (body token provenance) and by the correspondence, and would need
injectivity of the 64-bit hash on the history's resolved maps to be proved.
-/
namespace Httpcache.C04
open Httpcache

/-- the matcher only ever selects a reference without a "*" member in its Vary value whose every
    recorded (field, value) pair equals the current request's normalised value of that field -/
theorem matcher_selects_matching_reference (normQ : Str → Str → Str) (refs sorted : List Ref) (reqH : Header) (i : Nat)
    (h : varyHeadersMatch normQ refs reqH = (sorted, some i)) :
    ∃ r, sorted[i]? = some r ∧ varyHasWildcard r.vary = false ∧ ∀ p ∈ r.resolved, reqValue normQ reqH p.1 = p.2 :=
  match_sound normQ refs sorted reqH i h

/-- what StoreResponse records for a response is the storing request's normalised value of every
    field nominated by ALL Vary field lines -/
theorem reference_records_storing_request (normQ : Str → Str → Str) (vary : Str) (reqH : Header) :
    ∀ p ∈ normalizeVary normQ vary reqH, p.2 = reqValue normQ reqH p.1 :=
  normalizeVary_records_request normQ vary reqH

/-- variant isolation for one reference: a later request matches a reference written for an
    earlier request only if both have the same normalised value for every recorded field -/
theorem variant_isolation (normQ : Str → Str → Str) (vary : Str) (reqA reqB : Header) (r : Ref)
    (hr : r.resolved = normalizeVary normQ vary reqA) (hm : varyMatchOne normQ r reqB = true) :
    ∀ p ∈ r.resolved, reqValue normQ reqB p.1 = reqValue normQ reqA p.1 :=
  match_means_same_selecting_values normQ vary reqA reqB r hr hm

/-- a Vary value with "*" as a member (alone or in a list, on any field line) never matches -/
theorem star_never_matches (normQ : Str → Str → Str) (r : Ref) (reqH : Header) (h : varyHasWildcard r.vary = true) :
    varyMatchOne normQ r reqH = false := by
  unfold varyMatchOne; simp [h]

/-- absent and empty are the same selecting value, and differ from every non-empty one -/
theorem absent_is_empty (normQ : Str → Str → Str) (h : Header) (f : Str) (hv : Header.values h f = []) :
    reqValue normQ h f = [] := by
  unfold reqValue; simp [hv]

/-- Regression examples (tests): the pinned tree's collision, a "*" list member, two Vary lines. -/
example : makeVaryKey (str% "k") [(str% "X-A", str% "1"), (str% "X-B", str% "2")] ≠
          makeVaryKey (str% "k") [(str% "X-A", str% "1X-B2")] := by decide
example : varyHasWildcard (str% "Accept, *") = true := by decide
example : varyHashInput [(str% "X-A", str% "1"), (str% "X-B", str% "2")] = (str% "3:X-A1:13:X-B1:2") := by decide

end Httpcache.C04
