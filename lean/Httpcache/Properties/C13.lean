import Httpcache.Proofs.Liveness
/-
C13 — stale-if-error serves the stored response on origin failure, within its window.

  "When validating a stale stored response fails - the origin call errors, or answers 500, 502,
   503 or 504 - and the stored response or the request carries stale-if-error=N with staleness
   below N, the stored response is returned (marked STALE, with a correct Age) instead of the
   failure. Outside that window, for other statuses, or when must-revalidate or no-cache applies,
   the origin's error response or the error is returned and the stored response is not."

Both directions are proved: `sie_only_inside_window` (a STALE answer of a validation implies failure of
the listed kinds, no mandatory validation, a directive on the stored response or the request, and the
RFC window) and `sie_serves` (under those conditions — for a request without min-fresh and a stored
response with a usable Date — the stored response IS returned, marked STALE once, with the RFC age of the
instant of the failure). The window is measured from the response's OWN lifetime whatever max-age the
request carries: an exceeded request max-age forces the validation, it does not move the window (the
pinned tree did this for max-age=0 only; see known_findings.json).
-/
namespace Httpcache.C13
open Httpcache

/-- the statuses for which a stale response may replace the failure are exactly 500, 502, 503,
    504 (table regenerated from internal/helpers.go isStaleErrorAllowed) -/
theorem sie_statuses : ∀ c, isStaleErrorAllowed c = true ↔ c = 500 ∨ c = 502 ∨ c = 503 ∨ c = 504 := by
  intro c
  unfold isStaleErrorAllowed
  have : Generated.staleErrorStatus = [500, 502, 503, 504] := by decide
  rw [this]; simp

/-- Refusal (contrapositive form): whenever a validation ends with the stored response served
    under stale-if-error, then (1) validation was not mandatory — no no-cache, no stale
    must-revalidate (`mv = false`, which by C02's `strict_implies_mv` excludes every RFC-level
    strict condition), (2) the origin call failed or answered a status of the table, and (3) the
    stored response or the request carries stale-if-error = N and the response is inside that
    window by the RFC definitions at the instant of the failure. The error reply's own directives
    play no role: they are not among the sources. -/
theorem sie_only_inside_window (cfg : Cfg) (t0 : Int) (req : Req) (e : Entry) (key : Str) (refs : List Ref) (ri : Option Nat)
    (mv : Bool) (ans : OriginAns) (tr : List Step) (x : Resp)
    (hs : e.resp.status ≠ 304) (hT : TimesOK e)
    (hle : ∀ r t1 b, ans = .resp r t1 b → t0 ≤ t1) (hle' : ∀ t1, ans = .err t1 → t0 ≤ t1)
    (h : Run (handleValidation cfg sGET req.header key e refs ri
        (transportFreshness cfg.glue t0 e (parseCC req.header) (parseCC e.resp.header)).1 (parseCC req.header) mv t0 ans
        (fun r => .ret r)) tr (.resp x))
    (hstale : Header.get x.header sStatusHeader = CacheStatus.stale.value) :
    mv = false ∧ (∀ r t1 b, ans = .resp r t1 b → isStaleErrorAllowed r.status = true) ∧
    ∃ n tfail, (ans = .err tfail ∨ ∃ r b, ans = .resp r tfail b) ∧
      -- must-revalidate does not apply AT THE INSTANT OF THE FAILURE either (the response may have become
      -- stale while the origin was being asked)
      (staleAt (transportFreshness cfg.glue t0 e (parseCC req.header) (parseCC e.resp.header)).1 tfail &&
        (parseCC e.resp.header).mustRevalidate) = false ∧
      (Spec.directiveSeconds modelReader e.resp.header (str% "stale-if-error") = some n ∨
          Spec.directiveSeconds modelReader req.header (str% "stale-if-error") = some n) ∧
      Spec.withinWindow modelReader cfg.glue.parseTime (Spec.storedOfEntry e) tfail n = true := by
  have htf := transport_fields_le cfg.glue t0 e (parseCC req.header) (parseCC e.resp.header)
  unfold handleValidation at h
  simp only [] at h
  have hne1 : CacheStatus.stale.value ≠ CacheStatus.revalidated.value := by decide
  have hne2 : CacheStatus.stale.value ≠ CacheStatus.miss.value := by decide
  have hne3 : CacheStatus.stale.value ≠ CacheStatus.bypass.value := by decide
  split at h
  · rename_i t1
    split at h
    · rename_i hc
      simp only [Bool.and_eq_true, decide_eq_true_eq, Bool.not_eq_true'] at hc
      obtain ⟨n, hn, hw⟩ := sie_sound_gen cfg.glue t0 t1 e req.header _ (hle' t1 rfl) hs hT htf.1 htf.2.1 htf.2.2 hc.2
      exact ⟨hc.1.1.2, (fun r t b hh => by cases hh), ⟨n, t1, Or.inl rfl, hc.1.2, hn, hw⟩⟩
    · cases h
  · rename_i r t1 bodyOk
    split at h
    · -- 304: the result is marked REVALIDATED, not STALE
      exfalso
      have hx : Header.get x.header sStatusHeader = CacheStatus.revalidated.value := by
        split at h
        · cases h; simp only [respWith]; exact applyStatus_get _ _
        · split at h
          · obtain ⟨t1', t2', ht, _, _, hk⟩ := storeResponse_run _ _ _ _ _ _ _ _ _ _ _ _ h
            cases hk; simp only [respWith]; exact applyStatus_get _ _
          · cases h with
            | setEntry ok h1 => cases h1; simp only [respWith]; exact applyStatus_get _ _
      rw [hx] at hstale; exact hne1 hstale.symm
    · split at h
      · rename_i hc
        simp only [Bool.and_eq_true, decide_eq_true_eq, Bool.not_eq_true'] at hc
        obtain ⟨n, hn, hw⟩ := sie_sound_gen cfg.glue t0 t1 e req.header _ (hle r t1 bodyOk rfl) hs hT htf.1 htf.2.1 htf.2.2 hc.2
        exact ⟨hc.1.1.2, (fun r' t b hh => by cases hh; exact hc.1.1.1.1), ⟨n, t1, Or.inr ⟨_, _, rfl⟩, hc.1.2, hn, hw⟩⟩
      · exfalso
        split at h
        · obtain ⟨t1', t2', ht, _, _, hk⟩ := storeResponse_run _ _ _ _ _ _ _ _ _ _ _ _ h
          cases hk
          have hx : Header.get (respWith (respWith r (removeHopByHop r.header)) (applyStatus .miss (respWith r (removeHopByHop r.header)).header)).header sStatusHeader = CacheStatus.miss.value := by
            simp only [respWith]; exact applyStatus_get _ _
          rw [hx] at hstale; exact hne2 hstale.symm
        · cases h
          have hx : Header.get (respWith r (applyStatus .bypass r.header)).header sStatusHeader = CacheStatus.bypass.value := by
            simp only [respWith]; exact applyStatus_get _ _
          rw [hx] at hstale; exact hne3 hstale.symm

/-- Liveness: when the validation of a stored response fails — the origin call errors or answers a
    status of the table — validation is not mandatory (in particular the response carries no must-revalidate,
    `hmr`: with it the answer depends on whether the response is stale at the instant of the failure, which
    `sie_only_inside_window` states), the request carries no min-fresh, the validation
    was reached because the response is stale or the request's max-age (of any value) is exceeded, and the
    stored response or the request carries stale-if-error = N with the response inside that window by
    the RFC definitions at the instant of the failure, then the exchange returns the stored response:
    same status and body, exactly one cache status STALE, X-From-Cache = 1, and an Age field that is
    the RFC age at that instant in whole seconds. Nothing is written to the store. The freshness handed
    to the validation is the one the hit path computes (`transportFreshness`). -/
theorem sie_serves (cfg : Cfg) (t0 t1 : Int) (req : Req) (e : Entry) (key : Str) (refs : List Ref) (ri : Option Nat)
    (ans : OriginAns) (hle : t0 ≤ t1) (hrt : e.receivedAt ≤ t0)
    (hs : e.resp.status ≠ 304) (hT : TimesOK e) (hmf : (parseCC req.header).minFresh = none)
    (hmr : (parseCC e.resp.header).mustRevalidate = false)
    (hreach : (transportFreshness cfg.glue t0 e (parseCC req.header) (parseCC e.resp.header)).2 = true ∨
              (transportFreshness cfg.glue t0 e (parseCC req.header) (parseCC e.resp.header)).1.isStale = true) (d : Int)
    (hd : Spec.httpTime cfg.glue.parseTime e.resp.header sDate = some d)
    (hdoc : Spec.heuristicallyCacheable.contains e.resp.status = true → isHeuristicStatus e.resp.status = true)
    (hfail : ans = .err t1 ∨ ∃ r b, ans = .resp r t1 b ∧ isStaleErrorAllowed r.status = true)
    (n : Int) (hn : Spec.directiveSeconds modelReader e.resp.header (str% "stale-if-error") = some n ∨
          Spec.directiveSeconds modelReader req.header (str% "stale-if-error") = some n)
    (hw : Spec.withinWindow modelReader cfg.glue.parseTime (Spec.storedOfEntry e) t1 n = true) :
    ∃ x, Run (handleValidation cfg sGET req.header key e refs ri
        (transportFreshness cfg.glue t0 e (parseCC req.header) (parseCC e.resp.header)).1 (parseCC req.header) false t0 ans
        (fun r => .ret r)) [] (.resp x) ∧
      x.status = e.resp.status ∧ x.body = e.resp.body ∧
      Header.values x.header sStatusHeader = [CacheStatus.stale.value] ∧
      Header.values x.header sFromCache = [['1']] ∧
      Header.values x.header sAge = [intToStr (Spec.currentAge cfg.glue.parseTime (Spec.storedOfEntry e) t1 / nsPerSec)] := by
  have hc := sie_complete cfg.glue t0 t1 e req.header hle hrt hs hT hmf hreach d hd hdoc n hn hw
  have hf := servedHeader_fields .stale rfl (transportFreshness cfg.glue t0 e (parseCC req.header) (parseCC e.resp.header)).1 t1
    e.resp.header (parseCC e.resp.header)
  have hage : ageSeconds (transportFreshness cfg.glue t0 e (parseCC req.header) (parseCC e.resp.header)).1 t1 =
      Spec.currentAge cfg.glue.parseTime (Spec.storedOfEntry e) t1 / nsPerSec := by
    obtain ⟨ha, hts, _⟩ := transport_fields cfg.glue t0 e (parseCC req.header) (parseCC e.resp.header) hmf hreach
    unfold ageSeconds
    rw [ha, hts, age_eq cfg.glue t0 e hT, ← spec_age_step_eq cfg.glue.parseTime (Spec.storedOfEntry e) t0 t1 hle hrt]
    have : 0 ≤ Spec.currentAge cfg.glue.parseTime (Spec.storedOfEntry e) t1 := by
      rw [spec_age_step_eq cfg.glue.parseTime (Spec.storedOfEntry e) t0 t1 hle hrt]
      apply satAdd_nonneg
      · rw [← age_eq cfg.glue t0 e hT]
        unfold currentAge
        apply satAdd_nonneg
        · exact Int.le_trans (Int.le_max_right _ _) (Int.le_max_left _ _)
        · exact Int.le_max_right _ _
      · unfold satSub; exact sat_nonneg (by omega)
    rw [Int.max_eq_left this]
  refine ⟨serveStale (transportFreshness cfg.glue t0 e (parseCC req.header) (parseCC e.resp.header)).1 t1 e, ?_, rfl, rfl, hf.1, hf.2.1, ?_⟩
  · unfold handleValidation
    simp only []
    rcases hfail with h | ⟨r, b, h, hst⟩
    · subst h
      simp only [hc, hmr, Bool.and_false, Bool.not_false, Bool.and_true, decide_true, ↓reduceIte]
      exact Run.ret _
    · subst h
      have h304 : r.status ≠ 304 := by
        intro h3
        rw [h3] at hst
        revert hst; decide
      simp only [h304, decide_false, Bool.and_false, Bool.false_eq_true, ↓reduceIte, hst, hc, hmr, Bool.not_false, decide_true, Bool.and_self]
      exact Run.ret _
  · rw [← hage]; exact hf.2.2

end Httpcache.C13
