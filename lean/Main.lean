import Httpcache.Driver.Replay
open Httpcache Httpcache.Driver

partial def loop (stdin : IO.FS.Stream) (h : Hist) (nOk nDiff : Nat) : IO (Nat × Nat) := do
  let line ← stdin.getLine
  if line.isEmpty then return (nOk, nDiff)
  let line := (line.dropEndWhile (· == '\n')).toString
  if line.startsWith "E\t" then
    let h := h.finish
    match checkHistory h with
    | none =>
      IO.println s!"OK\t{h.id}"
      loop stdin {} (nOk + 1) nDiff
    | some d =>
      IO.println s!"DIFF\t{h.id}\t{d}"
      loop stdin {} nOk (nDiff + 1)
  else
    loop stdin (parseLine h line) nOk nDiff

def main (_args : List String) : IO UInt32 := do
  let stdin ← IO.getStdin
  let (a, b) ← loop stdin {} 0 0
  IO.println s!"SUMMARY\tok={a}\tdiff={b}"
  return 0
