import Httpcache.Driver.Monitors2
import Httpcache.Driver.StoreMode
open Httpcache Httpcache.Driver

/-- per-exchange outcome tag for the distribution report -/
def exTag (h : Hist) (ri : ReqIn) : String :=
  match h.ex ri with
  | none => "nores"
  | some x =>
    let st := match statusValues x.res.hdr with
      | [v] => String.ofList v
      | _ => "?"
    let k := if x.res.kind == "resp" then s!"{x.res.status}/{st}" else x.res.kind
    let c := if x.fgCalls.isEmpty then "" else "+call"
    let b := if x.bgCalls.isEmpty then "" else "+bg"
    k ++ c ++ b

def signature (h : Hist) : String := String.intercalate "," (h.reqs.map (exTag h))

def nontrivial (h : Hist) : Bool :=
  h.reqs.any fun ri => match h.ex ri with
    | some x => x.fromStore || x.res.kind != "resp" || !x.bgCalls.isEmpty || isSynth504 x
    | none => true

/-- what a caller and the store observe of a history, apart from the spelling of Cache-Control:
    per exchange the result kind, status, body (with its origin token), cache status, Age, the
    number of foreground and background origin calls, whether those were conditional, and the
    store writes and deletes -/
def obsSig (h : Hist) : List String :=
  h.reqs.map fun ri =>
    match h.ex ri with
    | none => "nores"
    | some x =>
      let st := String.intercalate "|" ((statusValues x.res.hdr).map String.ofList)
      let age := String.intercalate "|" ((Header.values x.res.hdr sAge).map String.ofList)
      let cond := fun (c : CallEv) => s!"{Header.has c.hdr sIfNoneMatch}{Header.has c.hdr sIfModifiedSince}{c.outcome}"
      let writes := fun (s : String) => ((h.stores ri.n s).filter (fun e => e.op != "get")).map (fun e => s!"{e.op}:{shw e.key}:{e.result}")
      s!"{x.res.kind} {x.res.status} body={shw x.res.body} st={st} age={age} fg={x.fgCalls.map cond} bg={x.bgCalls.map cond} w={writes "fg"} bw={writes "bg"}"

def monC12 (prev : Option (String × List String)) (h : Hist) : Option String :=
  if !h.id.endsWith "~s" then none else
  match prev with
  | none => none
  | some (pid, psig) =>
    if pid ++ "~s" != h.id then none else
    let sig := obsSig h
    match (psig.zip sig).zipIdx.find? (fun p => p.1.1 != p.1.2) with
    | some ((a, b), n) => some s!"exchange {n}: respelling Cache-Control changed the behaviour: canonical [{a}] respelled [{b}]"
    | none => if psig.length != sig.length then some "different number of exchanges" else none

partial def loop (prop : String) (stdin : IO.FS.Stream) (h : Hist) (inHash : UInt64) (prev : Option (String × List String) := none) : IO Unit := do
  let line ← stdin.getLine
  if line.isEmpty then return ()
  let line := (line.dropEndWhile (· == '\n')).toString
  if line.startsWith "E\t" then
    let h := h.finish
    -- C12: the pair comparison, and on both members of the pair the decisions as the naive reader of
    -- Spec/Defs.lean takes them (store / reuse / validate / liveness; huge numbers never wrap)
    let mon := if prop == "C12" then first? [monC12 prev h, monC01 h, monC02 h, monC06 h, monC09 h, monHugeMinFresh h] else monitorFor4 prop h
    let corr := checkHistory h
    IO.println s!"STAT\t{h.id}\t{h.cls}\t{inHash}\t{if nontrivial h then 1 else 0}\t{signature h}"
    match mon with
    | some m => IO.println s!"MON\t{h.id}\t{m}"
    | none => pure ()
    match corr with
    | some d => IO.println s!"DIFF\t{h.id}\t{d}"
    | none => pure ()
    if mon.isNone && corr.isNone then IO.println s!"OK\t{h.id}"
    loop prop stdin {} 7 (some (h.id, obsSig h))
  else
    let inHash := if line.startsWith "I\t" then mixHash inHash (hash line) else inHash
    loop prop stdin (parseLine h line) inHash prev

partial def storeLoop (stdin : IO.FS.Stream) (st : StoreSt) : IO Unit := do
  let line ← stdin.getLine
  if line.isEmpty then return ()
  let line := (line.dropEndWhile (· == '\n')).toString
  if line.startsWith "E\t" then
    IO.println s!"STAT\t{st.id}\t{st.backend}\t{hash st.id}\t1\t{st.backend}:{st.ops}"
    match storeFinish st with
    | some m => IO.println s!"MON\t{st.id}\t{m}"
    | none =>
      match st.diff with
      | some m => IO.println s!"DIFF\t{st.id}\t{m}"
      | none => IO.println s!"OK\t{st.id}"
    storeLoop stdin {}
  else storeLoop stdin (storeLine st line)

def main (args : List String) : IO UInt32 := do
  let prop := args.headD ""
  let stdin ← IO.getStdin
  if prop == "C14" || prop == "C15" || prop == "C17" then
    storeLoop stdin {}
    return 0
  loop prop stdin {} 7
  return 0
