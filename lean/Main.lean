import Httpcache.Driver.Monitors2
open Httpcache Httpcache.Driver

/-- per-exchange outcome tag for the distribution report -/
def exTag (h : Hist) (ri : ReqIn) : String :=
  match h.ex ri with
  | none => "nores"
  | some x =>
    let st := match statusValues x.res.hdr with
      | [v] => String.ofList v
      | _ => "?"
    let k := if x.res.kind == "resp" then s!"{x.res.status}/{st}" else x.res.kind
    let c := if x.fgCalls.isEmpty then "" else "+call"
    let b := if x.bgCalls.isEmpty then "" else "+bg"
    k ++ c ++ b

def signature (h : Hist) : String := String.intercalate "," (h.reqs.map (exTag h))

def nontrivial (h : Hist) : Bool :=
  h.reqs.any fun ri => match h.ex ri with
    | some x => x.fromStore || x.res.kind != "resp" || !x.bgCalls.isEmpty || isSynth504 x
    | none => true

partial def loop (prop : String) (stdin : IO.FS.Stream) (h : Hist) (inHash : UInt64) : IO Unit := do
  let line ← stdin.getLine
  if line.isEmpty then return ()
  let line := (line.dropEndWhile (· == '\n')).toString
  if line.startsWith "E\t" then
    let h := h.finish
    let mon := monitorFor2 prop h
    let corr := checkHistory h
    IO.println s!"STAT\t{h.id}\t{h.cls}\t{inHash}\t{if nontrivial h then 1 else 0}\t{signature h}"
    match mon with
    | some m => IO.println s!"MON\t{h.id}\t{m}"
    | none => pure ()
    match corr with
    | some d => IO.println s!"DIFF\t{h.id}\t{d}"
    | none => pure ()
    if mon.isNone && corr.isNone then IO.println s!"OK\t{h.id}"
    loop prop stdin {} 7
  else
    let inHash := if line.startsWith "I\t" then mixHash inHash (hash line) else inHash
    loop prop stdin (parseLine h line) inHash

def main (args : List String) : IO UInt32 := do
  let prop := args.headD ""
  let stdin ← IO.getStdin
  loop prop stdin {} 7
  return 0
