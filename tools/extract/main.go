// extract: regenerates lean/Httpcache/Generated/Tables.lean from the Go source of the
// repository (go/ast only; nothing is executed). Usage: extract <repo-root>  → Lean on stdout.
package main

import (
	"fmt"
	"go/ast"
	"go/parser"
	"go/token"
	"os"
	"path/filepath"
	"sort"
	"strconv"
	"strings"
)

var fset = token.NewFileSet()

func parse(root, rel string) *ast.File {
	f, err := parser.ParseFile(fset, filepath.Join(root, rel), nil, parser.ParseComments)
	if err != nil {
		fail("%v", err)
	}
	return f
}

func funcDecl(f *ast.File, name string) *ast.FuncDecl {
	for _, d := range f.Decls {
		if fd, ok := d.(*ast.FuncDecl); ok && fd.Name.Name == name {
			return fd
		}
	}
	fail("function not found: %s", name)
	return nil
}

type extractErr string

// fail aborts the extraction of the CURRENT table only (see table())
func fail(format string, a ...any) {
	panic(extractErr(fmt.Sprintf(format, a...)))
}

// table runs one extraction; when the source no longer has the expected shape the table is
// reported as "-- EXTRACT-ERROR <names>: why" and the others are still produced
func table(b *strings.Builder, names string, f func() string) {
	defer func() {
		if r := recover(); r != nil {
			if e, ok := r.(extractErr); ok {
				fmt.Fprintf(b, "-- EXTRACT-ERROR %s: %s\n", names, strings.ReplaceAll(string(e), "\n", " "))
				return
			}
			fmt.Fprintf(b, "-- EXTRACT-ERROR %s: %v\n", names, r)
		}
	}()
	b.WriteString(f())
}

// value of an expression that is an int literal, a string literal, http.StatusX or http.MethodX
func constOf(e ast.Expr) (any, bool) {
	switch v := e.(type) {
	case *ast.BasicLit:
		switch v.Kind {
		case token.INT:
			n, err := strconv.Atoi(v.Value)
			return n, err == nil
		case token.STRING:
			s, err := strconv.Unquote(v.Value)
			return s, err == nil
		}
	case *ast.SelectorExpr:
		if x, ok := v.X.(*ast.Ident); ok && x.Name == "http" {
			if n, ok := httpStatus[v.Sel.Name]; ok {
				return n, true
			}
			if s, ok := httpMethod[v.Sel.Name]; ok {
				return s, true
			}
		}
	}
	return nil, false
}

// switchCases returns, for the first switch statement of fn, the constants of the case
// clauses whose body is `return <lit>` with lit == want ("true"/"false"); and whether the
// default (or the statement after the switch) returns the opposite.
func switchCases(fn *ast.FuncDecl, want string) []any {
	var out []any
	found := false
	ast.Inspect(fn, func(n ast.Node) bool {
		sw, ok := n.(*ast.SwitchStmt)
		if !ok || found {
			return true
		}
		found = true
		for _, st := range sw.Body.List {
			cc := st.(*ast.CaseClause)
			if cc.List == nil {
				continue
			}
			ret := ""
			if len(cc.Body) == 1 {
				if r, ok := cc.Body[0].(*ast.ReturnStmt); ok && len(r.Results) == 1 {
					if id, ok := r.Results[0].(*ast.Ident); ok {
						ret = id.Name
					}
				}
			}
			for _, e := range cc.List {
				v, ok := constOf(e)
				if !ok {
					fail("%s: case expression is not a constant the extractor understands (%T)", fn.Name.Name, e)
				}
				if ret == want {
					out = append(out, v)
				} else if ret == "" {
					fail("%s: case body is not a plain `return true/false`", fn.Name.Name)
				}
			}
		}
		return false
	})
	if !found {
		fail("%s: no switch statement", fn.Name.Name)
	}
	return out
}

func leanNatList(name string, xs []any) string {
	if len(xs) == 0 {
		fail("%s: nothing found where the table is expected (the code no longer has the shape the extractor reads)", name)
	}
	ss := make([]string, len(xs))
	for i, x := range xs {
		ss[i] = strconv.Itoa(x.(int))
	}
	return fmt.Sprintf("def %s : List Nat := [%s]\n", name, strings.Join(ss, ", "))
}

func leanStrList(name string, xs []string) string {
	if len(xs) == 0 {
		fail("%s: nothing found where the table is expected (the code no longer has the shape the extractor reads)", name)
	}
	ss := make([]string, len(xs))
	for i, x := range xs {
		ss[i] = strconv.Quote(x)
	}
	return fmt.Sprintf("def %s : List String := [%s]\n", name, strings.Join(ss, ", "))
}

func strs(xs []any) []string {
	out := make([]string, len(xs))
	for i, x := range xs {
		out[i] = x.(string)
	}
	return out
}

// stringListsIn collects, in order, every []string{...} composite literal of fn
func stringListsIn(fn *ast.FuncDecl) [][]string {
	var out [][]string
	ast.Inspect(fn, func(n ast.Node) bool {
		cl, ok := n.(*ast.CompositeLit)
		if !ok {
			return true
		}
		at, ok := cl.Type.(*ast.ArrayType)
		if !ok {
			return true
		}
		if id, ok := at.Elt.(*ast.Ident); !ok || id.Name != "string" {
			return true
		}
		var l []string
		for _, e := range cl.Elts {
			v, ok := constOf(e)
			if !ok {
				fail("%s: non-literal element in a []string literal", fn.Name.Name)
			}
			l = append(l, v.(string))
		}
		out = append(out, l)
		return false
	})
	return out
}

// callSites lists "enclosingFunc" for every call of the form <...>.<sel>.<method>(…) in file
func callSites(f *ast.File, sel, method string) []string {
	var out []string
	for _, d := range f.Decls {
		fd, ok := d.(*ast.FuncDecl)
		if !ok || fd.Body == nil {
			continue
		}
		ast.Inspect(fd.Body, func(n ast.Node) bool {
			call, ok := n.(*ast.CallExpr)
			if !ok {
				return true
			}
			se, ok := call.Fun.(*ast.SelectorExpr)
			if !ok || se.Sel.Name != method {
				return true
			}
			if inner, ok := se.X.(*ast.SelectorExpr); ok && inner.Sel.Name == sel {
				out = append(out, fd.Name.Name)
			}
			return true
		})
	}
	return out
}

// methodCallSites: the functions that call the method `method` on a plain identifier (r.method(...)), one
// entry per call, in source order
func methodCallSites(f *ast.File, method string) []string {
	var out []string
	for _, d := range f.Decls {
		fd, ok := d.(*ast.FuncDecl)
		if !ok || fd.Body == nil {
			continue
		}
		ast.Inspect(fd.Body, func(n ast.Node) bool {
			call, ok := n.(*ast.CallExpr)
			if !ok {
				return true
			}
			if se, ok := call.Fun.(*ast.SelectorExpr); ok && se.Sel.Name == method {
				if _, ok := se.X.(*ast.Ident); ok {
					out = append(out, fd.Name.Name)
				}
			}
			return true
		})
	}
	return out
}

func goStmts(f *ast.File) []string {
	var out []string
	for _, d := range f.Decls {
		fd, ok := d.(*ast.FuncDecl)
		if !ok || fd.Body == nil {
			continue
		}
		ast.Inspect(fd.Body, func(n ast.Node) bool {
			if _, ok := n.(*ast.GoStmt); ok {
				out = append(out, fd.Name.Name)
			}
			return true
		})
	}
	return out
}

// assignedFields: functions that assign to a field of the receiver/variable of type *transport
func transportFields(f *ast.File) map[string]bool {
	fields := map[string]bool{}
	for _, d := range f.Decls {
		gd, ok := d.(*ast.GenDecl)
		if !ok {
			continue
		}
		for _, s := range gd.Specs {
			ts, ok := s.(*ast.TypeSpec)
			if !ok || ts.Name.Name != "transport" {
				continue
			}
			if st, ok := ts.Type.(*ast.StructType); ok {
				for _, fl := range st.Fields.List {
					for _, n := range fl.Names {
						fields[n.Name] = true
					}
				}
			}
		}
	}
	return fields
}

func transportFieldWriters(f *ast.File, fields map[string]bool) []string {
	set := map[string]bool{}
	for _, d := range f.Decls {
		fd, ok := d.(*ast.FuncDecl)
		if !ok || fd.Body == nil {
			continue
		}
		ast.Inspect(fd.Body, func(n ast.Node) bool {
			as, ok := n.(*ast.AssignStmt)
			if !ok {
				return true
			}
			for _, l := range as.Lhs {
				if se, ok := l.(*ast.SelectorExpr); ok && fields[se.Sel.Name] {
					if id, ok := se.X.(*ast.Ident); ok && (id.Name == "r" || id.Name == "rt") {
						set[fd.Name.Name] = true
					}
				}
			}
			return true
		})
	}
	var out []string
	for k := range set {
		out = append(out, k)
	}
	sort.Strings(out)
	return out
}

func constValue(f *ast.File, name string) ast.Expr {
	for _, d := range f.Decls {
		gd, ok := d.(*ast.GenDecl)
		if !ok {
			continue
		}
		for _, s := range gd.Specs {
			vs, ok := s.(*ast.ValueSpec)
			if !ok {
				continue
			}
			for i, n := range vs.Names {
				if n.Name == name && i < len(vs.Values) {
					return vs.Values[i]
				}
			}
		}
	}
	fail("constant %s not found", name)
	return nil
}

func main() {
	if len(os.Args) < 2 {
		fmt.Fprintln(os.Stderr, "usage: extract <repo>")
		os.Exit(2)
	}
	root := os.Args[1]
	var b strings.Builder
	b.WriteString("-- GENERATED by /verif/tools/extract from the Go source of the repository; do not edit.\n")
	b.WriteString("-- Regenerated on every check; theorems over these tables are re-checked against the code as it is now.\n")
	b.WriteString("namespace Httpcache.Generated\n")

	table(&b, "statusUnderstood", func() string {
		return leanNatList("statusUnderstood", switchCases(funcDecl(parse(root, "internal/cacheabilityevaluator.go"), "isStatusUnderstood"), "true"))
	})
	table(&b, "heuristicStatus", func() string {
		return leanNatList("heuristicStatus", switchCases(funcDecl(parse(root, "internal/cacheabilityevaluator.go"), "isHeuristicallyCacheableCode"), "true"))
	})
	table(&b, "staleErrorStatus", func() string {
		return leanNatList("staleErrorStatus", switchCases(funcDecl(parse(root, "internal/helpers.go"), "isStaleErrorAllowed"), "true"))
	})
	table(&b, "safeMethods", func() string {
		hp := parse(root, "internal/helpers.go")
		safe := switchCases(funcDecl(hp, "IsUnsafeMethod"), "false")
		unsafeM := switchCases(funcDecl(hp, "IsUnsafeMethod"), "true")
		if len(unsafeM) != 0 || len(safe) == 0 {
			fail("IsUnsafeMethod is no longer of the form `case <safe methods>: return false; default: return true`")
		}
		return leanStrList("safeMethods", strs(safe))
	})
	table(&b, "hopByHop", func() string {
		var hop []string
		ast.Inspect(funcDecl(parse(root, "internal/helpers.go"), "hopByHopHeaders"), func(n ast.Node) bool {
			cl, ok := n.(*ast.CompositeLit)
			if !ok || hop != nil {
				return true
			}
			if _, ok := cl.Type.(*ast.MapType); !ok {
				return true
			}
			for _, e := range cl.Elts {
				kv := e.(*ast.KeyValueExpr)
				v, ok := constOf(kv.Key)
				if !ok {
					fail("hopByHopHeaders: non-literal key")
				}
				hop = append(hop, v.(string))
			}
			return false
		})
		return leanStrList("hopByHop", hop)
	})
	table(&b, "byQValue byEncoding byTimeInsensitive byOrderInsensitive byCaseInsensitive", func() string {
		lists := stringListsIn(funcDecl(parse(root, "internal/normalization.go"), "initNormalizationHeader"))
		if len(lists) != 5 {
			fail("initNormalizationHeader: expected 5 []string literals, found %d", len(lists))
		}
		out := ""
		for i, n := range []string{"byQValue", "byEncoding", "byTimeInsensitive", "byOrderInsensitive", "byCaseInsensitive"} {
			out += leanStrList(n, lists[i])
		}
		return out
	})
	table(&b, "noVaryHash", func() string {
		v, ok := constOf(constValue(parse(root, "internal/normalization.go"), "noVaryHash"))
		if !ok {
			fail("noVaryHash is not a literal")
		}
		return fmt.Sprintf("def noVaryHash : String := %s\n", strconv.Quote(v.(string)))
	})
	table(&b, "indexOpaquePrefix", func() string {
		v, ok := constOf(constValue(parse(root, "internal/entry.go"), "jsonOpaquePrefix"))
		if !ok {
			fail("jsonOpaquePrefix is not a string literal")
		}
		// as a list of code points, so that the NUL byte needs no string escape
		cps := []string{}
		for _, r := range v.(string) {
			cps = append(cps, strconv.Itoa(int(r)))
		}
		return fmt.Sprintf("def indexOpaquePrefix : List Nat := [%s]\n", strings.Join(cps, ", "))
	})
	table(&b, "locationHeaders", func() string {
		ci := parse(root, "internal/cacheinvalidator.go")
		var locs []string
		for _, d := range ci.Decls {
			if gd, ok := d.(*ast.GenDecl); ok {
				for _, s := range gd.Specs {
					if vs, ok := s.(*ast.ValueSpec); ok && vs.Names[0].Name == "locationHeaders" {
						for _, e := range vs.Values[0].(*ast.CompositeLit).Elts {
							v, _ := constOf(e)
							locs = append(locs, v.(string))
						}
					}
				}
			}
		}
		if locs == nil {
			fail("locationHeaders not found")
		}
		return leanStrList("locationHeaders", locs)
	})
	table(&b, "ageFormat", func() string {
		// how SetAgeHeader turns the age into text: the strconv function and the integer type the seconds are
		// converted to on the way ("Itoa/int" is 32 bits wide on 32-bit platforms: Age: 2147483648 prints negative)
		hp := parse(root, "internal/helpers.go")
		fd := funcDecl(hp, "SetAgeHeader")
		desc := ""
		ast.Inspect(fd, func(n ast.Node) bool {
			call, ok := n.(*ast.CallExpr)
			if !ok {
				return true
			}
			if se, ok := call.Fun.(*ast.SelectorExpr); ok {
				if x, ok := se.X.(*ast.Ident); ok && x.Name == "strconv" && len(call.Args) > 0 {
					conv := "?"
					if c, ok := call.Args[0].(*ast.CallExpr); ok {
						if id, ok := c.Fun.(*ast.Ident); ok {
							conv = id.Name
						}
					}
					desc = "strconv." + se.Sel.Name + "/" + conv
				}
			}
			return true
		})
		if desc == "" {
			fail("SetAgeHeader: no strconv call found")
		}
		return fmt.Sprintf("def ageFormat : String := %s\n", strconv.Quote(desc))
	})
	table(&b, "cacheStatusHeader fromCacheHeader fromCache cacheStatuses", func() string {
		hd := parse(root, "internal/header.go")
		out := ""
		for _, n := range []string{"CacheStatusHeader", "FromCacheHeader", "FromCache"} {
			v, ok := constOf(constValue(hd, n))
			if !ok {
				fail("%s is not a literal", n)
			}
			out += fmt.Sprintf("def %s : String := %s\n", strings.ToLower(n[:1])+n[1:], strconv.Quote(v.(string)))
		}
		var statuses []string
		for _, n := range []string{"CacheStatusHit", "CacheStatusMiss", "CacheStatusStale", "CacheStatusRevalidated", "CacheStatusBypass"} {
			cl, ok := constValue(hd, n).(*ast.CompositeLit)
			if !ok || len(cl.Elts) != 2 {
				fail("%s is not a two-element literal", n)
			}
			v, _ := constOf(cl.Elts[0])
			leg := "0"
			if id, ok := cl.Elts[1].(*ast.Ident); ok && id.Name == "FromCache" {
				leg = "1"
			}
			statuses = append(statuses, v.(string)+":"+leg)
		}
		return out + leanStrList("cacheStatuses", statuses)
	})
	table(&b, "defaultSWRTimeoutNs", func() string {
		rt := parse(root, "roundtripper.go")
		be, ok := constValue(rt, "DefaultSWRTimeout").(*ast.BinaryExpr)
		if !ok {
			fail("DefaultSWRTimeout is not a product")
		}
		n, ok1 := constOf(be.X)
		se, ok2 := be.Y.(*ast.SelectorExpr)
		if !ok1 || !ok2 || se.Sel.Name != "Second" {
			fail("DefaultSWRTimeout is not N * time.Second")
		}
		return fmt.Sprintf("def defaultSWRTimeoutNs : Int := %d\n", n.(int)*1_000_000_000)
	})
	table(&b, "upstreamCallSites upstreamWrapperCallSites goStatementsRoundtripper transportFieldWriters transportFieldWritersOptions", func() string {
		rt := parse(root, "roundtripper.go")
		tf := transportFields(rt)
		// the upstream is called in one wrapper (callUpstream: it allocates a nil Header map); the wrapper's
		// own call sites are where the transport contacts the origin
		var wrapperSites []string
		for _, w := range callSites(rt, "upstream", "RoundTrip") {
			wrapperSites = append(wrapperSites, methodCallSites(rt, w)...)
		}
		return leanStrList("upstreamCallSites", callSites(rt, "upstream", "RoundTrip")) +
			leanStrList("upstreamWrapperCallSites", wrapperSites) +
			leanStrList("goStatementsRoundtripper", goStmts(rt)) +
			leanStrList("transportFieldWriters", transportFieldWriters(rt, tf)) +
			leanStrList("transportFieldWritersOptions", transportFieldWriters(parse(root, "options.go"), tf))
	})
	table(&b, "fragmentSize dirMarker", func() string {
		fn := parse(root, "store/fscache/filenamer.go")
		v1, ok1 := constOf(constValue(fn, "fragmentSize"))
		v2, ok2 := constOf(constValue(fn, "dirMarker"))
		if !ok1 || !ok2 {
			fail("fragmentSize / dirMarker are not literals")
		}
		return fmt.Sprintf("def fragmentSize : Nat := %d\ndef dirMarker : String := %s\n", v1.(int), strconv.Quote(v2.(string)))
	})
	table(&b, "tempFilePrefix goStatementsFscache fsSetOps", func() string {
		fsc := parse(root, "store/fscache/fscache.go")
		v, ok := constOf(constValue(fsc, "tempFilePrefix"))
		if !ok {
			fail("tempFilePrefix is not a literal")
		}
		// the file-system operations of a function, in source order: calls on the os.Root (c.root.X), on the
		// open file (f.X) and on the cache's own helpers (c.x)
		opsOf := func(fn string) []string {
			var ops []string
			ast.Inspect(funcDecl(fsc, fn), func(n ast.Node) bool {
				call, ok := n.(*ast.CallExpr)
				if !ok {
					return true
				}
				if se, ok := call.Fun.(*ast.SelectorExpr); ok {
					switch x := se.X.(type) {
					case *ast.SelectorExpr:
						if x.Sel.Name == "root" {
							ops = append(ops, "root."+se.Sel.Name)
						}
					case *ast.Ident:
						if x.Name == "f" || x.Name == "c" {
							ops = append(ops, x.Name+"."+se.Sel.Name)
						}
					}
				}
				return true
			})
			return ops
		}
		setOps := opsOf("set")
		var helperOps []string
		for _, op := range setOps {
			if name, ok := strings.CutPrefix(op, "c."); ok {
				helperOps = append(helperOps, op+":"+strings.Join(opsOf(name), ","))
			}
		}
		return fmt.Sprintf("def tempFilePrefix : String := %s\n", strconv.Quote(v.(string))) +
			leanStrList("goStatementsFscache", goStmts(fsc)) + leanStrList("fsSetOps", setOps) + leanStrList("fsSetHelperOps", helperOps)
	})
	b.WriteString("end Httpcache.Generated\n")
	fmt.Print(b.String())
}
