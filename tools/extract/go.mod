module verif/extract

go 1.23
