"""Per-property configuration of bin/check: harness mode, generator budgets, trusted base."""

COMMON_ASSUMPTIONS = [
    "time inside one exchange is constant except across an origin call (testing/synctest virtual clock)",
    "net/http, net/url, encoding/json (valid UTF-8 strings pass unchanged), encoding/base64, httputil.DumpResponse/ReadResponse are taken as given (glue / Codec)",
    "the harness process runs with a local time zone of UTC+9 (VERIF_TZ_OFFSET)",
    "HTTPCACHE_ALLOW_UTC_DATETIMEFORMAT is unset",
    "variant indexes hold fewer than 12 references (slices.SortFunc is then a stable insertion sort)",
]

def _p(quick, thorough, mode="rt", tb=None, assumptions=None):
    return {"mode": mode, "quick": quick, "thorough": thorough,
            "trusted_base": tb or [], "assumptions": COMMON_ASSUMPTIONS + (assumptions or [])}

PROPS = {
    "C01": _p(4000, 60000),
    "C02": _p(4000, 60000),
    "C06": _p(4000, 60000),
    "C10": _p(4000, 60000),
    "C11": _p(4000, 60000),
    "C13": _p(4000, 60000),
    "C18": _p(4000, 60000),
    "C03": _p(4000, 60000, tb=["url.Parse / EscapedPath are stdlib glue; dot-segment removal is the keyer's own and modelled"]),
    "C04": _p(4000, 60000, tb=["q-value normaliser classes (Accept*, TE) are not generated: glue"]),
    "C07": _p(4000, 60000),
    "C08": _p(4000, 60000),
    "C09": _p(4000, 60000),
    "C19": _p(1500, 8000),
    "C12": _p(4000, 60000),
    "C16": dict(_p(3000, 30000, assumptions=["the Go memory model: data-race freedom itself is evidenced by the race detector on the seeded concurrent histories (support, not proof)"]), race=600),
    "C14": _p(90, 900, mode="store", tb=["os.Root, the file system and encoding/base64 (the model's b64url is compared with the files found on disk)"]),
    "C15": _p(16, 80, mode="store", tb=["POSIX rename(2) atomicity, open-file-description semantics, fsync durability"]),
    "C17": _p(6, 40, mode="store", tb=["AES-GCM and crypto/rand (abstract ideal AEAD, fresh nonces)"]),
    "C05": _p(3000, 30000, tb=["Codec: httputil.DumpResponse / http.ReadResponse round trip of an entry (tested, not proved)"]),
    "C20": _p(3000, 40000, assumptions=["goroutine lifetime and context cancellation are observed through testing/synctest, not modelled"]),
}
