"""Which properties MANIFEST.json claims, and in which words."""
TB = ("Trusted base: Lean 4.33 kernel (axioms propext, Classical.choice, Quot.sound only); the hand-written model is tied to the code by "
      "the correspondence check (sampled, seeded) and the regenerated tables; Go stdlib (net/http, net/url, encoding/json) as glue; "
      "testing/synctest virtual time; harness, trace parser and bin/check.")
CLAIMS = {
    "C01": {
        "text": "Theorem served_without_contact_is_fresh: for every request, clock reading and every possible answer of the store, an exchange of the model that does not contact the origin returns the 504 or a stored response that is fresh by the RFC 9111 definitions (saturating), or is covered by only-if-cached / max-stale / the stale-while-revalidate window with a spawned revalidation. Unbounded (all inputs); the model is checked against the real transport on seeded boundary-biased histories and the same Spec definitions are evaluated on the implementation's trace.",
        "note": TB,
    },
    "C02": {
        "text": "Theorems strict_validation / soft_validation / conditional_request / qualified_fields_stripped: for every request, stored entry and environment, when the RFC-level conditions (unqualified no-cache, stale+must-revalidate, request no-cache; request max-age exceeded) hold the model performs exactly one origin call with the client's header list plus the stored validators and returns the stored response iff that call answered 304 (stale-if-error only for the soft case), else the origin's reply or failure; fields named by a qualified no-cache are absent from every response served without validation; the field-name lists of repeated qualified no-cache directives accumulate and are split at EVERY comma, whatever bytes a member holds (qualified_lists_accumulate, qualified_names_after_a_comma). Correspondence + Spec monitor on the real transport (header and trailer section of what is served).",
        "note": TB,
    },
    "C06": {
        "text": "Theorems writes_justified / canStore_sound / understood_table_excludes / unstorable_merge_is_not_written: for every request and environment every store write of an exchange follows its single origin call and is either the write-back of the entry that was read (same status and body, after a 304 — and only if the merged response is itself storable) or one StoreResponse for a non-304 reply whose body was read completely and which the storability rules accept (final status, not 206, no no-store, must-understand only if understood, explicit freshness or RFC-heuristic status); bypassed requests (other methods, Range) never write. Correspondence + monitor over every Set reaching the recording store.",
        "note": TB,
    },
    "C10": {
        "text": "Theorems terminates / error_only_from_origin / store_fault_means_origin: every program is a finite tree with an execution for every environment; a round trip always yields a response or an error, an error only when its last origin call failed; when store reads fail or return undecodable bytes the client's own request goes to the origin (or 504 for only-if-cached) and the result is that call's outcome. Panic-freedom of the Go code itself is evidenced by the correspondence run (recover around every RoundTrip) and the monitor, not by the theorem; so is \"nor hangs\" in virtual time (pending origin calls at quiescence, unreleased bodies, a stored response returned long after the failure it stands in for had arrived).",
        "note": TB + " Not modelled: goroutine scheduling, hangs inside a backend.",
    },
    "C11": {
        "text": "Theorem classification: every response of the model is produced in exactly one of five ways (synthesised 504; HIT from the store without contact; STALE with a spawned revalidation; outcome of a validation; the origin's own reply marked MISS/BYPASS), with served_fields / origin_fields (exactly one status value, X-From-Cache = 1 exactly for store-served responses, exactly one Age) and hit_age (Age = RFC 9111 §4.2.3 age in whole seconds). Correspondence + monitor recomputing age and provenance on the implementation's trace.",
        "note": TB,
    },
    "C13": {
        "text": "Theorems sie_only_inside_window / sie_statuses: whenever a validation ends with the stored response marked STALE, validation was not mandatory (no no-cache / stale must-revalidate), the origin call failed or answered 500/502/503/504 (table regenerated from the source), and the stored response or the request carries stale-if-error=N with the response inside that window by the RFC definitions at the instant of failure; the failed reply's own directives are not a source. Liveness (inside the window ⇒ served) is checked by the monitor on the implementation, not proved.",
        "note": TB,
    },
    "C18": {
        "text": "Theorem oic_no_origin: for every request (any method) carrying only-if-cached, every clock reading and every answer of the store, the exchange performs no origin call and spawns no background work; the result is the synthesised 504 or the entry that was read, which then needs no validation by the RFC-level rules. Correspondence + monitor (upstream call log must stay empty).",
        "note": TB,
    },
}
CLAIMS.update({
    "C03": {
        "text": "Theorems pct_norm_is_rfc (the key's percent-encoding normal form is the RFC 3986 one for every byte string), unreserved_is_ascii, method_gate (a request that is not a plain GET never reads an entry and writes nothing), lookup_uses_url_key. PARTIAL: equality of the whole key with the Spec normal form and its injectivity on components are checked by the correspondence on grammar-generated URL pairs (equivalent spellings and near misses, IPv6 literals, non-ASCII escapes) and by the provenance monitor (a served body's origin token must belong to a request with the same Spec normal form), not by a theorem.",
        "note": TB + " url.Parse, ResolveReference (dot-segment removal) and EscapedPath are stdlib glue; http(s) URLs with empty Opaque.",
    },
    "C04": {
        "text": "Theorems matcher_selects_matching_reference, reference_records_storing_request, variant_isolation, star_never_matches: for an arbitrary q-value normaliser and an arbitrary hash, the matcher only selects a reference without '*' whose every recorded (field, value) equals the request's normalised value, and what is recorded is the storing request's normalised values of all fields of all Vary lines; hence a request matches a reference only if it agrees with the storing request on every nominated field; the nominated names are the members of the Vary value split at every comma, whatever bytes a member holds (vary_names_split_at_every_comma, star_member_is_seen_anywhere). PARTIAL: entry/reference pairing across a history (needs hash injectivity) is checked by the token-provenance monitor and the correspondence.",
        "note": TB,
    },
    "C07": {
        "text": "Theorems unsafe_invalidates (for every unsafe method without only-if-cached whose origin reply is 2xx/3xx the exchange reads the index of its URL key and deletes that key and the id of EVERY reference the store returned, whatever the store answers), safe_table (the code's safe-method table, regenerated, is within the IANA safe list). Location / Content-Location handling and 'nothing stored earlier is reused later' are checked by the monitor on the implementation's trace (including that only keys of the target and same-origin locations are deleted).",
        "note": TB,
    },
    "C08": {
        "text": "Theorems freshen_writes_back (after a 304 — foreground or background — the entry is written back under its id with merged fields, unchanged status/body and the validation's timestamps), merge_keeps_content_length, replace_keeps_other_variants (a full reply keeps every other reference of the index except exact duplicates). The monitor compares every write-back on the implementation with an independently written RFC 9111 §4.3.4 merge and checks the index after replacement.",
        "note": TB,
    },
    "C09": {
        "text": "Theorem fresh_match_is_served (PARTIAL, stated in the file): for a GET without Cache-Control, when the store returns a matching reference and its entry, and the entry has max-age above its RFC age and no unqualified no-cache, the model serves it without contacting the origin. Equivalent spellings, heuristic freshness, all backends and reopen are covered by the liveness monitor on the implementation (expected-hit oracle written from the Spec) and the correspondence.",
        "note": TB,
    },
    "C19": {
        "text": "Theorems written_keys_determined (keys written are a function of URL key, Vary lines and normalised selecting values only), index_invariant + every_reachable_index_bounded (for EVERY history an index holds at most as many references as there are distinct variants), store_keys_never_exceed, invalidate_complete, replaced_response_is_removed (a store deletes the response whose reference it overwrites once nothing names it) and every_stored_response_is_named / entries_bounded_by_index: for EVERY sequential fault-free history of one resource (ReachableRes: steps are the effects of traces of the model's own storeResponse / invalidateCache run with the index the store holds) every stored response is named by its index, so entry keys are bounded by the index bound. Outside the theorems: overlapping exchanges and failing writes (the at-rest monitor excludes the same histories), and that the origin's Vary values come from a finite set. The monitor checks key count, index length and 'no entry left unnamed at rest' over long repetitions of a finite request alphabet.",
        "note": TB,
    },
})
CLAIMS.update({
    "C12": {
        "text": "Theorems over ALL spellings of the list and directive syntax: ows_and_empty_elements (arbitrary OWS / empty elements), lines_are_one_list + field_lines_combined (any split into field lines), name_case_irrelevant, quoted_argument (token vs quoted-string for delta-seconds), order_irrelevant and extensions_irrelevant (lookups independent of order and of unknown directives, for distinct names), delta_seconds_large (no wrap-around: at least min(value, 2^31) s for every digit string), min_fresh_is_honoured / huge_min_fresh_never_wraps (the use of a request min-fresh does not wrap either: a usable hit has at least the demanded freshness left; monitor clause monHugeMinFresh on the real transport). PARTIAL: the single composed parse(render) statement is not assembled and elements with quoted-pairs are covered by the metamorphic check only: canonical/respelled history pairs must be observationally identical on the real transport and agree with the model.",
        "note": TB,
    },
})
CLAIMS.update({
    "C20": {
        "text": "Theorems foreground_does_not_wait (the hit path spawns at most one background program, only on the stale-while-revalidate branch, performs no origin call itself before returning and marks the response STALE; what it spawns is backgroundRevalidate for the client's request plus the stored validators), one_background_request (that program sends exactly one origin request, first, with the configured deadline, then only store operations, spawns nothing and always ends), timeout_defaulting (positive setting kept, non-positive → 5 s, from the regenerated constant). PARTIAL: detachment, cancellation at the deadline and goroutine quiescence are observed under testing/synctest for latencies 0 … beyond the timeout / never, all outcomes, all timeout settings and caller cancellation; not proved.",
        "note": TB + " Not modelled: the Go scheduler, context cancellation.",
    },
})
CLAIMS.update({
    "C05": {
        "text": "Theorems hop_by_hop_complete (regenerated set ⊇ RFC list), hop_by_hop_removed, stored_entry_is_origin_minus_hop (what is written is the reply's status and body unchanged and its fields minus hop-by-hop, only after a complete body read), served_status_and_body, end_to_end_fields_preserved (every stored field except the cache's own three and qualified no-cache fields is returned with exactly the stored values), parsed_entry_has_no_hop_by_hop, connection_names_after_a_comma (a name after a comma of a Connection line is hop-by-hop whatever stands before the comma). PARTIAL: the entry serialisation is net/http (Codec hypothesis): its round trip is tested end to end — chunked, close-delimited, HTTP/1.0, bodies with CR/LF/NUL/framing look-alikes up to 1 MiB, multi-valued and odd fields, memory / file-system / encrypted / reopened backends — by the byte-level monitor and the correspondence.",
        "note": TB + " HTTP/2 and a real http.Transport against a TCP origin are not exercised (the scripted origin parses wire bytes with http.ReadResponse).",
    },
})
CLAIMS.update({
    "C14": {
        "text": "Theorems map_laws (the reference map), file_names_injective and file_names_prefix_free (for every injective encoding without '+': distinct keys get distinct paths and no key's file is a directory another key needs — any bytes, any length, prefixes, the 255 / fragment boundaries, the empty key), dir_components_fit, reserved_names_outside_alphabet. The real backends (memory, file system, encrypted, reopened between operations) and the expapi handlers are driven with seeded adversarial operation sequences and compared operation by operation with the map model, including the file names found on disk vs. the model's executable file-name function and caller-buffer mutation after Set / Get. Two known findings (expapi over memcache://, non-UTF-8 keys in the JSON listing) are listed in known_findings.json.",
        "note": TB + " os.Root / the file system / encoding/base64 are trusted.",
    },
    "C15": {
        "text": "Theorems get_returns_whole_value (from the initial state, after ANY interleaving of any number of Sets at any stage with any partial writes, abandoned at any point, Deletes and renames, a Get that opened key k reads — whatever happens afterwards — exactly a complete value passed to a Set for k, or finds the key absent), failed_set_is_invisible, visible_only_by_commit (linearisation point = the rename), set_step_list (the os.Root operations of the real `set`, regenerated from the source, are temp-file / write / sync / close / rename). PARTIAL: rename(2) atomicity, inode persistence of open descriptors and fsync durability are assumed. The harness cuts real writes at every byte with RLIMIT_FSIZE in a child process, SIGKILLs a writer, and checks concurrent Set/Get/Delete histories against register conditions (no torn, no stale, no unwritten value).",
        "note": TB + " POSIX / kernel file-system semantics are assumed.",
    },
    "C17": {
        "text": "Theorems encryption_requested_never_plaintext / option_without_usable_key_fails (model of fromURL / WithEncryption: requesting encryption yields an encrypting backend with a usable key or a failed open, never plaintext), plaintext_only_when_not_asked (a DSN opens a plaintext store only when its encrypt parameter is absent, empty or \"off\"; the model fromURL is itself run against store.Open on a grid of spellings × key classes), and — over an abstract ideal AEAD — decrypt_encrypt, accepted_files_are_genuine (whatever bytes are on disk, if Get accepts them the file is exactly a genuine encryption of the returned value: altered, truncated or extended files are rejected), wrong_key_yields_nothing, same_value_different_files (given distinct nonces). PARTIAL: AES-GCM and crypto/rand are assumptions. The harness checks every way of switching encryption on, unusable keys, scans the real files for plaintext fragments, compares repeated writes, modifies every byte / truncates / extends a stored file, and reads with a wrong key and with no key.",
        "note": TB + " Cryptographic strength is assumed (ideal AEAD, fresh nonces).",
    },
})
CLAIMS.update({
    "C16": {
        "text": "Theorems every_interleaving_is_a_run / all_interleavings_are_runs (any number of round trips and the background programs they spawn, advanced one store/origin operation at a time by an arbitrary scheduler with arbitrary answers: a finished call's trace is an execution of its own program — hence every exchange-local theorem holds per call under every interleaving, instantiated for C01 and C18), background_ignores_returned_object (the background program depends on the entry handed to the caller only through its id and timestamps), structural_facts (regenerated: the two go statements, transport fields written only at construction). PARTIAL: data-race freedom is evidenced by the Go race detector on seeded concurrent histories with an adversarial caller, header snapshots before/after background completion and the provenance monitors on concurrent traces, not proved.",
        "note": TB + " The Go memory model and scheduler are not modelled.",
    },
})
NOT_APPLICABLE = {("C%02d" % i): "check not built yet (work in progress; DESIGN.md §10 gives the order of construction)" for i in range(1, 21)}
