"""Which properties MANIFEST.json claims, and in which words."""
TB = ("Trusted base: Lean 4.33 kernel (axioms propext, Classical.choice, Quot.sound only); the hand-written model is tied to the code by "
      "the correspondence check (sampled, seeded) and the regenerated tables; Go stdlib (net/http, net/url, encoding/json) as glue; "
      "testing/synctest virtual time; harness, trace parser and bin/check.")
CLAIMS = {
    "C01": {
        "text": "Theorem served_without_contact_is_fresh: for every request, clock reading and every possible answer of the store, an exchange of the model that does not contact the origin returns the 504 or a stored response that is fresh by the RFC 9111 definitions (saturating), or is covered by only-if-cached / max-stale / the stale-while-revalidate window with a spawned revalidation. Unbounded (all inputs); the model is checked against the real transport on seeded boundary-biased histories and the same Spec definitions are evaluated on the implementation's trace.",
        "note": TB,
    },
}
NOT_APPLICABLE = {("C%02d" % i): "check not built yet (work in progress; DESIGN.md §10 gives the order of construction)" for i in range(1, 21)}
