"""Which properties MANIFEST.json claims, and in which words."""
TB = ("Trusted base: Lean 4.33 kernel (axioms propext, Classical.choice, Quot.sound only); the hand-written model is tied to the code by "
      "the correspondence check (sampled, seeded) and the regenerated tables; Go stdlib (net/http, net/url, encoding/json) as glue; "
      "testing/synctest virtual time; harness, trace parser and bin/check.")
CLAIMS = {
    "C01": {
        "text": "Theorem served_without_contact_is_fresh: for every request, clock reading and every possible answer of the store, an exchange of the model that does not contact the origin returns the 504 or a stored response that is fresh by the RFC 9111 definitions (saturating), or is covered by only-if-cached / max-stale / the stale-while-revalidate window with a spawned revalidation. Unbounded (all inputs); the model is checked against the real transport on seeded boundary-biased histories and the same Spec definitions are evaluated on the implementation's trace.",
        "note": TB,
    },
    "C02": {
        "text": "Theorems strict_validation / soft_validation / conditional_request / qualified_fields_stripped: for every request, stored entry and environment, when the RFC-level conditions (unqualified no-cache, stale+must-revalidate, request no-cache; request max-age exceeded) hold the model performs exactly one origin call with the client's header list plus the stored validators and returns the stored response iff that call answered 304 (stale-if-error only for the soft case), else the origin's reply or failure; fields named by a qualified no-cache are absent from every response served without validation. Correspondence + Spec monitor on the real transport.",
        "note": TB,
    },
    "C06": {
        "text": "Theorems writes_justified / canStore_sound / understood_table_excludes: for every request and environment every store write of an exchange follows its single origin call and is either the write-back of the entry that was read (same status and body, after a 304) or one StoreResponse for a non-304 reply whose body was read completely and which the storability rules accept (final status, not 206, no no-store, must-understand only if understood, explicit freshness or RFC-heuristic status); bypassed requests (other methods, Range) never write. Correspondence + monitor over every Set reaching the recording store.",
        "note": TB,
    },
    "C10": {
        "text": "Theorems terminates / error_only_from_origin / store_fault_means_origin: every program is a finite tree with an execution for every environment; a round trip always yields a response or an error, an error only when its last origin call failed; when store reads fail or return undecodable bytes the client's own request goes to the origin (or 504 for only-if-cached) and the result is that call's outcome. Panic-freedom of the Go code itself is evidenced by the correspondence run (recover around every RoundTrip) and the monitor, not by the theorem.",
        "note": TB + " Not modelled: goroutine scheduling, hangs inside a backend.",
    },
    "C11": {
        "text": "Theorem classification: every response of the model is produced in exactly one of five ways (synthesised 504; HIT from the store without contact; STALE with a spawned revalidation; outcome of a validation; the origin's own reply marked MISS/BYPASS), with served_fields / origin_fields (exactly one status value, X-From-Cache = 1 exactly for store-served responses, exactly one Age) and hit_age (Age = RFC 9111 §4.2.3 age in whole seconds). Correspondence + monitor recomputing age and provenance on the implementation's trace.",
        "note": TB,
    },
    "C13": {
        "text": "Theorems sie_only_inside_window / sie_statuses: whenever a validation ends with the stored response marked STALE, validation was not mandatory (no no-cache / stale must-revalidate), the origin call failed or answered 500/502/503/504 (table regenerated from the source), and the stored response or the request carries stale-if-error=N with the response inside that window by the RFC definitions at the instant of failure; the failed reply's own directives are not a source. Liveness (inside the window ⇒ served) is checked by the monitor on the implementation, not proved.",
        "note": TB,
    },
    "C18": {
        "text": "Theorem oic_no_origin: for every request (any method) carrying only-if-cached, every clock reading and every answer of the store, the exchange performs no origin call and spawns no background work; the result is the synthesised 504 or the entry that was read, which then needs no validation by the RFC-level rules. Correspondence + monitor (upstream call log must stay empty).",
        "note": TB,
    },
}
NOT_APPLICABLE = {("C%02d" % i): "check not built yet (work in progress; DESIGN.md §10 gives the order of construction)" for i in range(1, 21)}
